"""
C03 helper: per-column specifications of a sweep case and the generators of the "every value the
encoder writes" families.

The element sweep of harness/props/c03.py used to look at ONE column (the probed numeric / code /
character element).  The property quantifies over every value handed to the encoder, so a case now
carries one `Col` per value position and the oracle / the model comparison look at all of them:

  fk 'n'  numeric element (width w, scale s, reference r; unsigned field, all ones = missing for w > 1)
  fk 'c'  unsigned integer field without scaling: code / flag value, associated field (204YYY),
          skipped local descriptor (206YYY), bit-map bit (031031), delayed replication factor
  fk 's'  character field of `nbytes` octets (element, 205YYY, 208YYY)
  fk 'r'  new reference value of 203YYY: SIGN AND MAGNITUDE, w = YYY bits, |v| <= 2^(w-1) - 1
  fk 'k'  constant the operator descriptors 222000 / 236000 ... take from the value list (0)

Families generated here (each uncompressed and compressed: all subsets equal / free columns differing
/ with a missing entry):
  newref    203YYY definition, the transmitted new reference value probed at ITS range boundary
            (0, +-1, +-(2^(Y-1)-1), +-2^(Y-1), +-(2^(Y-1)+1), +-(2^Y-1), +-2^Y, beyond, wrap, random, missing),
            optionally two defined elements or 207YYY over the re-referenced element
  widths    numeric element under a width-changing modifier (201+, 201-, 207, 201 and 207 together):
            ALL the special packed integers 2^k - 1, 2^k (and neighbours) for k around the Table B width,
            around the effective width and in between
  assoc     204YYY (also nested: the widths add up) associated field values 0, 1, max, all ones, 2^Y, wrap, -1
  skipped   206YYY skipped local descriptor, same probes, 1..64 bits
  factor    delayed replication factor 031000 / 031001 / 031002 at 0, 1, max, all ones, max+1, wrap, -1, missing
  bitmap    bit-map bits other than 0 / 1 (2, 3, -1, 256, missing)
  str205    205YYY character data shorter / equal / longer than the field, empty, missing
  cfmod     code / flag element under 201 / 202 / 207 (which must NOT change its width): probes around the
            Table B width and around the width a wrong application of the operator would give
"""
from fractions import Fraction

from harness import encprops as E


class Col(object):
    __slots__ = ('fk', 'w', 's', 'r', 'nbytes', 'role')

    def __init__(self, fk, w=0, s=0, r=0, nbytes=0, role=''):
        self.fk, self.w, self.s, self.r, self.nbytes, self.role = fk, w, s, r, nbytes, role

    def dump(self):
        return [self.fk, self.w, self.s, self.r, self.nbytes, self.role]

    @staticmethod
    def load(l):
        return Col(*l)


class Sweep(object):
    """one probe: template, per-subset python inputs, one Col per value position; `p` = the probed column"""
    __slots__ = ('ids', 'n', 'comp', 'inputs', 'p', 'w', 's', 'r', 'kind', 'mod', 'layout', 'gridm', 'eid', 'fk', 'idx', 'nbytes', 'cols')

    def finish(self, cols, p, gridm=None):
        self.cols, self.p = cols, p
        c = cols[p]
        self.w, self.s, self.r, self.fk, self.nbytes = c.w, c.s, c.r, c.fk, c.nbytes
        self.gridm = gridm if gridm is not None else [[True] * len(cols) for _ in self.inputs]
        return self

    def replay(self):
        return {'sweep': True, 'ids': self.ids, 'n_subsets': self.n, 'compressed': self.comp, 'p': self.p,
                'inputs': [[repr_value(x) for x in vs] for vs in self.inputs], 'w': self.w, 's': self.s, 'r': self.r,
                'kind': self.kind, 'mod': self.mod, 'layout': self.layout, 'gridm': self.gridm, 'fk': self.fk,
                'nbytes': self.nbytes, 'case_index': self.idx, 'cols': [c.dump() for c in self.cols]}


def repr_value(x):
    if isinstance(x, float):
        return {'f': x.hex()}
    return x


def unrepr_value(x):
    if isinstance(x, dict) and 'f' in x:
        return float.fromhex(x['f'])
    return x


def decoder_value(q, s):
    """the value a decoder returns for scaled integer q (decoder.py: `value /= scale_powered`)"""
    if s == 0:
        return q
    return q / (1.0 * 10 ** s)


def value_for(t, s, r):
    """python input whose exact scaled value is (close to) t + r, t a Fraction in raw units"""
    T = t + r
    if s == 0:
        assert T.denominator == 1
        return int(T)
    if T.denominator == 1:
        return decoder_value(int(T), s)
    return float(E.scaled(T, -s))


def uint_probes(rng, w):
    """probe values for an unsigned field of w bits (no scaling)"""
    top = (1 << w) - 1
    return [0, 1, max(top - 1, 0), top, top, top + 1, top + 1, top + 2, 2 * (top + 1) + 1, (top + 1) * 256 + rng.randint(0, top),
            (top + 1) + rng.randint(0, top), -1, -(top + 1) + 1 if top else -2, rng.randint(0, top), rng.randint(0, top),
            None if w > 1 else 0]


def pow2_exponents(rng, nb, w, extra=True):
    """the exponents k whose 2^k - 1 / 2^k are special for a field of Table B width nb and effective width w"""
    lo, hi = min(nb, w), max(nb, w)
    ks = {nb - 1, nb, nb + 1, w - 1, w, w + 1}
    if hi - lo > 1:
        ks.add(rng.randint(lo + 1, hi - 1))
        if extra:
            ks.update(range(lo + 1, min(hi, lo + 4)))
    return sorted(k for k in ks if 0 <= k <= 66)


COMP_LAYOUTS = ['c-equal', 'c-mixed', 'c-missing', 'c-mixed-missing']
LAYOUTS = ['u', 'u'] + COMP_LAYOUTS


class Families(object):
    """mixin of SweepGen (needs self.b, self.numeric, self.codeflag, self.string, self.probe)"""

    # -- plain (in-range) companions ------------------------------------------------------------
    def plain(self, rng, kinds='ncs'):
        """-> (id, Col, value generator(rng) -> in-range python value)"""
        k = rng.choice(kinds)
        b = self.b
        if k == 'n':
            while True:
                e = rng.choice(self.numeric)
                w, s, r = E.eff_params(b, e)
                if w <= 32 and abs(s) <= 12:
                    break
            top = (1 << w) - 1
            return e, Col('n', w, s, r, role='element'), (lambda g, w=w, s=s, r=r, top=top: value_for(Fraction(g.randint(0, max(top - 1, 0))), s, r))
        if k == 'c':
            e = rng.choice(self.codeflag)
            w = int(b[e][4])
            top = (1 << w) - 1
            return e, Col('c', w, role='codeflag'), (lambda g, top=top: g.randint(0, max(top - 1, 0)))
        e = rng.choice(self.string)
        nbytes = int(b[e][4]) // 8
        return e, Col('s', nbytes * 8, nbytes=nbytes, role='string'), (lambda g, nbytes=nbytes: self.text(g, g.choice([nbytes, nbytes, g.randint(0, nbytes)])))

    @staticmethod
    def text(rng, k):
        return ''.join(chr(rng.choice([rng.randint(0x21, 0x7e), rng.randint(0xa1, 0xfe)])) for _ in range(k))

    def assemble(self, rng, ids, cols, gens, p, probe, layout, mod, kind, fixed=(), extra=None):
        """build the per-subset inputs.  gens[j](rng) gives an in-range value of column j; column p gets `probe`
        (first subset; every subset in the layouts c-equal / c-missing).  `fixed` = columns that must agree between the
        subsets of compressed data (structure).  `extra` = {column: (value, on_grid)}: further probes of the first subset."""
        c = Sweep()
        c.ids, c.kind, c.mod, c.layout, c.eid = ids, kind, mod, layout, 0
        c.comp = layout != 'u'
        c.n = 1 if layout == 'u' else rng.choice([2, 3])
        if layout == 'c-mixed-missing':
            c.n = 3
        first = [g(rng) for g in gens]
        first[p] = probe
        g0 = [True] * len(cols)
        for j, (v, on) in (extra or {}).items():
            first[j] = v
            g0[j] = on
        rows, grid = [first], [g0]
        for i in range(1, c.n):
            if layout == 'c-equal':
                rows.append(list(first))
                grid.append(list(g0))
                continue
            row = [first[j] if j in fixed else g(rng) for j, g in enumerate(gens)]
            if layout == 'c-missing' and p not in fixed:
                row[p] = probe
            rows.append(row)
            grid.append([True] * len(cols))
        if layout in ('c-missing', 'c-mixed-missing'):
            cand = [p] if p not in fixed else [j for j, col in enumerate(cols) if j not in fixed and col.fk in 'nc']
            cand = [j for j in cand if cols[j].fk != 'r' and (cols[j].fk == 's' or cols[j].w > 1)]
            if cand:
                rows[-1][rng.choice(cand)] = None
        if c.n > 1 and rng.random() < 0.5:
            rows.reverse()
            grid.reverse()
        c.inputs = rows
        return c.finish(cols, p, grid)

    # -- 203YYY: the transmitted new reference value -----------------------------------------------
    def newref_case(self, rng, layout):
        b = self.b
        e = rng.choice(self.numeric)
        yb = rng.choice([1, 2, 3, 4, 8, 10, 12, 16, 20, 24, 32, rng.randint(2, 32), rng.randint(2, 16)])
        lim = 1 << (yb - 1)          # a magnitude must be < lim
        full = 1 << yb
        sg = rng.choice([1, -1])
        nr = rng.choice([0, sg, sg * (lim - 1), sg * (lim - 1), sg * lim, sg * lim, sg * lim, sg * (lim + 1), sg * (lim + rng.randint(0, lim - 1 if lim > 1 else 0)),
                         sg * (full - 1), sg * (full - 1), sg * full, sg * (full + 1), sg * (full + rng.randint(0, full)), sg * (2 * full + rng.randint(0, lim)),
                         sg * (256 * full + rng.randint(0, lim)), rng.randint(-(lim - 1), lim - 1), rng.randint(-(lim - 1), lim - 1), int(b[e][3]),
                         None if rng.random() < 0.3 else 0])
        y207 = rng.randint(1, 2) if rng.random() < 0.2 else 0
        w, s, r = E.eff_params(b, e, y207=y207, newref=nr if nr is not None else 0)
        if not (1 <= w <= (64 if s == 0 else 46)) or abs(s) > 20:
            return None
        pr = self.probe(rng, rng.choice(['ongrid', 'ongrid', 'ongrid', 'min', 'max', 'allones', '2w', 'min-1', 'offgrid', 'tie', 'missing']), w, s, r, int(b[e][4]))
        if pr is None:
            return None
        x, on = pr
        top = (1 << w) - 1
        ids = [203000 + yb, e]
        cols = [Col('r', yb, role='newref')]
        gens = [lambda g: nr]
        two = rng.random() < 0.25
        if two:
            e2 = rng.choice(self.numeric)
            if e2 == e:
                two = False
        if two:
            w2, s2, r2 = E.eff_params(b, e2, newref=0)
            nr2 = rng.randint(-(lim - 1), lim - 1)
            w2, s2, r2 = E.eff_params(b, e2, newref=nr2)
            if w2 > 32 or abs(s2) > 12:
                two = False
        if two:
            ids.append(e2)
            cols.append(Col('r', yb, role='newref'))
            gens.append(lambda g: nr2)
        ids.append(203255)
        ids += [207000 + y207, e, 207000] if y207 else [e]
        cols.append(Col('n', w, s, r, role='element'))
        pe = len(cols) - 1
        gens.append(lambda g: value_for(Fraction(g.randint(0, max(top - 1, 0))), s, r))
        if two:
            ids.append(e2)
            top2 = (1 << w2) - 1
            cols.append(Col('n', w2, s2, r2, role='element'))
            gens.append(lambda g: value_for(Fraction(g.randint(0, max(top2 - 1, 0))), s2, r2))
        ids.append(203000)
        fixed = set(j for j, col in enumerate(cols) if col.fk == 'r')
        if layout == 'c-newref-differs':
            fixed = set()
            layout = 'c-mixed'
            gens[0] = lambda g: g.randint(-(lim - 1), lim - 1) if lim > 1 else 0
        extra = {} if (x is None and w <= 1) else {pe: (x, on)}
        c = self.assemble(rng, ids, cols, gens, 0, nr, layout, 'newref', 'newref', fixed=fixed, extra=extra)
        c.eid = e
        return c

    # -- width-changing modifiers x special packed integers ----------------------------------------
    def width_modifier(self, rng, e, mod):
        b = self.b
        nb, sc = int(b[e][4]), int(b[e][2])
        if mod == '201+207':
            y = rng.randint(1, 2)
            inc = (10 * y + 2) // 3
            lim = 64 if sc + y == 0 else 44
            if nb + inc + 1 > lim:
                return None
            d = max(1, min(rng.choice([1, 2, 3, 8, rng.randint(1, lim - nb - inc)]), lim - nb - inc, 127))
            return [201128 + d, 207000 + y, e, 207000, 201000], None, E.eff_params(b, e, y201=128 + d, y207=y)
        if mod == '201+202':
            lim = 44
            if nb >= lim:
                return None
            d = max(1, min(rng.choice([1, 2, 4, rng.randint(1, lim - nb)]), lim - nb, 127))
            d2 = rng.choice([1, 2, -1])
            return [201128 + d, 202128 + d2, e, 202000, 201000], None, E.eff_params(b, e, y201=128 + d, y202=128 + d2)
        return self.modifier(rng, e, mod)

    def width_cases(self, rng, e, mod, layouts=None, every_delta=False):
        """all the special packed integers of one (element, width modifier) pair"""
        m = self.width_modifier(rng, e, mod)
        if m is None:
            return []
        ids, nr, (w, s, r) = m
        if not (1 <= w <= 64) or abs(s) > 20:
            return []
        nb = int(self.b[e][4])
        out = []
        for k in pow2_exponents(rng, nb, w):
            deltas = [-1, 0] + ([-2, 1] if every_delta else [rng.choice([-2, 1])])
            for dlt in deltas:
                raw = (1 << k) + dlt
                if raw < 0:
                    continue
                for layout in (layouts or [rng.choice(LAYOUTS)]):
                    c = self.numeric_from_raw(rng, e, ids, nr, w, s, r, raw, layout, mod, 'pow2')
                    if c is not None:
                        out.append(c)
        return out

    # -- 204YYY ----------------------------------------------------------------------------------
    def assoc_case(self, rng, layout):
        y = rng.choice([1, 2, 3, 4, 7, 8, 9, 16, 24, 31, 32, rng.randint(1, 32)])
        nested = rng.random() < 0.2
        y2 = rng.choice([1, 2, 8, rng.randint(1, 16)]) if nested else 0
        wa = y + y2
        nel = rng.randint(1, 3)
        ids = [204000 + y, 31021] + ([204000 + y2, 31021] if nested else [])
        cols = [Col('c', 6, role='assoc-significance')] + ([Col('c', 6, role='assoc-significance')] if nested else [])
        gens = [lambda g: g.randint(0, 62)] * len(cols)
        top = (1 << wa) - 1
        apos = []
        for _ in range(nel):
            e, col, gen = self.plain(rng)
            ids.append(e)
            apos.append(len(cols))
            cols.append(Col('c', wa, role='assoc'))
            gens.append(lambda g: g.randint(0, max(top - 1, 0)))
            cols.append(col)
            gens.append(gen)
        ids += [204000] * (2 if nested else 1)
        p = rng.choice(apos)
        return self.assemble(rng, ids, cols, gens, p, rng.choice(uint_probes(rng, wa)), layout, 'assoc', 'assoc')

    # -- 206YYY ----------------------------------------------------------------------------------
    def skipped_case(self, rng, layout):
        y = rng.choice([1, 2, 3, 7, 8, 9, 15, 16, 24, 32, 33, 63, 64, rng.randint(1, 64)])
        lid = rng.choice([63255, 48001, 63001, 1001, 12001])
        ids, cols, gens = [], [], []
        if rng.random() < 0.5:
            e, col, gen = self.plain(rng)
            ids.append(e), cols.append(col), gens.append(gen)
        ids += [206000 + y, lid]
        p = len(cols)
        top = (1 << y) - 1
        cols.append(Col('c', y, role='skipped'))
        gens.append(lambda g: g.randint(0, max(top - 1, 0)))
        if rng.random() < 0.5:
            e, col, gen = self.plain(rng)
            ids.append(e), cols.append(col), gens.append(gen)
        return self.assemble(rng, ids, cols, gens, p, rng.choice(uint_probes(rng, y)), layout, 'skipped', 'skipped')

    # -- delayed replication factors ---------------------------------------------------------------
    def factor_case(self, rng, layout, heavy=False):
        b = self.b
        fid = rng.choice([31000, 31001, 31001, 31001, 31002])
        w, s, r = E.eff_params(b, fid)
        top = (1 << w) - 1
        probes = [0, 1, 2, rng.randint(0, 5), rng.randint(0, min(top, 40)), max(top - 1, 0), top, top, top + 1, top + 1, top + 2, -1, None]
        if w <= 8 or heavy:
            probes += [2 * (top + 1) + 1, (top + 1) + rng.randint(0, 3)]
        f = rng.choice(probes)
        if w > 8 and not heavy and f is not None and top - 1 <= f <= top:
            f = rng.choice([top + 1, top + 2, 3])       # 65534 / 65535 repetitions: thorough tier only
        nm = rng.randint(1, 2)
        members = [self.plain(rng, 'nnc') for _ in range(nm)]
        ids = [100000 + nm * 1000, fid] + [m[0] for m in members]
        cols = [Col('n', w, s, r, role='factor')]
        gens = [lambda g: f]
        reps = f if (f is not None and f > 0) else 0
        if reps > 600 and not heavy:
            # quick tier: a 16-bit factor beyond its field is refused when the factor is written; the members' values of
            # all 65 536+ repetitions are supplied in the thorough tier only (8-bit factors always get all of them)
            reps = 3
        for _ in range(reps):
            for e, col, gen in members:
                cols.append(col)
                gens.append(gen)
        if rng.random() < 0.4:
            e, col, gen = self.plain(rng)
            ids.append(e), cols.append(col), gens.append(gen)
        fixed = {0}
        if layout == 'c-factor-differs':
            layout, fixed = 'c-mixed', set()
            gens[0] = lambda g: g.randint(0, 3)
        c = self.assemble(rng, ids, cols, gens, 0, f, layout, 'factor', 'factor', fixed=fixed)
        if not fixed:
            # rows of different factors need different numbers of values
            for row in c.inputs:
                k = row[0] if isinstance(row[0], int) and row[0] > 0 else 0
                tail = row[1 + reps * nm:]
                row[1:] = [gen(rng) for _ in range(k) for (_, _, gen) in members] + tail
            n0 = len(c.inputs[0])
            if any(len(rw) != n0 for rw in c.inputs):
                # the oracle looks at aligned columns only: keep the factor and drop the alignment claim
                c.cols = [c.cols[0]]
                c.gridm = [[True] for _ in c.inputs]
        return c

    # -- bit-map bits ------------------------------------------------------------------------------
    def bitmap_case(self, rng, layout):
        k = rng.randint(1, 4)
        ids, cols, gens = [], [], []
        for _ in range(k):
            e, col, gen = self.plain(rng, 'nnc')
            ids.append(e), cols.append(col), gens.append(gen)
        bits = [rng.randint(0, 1) for _ in range(k)]
        p_bit = rng.randrange(k)
        probe = rng.choice([0, 1, 2, 2, 3, -1, None, 256, 257, 255])
        bits[p_bit] = probe
        zeros = sum(1 for x in bits if x == 0)
        reuse = rng.random() < 0.3
        ids += [222000] + ([236000] if reuse else []) + [101000 + k, 31031]
        cols.append(Col('k', role='operator-222000'))
        gens.append(lambda g: 0)
        if reuse:
            cols.append(Col('k', role='operator-236000'))
            gens.append(lambda g: 0)
        fixed = set()
        p = None
        for j, bv in enumerate(bits):
            if j == p_bit:
                p = len(cols)
            fixed.add(len(cols))
            cols.append(Col('c', 1, role='bitmap'))
            gens.append(lambda g, bv=bv: bv)
        if zeros:
            ids += [101000 + zeros, 33007]
            for _ in range(zeros):
                cols.append(Col('c', 7, role='codeflag'))
                gens.append(lambda g: g.randint(0, 100))
        return self.assemble(rng, ids, cols, gens, p, probe, layout, 'bitmap', 'bitmap', fixed=fixed)

    # -- 205YYY ------------------------------------------------------------------------------------
    def str205_case(self, rng, layout):
        n = rng.choice([1, 2, 3, 8, 16, 32, rng.randint(1, 40)])
        ids, cols, gens = [], [], []
        if rng.random() < 0.4:
            e, col, gen = self.plain(rng)
            ids.append(e), cols.append(col), gens.append(gen)
        ids.append(205000 + n)
        p = len(cols)
        cols.append(Col('s', n * 8, nbytes=n, role='string-205'))
        gens.append(lambda g: self.text(g, g.choice([n, g.randint(0, n), n + g.randint(1, 4)])))
        if rng.random() < 0.4:
            e, col, gen = self.plain(rng)
            ids.append(e), cols.append(col), gens.append(gen)
        probe = rng.choice([self.text(rng, n), self.text(rng, rng.randint(0, n)), self.text(rng, n + rng.randint(1, 4)), self.text(rng, n + 1),
                            self.text(rng, 2 * n + 1), '', None])
        return self.assemble(rng, ids, cols, gens, p, probe, layout, 'str205', 'string')

    # -- code / flag under 201 / 202 / 207 -----------------------------------------------------------
    def cfmod_case(self, rng, layout):
        b = self.b
        e = rng.choice(self.codeflag)
        w = int(b[e][4])
        op = rng.choice(['201+', '201-', '202', '207'])
        if op == '201+':
            d = rng.choice([1, 2, 8, rng.randint(1, 20)])
            ids, w2 = [201128 + d, e, 201000], w + d
        elif op == '201-':
            d = rng.randint(1, max(1, w - 1))
            ids, w2 = [201128 - d, e, 201000], max(w - d, 0)
        elif op == '202':
            d = rng.choice([1, 2, -1])
            ids, w2 = [202128 + d, e, 202000], w
        else:
            y = rng.randint(1, 3)
            ids, w2 = [207000 + y, e, 207000], w + (10 * y + 2) // 3
        top = (1 << w) - 1
        probes = uint_probes(rng, w)
        for k in pow2_exponents(rng, w, w2, extra=False):
            probes += [(1 << k) - 1, 1 << k, max((1 << k) - 2, 0)]
        # values a scale / reference applied by mistake would change: 10, 100, ...
        probes += [10, 100, 7]
        cols = [Col('c', w, role='codeflag')]
        gens = [lambda g: g.randint(0, max(top - 1, 0))]
        return self.assemble(rng, ids, cols, gens, 0, rng.choice(probes), layout, 'cfmod', 'codeflag')
