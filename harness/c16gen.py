"""
Generators of the C16 check (harness/props/c16.py).

1. The slice space.  `grid(n)`: every slice of the path language relative to a sibling list with `n` matches:
   the integer indices -(n+1) .. n+1 and all (start, stop, step) with start, stop in {none, -(n+1) .. n+1} and step in
   {none, 1, 2, -1, -2}.  A *site* is a place of a message where a slice applies: (prefix path, separator, id) with the
   largest number `n` of nodes labelled `id` in ONE sibling list reached by the prefix (the members of a sequence / of
   the template, ONE block of a replication, the attributes of a node, the factor of a delayed replication), counted on
   the implementation's node tree (`enum_sites`).  `site_queries` turns sites into queries: the grid relative to the
   site's own `n` at the step, the other steps unsliced, continued to a node that has a value.  `>` sites are derived:
   (ancestor prefix, id) with the largest `n` of any sibling list below.  The `@` selector is a site with n = number of
   subsets.  Sites with n = 0 are made from ids that occur elsewhere in the message but not in that sibling list.

2. Messages.  `grid_shapes`: templates built so that sibling lists with exactly n = 1..6 nodes of one id exist for every
   kind of sibling list (template top level, sequence members (Table D sequences with repeated members), one block of
   a fixed / delayed replication, nested blocks, repeated composite nodes, the attribute list of an element / of a
   replication factor with 0..6 quality-information values or substituted / first-order / difference / replaced
   values); values of repeated ids are imposed pairwise distinct.  `bitmap_cases`: random templates with one to four
   bitmap constructs of all operator kinds (222 / 223 / 224 / 225 / 232, 236 / 237 reuse, 237255, 235000) whose
   data-present bits are drawn PER SUBSET: equal number of zero bits in another arrangement (equal flat descriptors,
   different owners), different numbers of zero bits under a delayed count (31002) or under a fixed count smaller than
   every subset's number of zero bits (again equal flat descriptors), or equal bits.  `pool_templates`: random nested
   templates over a pool of three element ids (many repeats in every sibling list).
"""
from collections import Counter

from harness import coder_io as C
from harness import tables_io

STEPS = (None, 1, 2, -1, -2)
MAX_N = 6


def _s(x):
    return '' if x is None else str(x)


def fmt_slice(a, b, c):
    if c is None:
        return '[%s:%s]' % (_s(a), _s(b))
    return '[%s:%s:%s]' % (_s(a), _s(b), c)


def grid_ints(n):
    return ['[%d]' % k for k in range(-(n + 1), n + 2)]


def grid_triples(n):
    r = [None] + list(range(-(n + 1), n + 2))
    return [fmt_slice(a, b, c) for a in r for b in r for c in STEPS]


def grid(n):
    """the systematic slice space relative to `n` matches (n = 6: 1295 slices)"""
    return grid_ints(n) + grid_triples(n)


# ---------------------------------------------------------------------------------------------
# sites of a node tree
def label(n):
    return str(n.descriptor)


def enum_sites(top_nodes, depth):
    """-> (sites, valued); sites: {(prefix, sep, id): (n, list type, all match counts seen in one sibling list)}, valued:
    paths ending on a node with a value"""
    from pybufrkit import templatedata as T
    sites = {}
    valued = set()

    def visit(prefix, sep, sibs, lt, d):
        if d == 0 or not sibs:
            return
        for i, k in Counter(label(x) for x in sibs).items():
            s = sites.get((prefix, sep, i))
            if s is None:
                sites[(prefix, sep, i)] = (k, lt, frozenset([k]))
            else:
                sites[(prefix, sep, i)] = (k, lt, s[2] | {k}) if s[0] < k else (s[0], s[1], s[2] | {k})
        for x in sibs:
            p = prefix + sep + label(x)
            if isinstance(x, T.ValueDataNode):
                valued.add(p)
            if isinstance(x, (T.FixedReplicationNode, T.DelayedReplicationNode)):
                nm = x.descriptor.n_members
                lt2 = 'fixed-block' if isinstance(x, T.FixedReplicationNode) else 'delayed-block'
                if nm > 0:
                    for k in range(0, len(x.members), nm):
                        visit(p, '/', x.members[k:k + nm], lt2, d - 1)
                if getattr(x, 'factor', None) is not None:
                    visit(p, '.', [x.factor], 'factor', d - 1)
            elif hasattr(x, 'members'):
                visit(p, '/', x.members, 'sequence', d - 1)
            if hasattr(x, 'attributes'):
                visit(p, '.', x.attributes, 'attributes', d - 1)

    visit('', '/', top_nodes, 'top', depth)
    return sites, valued


def merge_sites(parts):
    sites = {}
    valued = set()
    for s, v in parts:
        valued |= v
        for k, x in s.items():
            if k not in sites:
                sites[k] = x
            else:
                y = sites[k]
                sites[k] = (x[0], x[1], x[2] | y[2]) if y[0] < x[0] else (y[0], y[1], x[2] | y[2])
    return sites, valued


def split_steps(p):
    """'/a.b/c' -> ['/a', '.b', '/c']"""
    out = []
    for ch in p:
        if ch in '/.>':
            out.append(ch)
        else:
            out[-1] += ch
    return out


def continuations(valued):
    """{path: sorted list of the suffixes that lead from it to a valued node (shortest first)}"""
    ext = {}
    for v in sorted(valued, key=lambda p: (len(split_steps(p)), p)):
        st = split_steps(v)
        for k in range(1, len(st)):
            q = ''.join(st[:k])
            ext.setdefault(q, []).append(''.join(st[k:]))
    return ext


def site_queries(rng, sites, valued, labels, n_sub, spec):
    """spec: full_lts (list types whose sites get the whole grid, one site (`per_cell`) per (kind, list type, n);
    `>` sites only with full_desc), max_sites / sample (the other sites: that many sites, that many triple slices
    each plus three integer indices), selectors (share of the queries that also appear under a selector),
    subset_grid (bool: the whole grid as `@` selector on `subset_bodies` bodies), zero_sites (n = 0 sites per kind).
    -> (list of (kind, selector, body), {expression: cell})"""
    ext = continuations(valued)
    out = []
    cells = {}
    seen = set()

    def add(kind, sel, body, cell):
        if (sel, body) in seen:
            return
        seen.add((sel, body))
        out.append((kind, sel, body))
        if cell:
            cells[sel + body] = cell

    def suffix(p, full):
        if p in valued and (full or rng.random() < 0.5 or p not in ext):
            return ''
        c = ext.get(p)
        if not c:
            return ''
        return c[0] if full or rng.random() < 0.5 else rng.choice(c[:12])

    # -- the sites: child / attribute sites as enumerated, `>` sites derived from them
    cand = []    # (kind, lt, n, prefix, sep, id, path of the matched node)
    dmax = {}
    for (prefix, sep, i), (n, lt, cs) in sorted(sites.items()):
        cand.append((sep, lt, n, prefix, sep, i, prefix + sep + i, cs))
        st = split_steps(prefix)
        for k in range(len(st) + 1):
            q = ''.join(st[:k])
            y = dmax.get((q, i))
            if y is None:
                dmax[(q, i)] = (n, lt, prefix + sep + i, cs)
            else:
                dmax[(q, i)] = (n, lt, prefix + sep + i, cs | y[3]) if y[0] < n else (y[0], y[1], y[2], cs | y[3])
    for (q, i), (n, lt, p, cs) in sorted(dmax.items()):
        cand.append(('>', lt, n, q, '>', i, p, cs))
    # n = 0: an id of the message that does not occur in the sibling lists reached by the prefix
    zero = []
    labs = sorted(labels)
    prefixes = sorted(set(pre for (pre, sep, _) in sites))
    for sep in ('/', '.'):
        ps = sorted(set(pre for (pre, s, _) in sites if s == sep))
        rng.shuffle(ps)
        for pre in ps[:spec.get('zero_sites', 1)]:
            absent = [l for l in labs if (pre, sep, l) not in sites]
            if absent:
                zero.append((sep, 'absent', 0, pre, sep, rng.choice(absent), None, frozenset([0])))
    rng.shuffle(prefixes)
    for pre in prefixes[:spec.get('zero_sites', 1)]:
        absent = [l for l in labs if (pre, l) not in dmax]
        if absent:
            zero.append(('>', 'absent', 0, pre, '>', rng.choice(absent), None, frozenset([0])))

    def emit(site, slices, full):
        kind, lt, n, prefix, sep, i, p, cs = site
        cell = '%s|%s|%d|%s' % (kind, lt, n, ','.join(str(c) for c in sorted(cs) if c <= n))
        qk = 'ca' if sep != '>' else 'desc'
        for sl in slices:
            sfx = suffix(p, full) if p is not None else ''
            body = prefix + sep + i + sl + sfx
            add(qk, '', body, cell + ('|full' if full else ''))
            if spec.get('selectors') and rng.random() < spec['selectors']:
                if rng.random() < 0.6:
                    add(qk, '@[%d]' % rng.randrange(max(n_sub, 1)), body, None)
                else:
                    add(qk, '@' + rng.choice(grid_triples(min(n_sub, MAX_N))), body, None)

    # whole grids: one site per (kind, list type, n) for the list types named by the spec
    full_lts = set(spec.get('full_lts') or ())
    whole = set()
    if full_lts:
        by_cell = {}
        for s in cand:
            if s[2] <= MAX_N and s[1] in full_lts and (s[0] != '>' or spec.get('full_desc')):
                by_cell.setdefault((s[0], s[1], s[2]), []).append(s)
        for key in sorted(by_cell):
            ss = by_cell[key]
            rng.shuffle(ss)
            for s in ss[:spec.get('per_cell', 1)]:
                whole.add(s)
                emit(s, [''] + grid(s[2]), True)
        for s in zero:
            if s[0] != '>' or spec.get('full_desc'):
                whole.add(s)
                emit(s, [''] + grid(0), True)
    # a sample of the grid at other sites: sites with many matches first, one per (kind, list type, n), then any
    cand = [s for s in cand if s not in whole]
    rng.shuffle(cand)
    cand.sort(key=lambda s: -min(s[2], MAX_N + 1))
    chosen, got = [], set()
    for s in cand:
        key = (s[0], s[1], min(s[2], MAX_N + 1))
        if key not in got:
            got.add(key)
            chosen.append(s)
    cs = set(chosen)
    rest = [s for s in cand if s not in cs]
    rng.shuffle(rest)
    chosen = (chosen + rest)[:spec.get('max_sites', 6)]
    for s in chosen + [z for z in zero if z not in whole][:2]:
        n = s[2]
        tr = grid_triples(min(n, MAX_N)) if n <= MAX_N else grid_triples(MAX_N) + [
            fmt_slice(a, b, c) for a in (None, -n, -n + 1, n - 1, n) for b in (None, -n, -1, 1, n - 1, n) for c in STEPS]
        k = spec.get('sample', 8)
        sl = rng.sample(tr, min(k, len(tr)))
        ints = grid_ints(min(n, MAX_N))
        sl += rng.sample(ints, min(3, len(ints)))
        emit(s, sl, False)

    # -- the subset selector as a site with n = number of subsets
    if spec.get('subset_grid'):
        bodies = []
        vs = sorted(valued)
        if vs:
            bodies.append(('ca', rng.choice(vs)))
            attr = [v for v in vs if '.' in v]
            if attr:
                bodies.append(('ca', rng.choice(attr)))
        if labs:
            bodies.append(('bare', rng.choice(labs)))
        for qk, body in bodies[:spec.get('subset_bodies', 2)]:
            add(qk, '', body, None)
            for sl in grid(min(n_sub, MAX_N)):
                add(qk, '@' + sl, body, '@|subsets|%d|%d|full' % (n_sub, n_sub))
    return out, cells


# ---------------------------------------------------------------------------------------------
# messages
def elem_pool(b):
    """numeric / code elements wide enough for many distinct values, outside classes 31 and 33"""
    return sorted(i for i, v in b.items()
                  if tables_io.unit_kind(v[1]) in ('n', 'c') and i // 1000 not in (31, 33) and 7 <= int(v[4]) <= 16
                  and i // 100000 == 0 and i not in (8023, 8024))


def distinct_values(b, eid, rng, count=160):
    """pairwise distinct legal values (as long as the width allows) of element `eid`, model JSON"""
    v = b[eid]
    kind, scale, ref, nbits = tables_io.unit_kind(v[1]), int(v[2]), int(v[3]), int(v[4])
    top = 2 ** nbits - 2
    raws = list(range(0, top + 1))
    if len(raws) > count:
        raws = rng.sample(raws, count)
    else:
        rng.shuffle(raws)
    while len(raws) < count:
        raws = raws + raws
    raws = raws[:count]
    if kind == 'c':
        return raws
    if scale == 0:
        return [r + ref for r in raws]
    return [{'m': r + ref, 's': scale} for r in raws]


def _expand_len(b, d, sid, depth=0):
    """number of descriptors of the expansion of a Table D sequence made of elements, sequences and fixed
    replications only (None otherwise)"""
    if depth > 8 or sid not in d:
        return None
    n = 0
    for m in d[sid][1]:
        m = int(m)
        f = m // 100000
        if f == 3:
            k = _expand_len(b, d, m, depth + 1)
            if k is None:
                return None
            n += k
        elif f == 2:
            return None
        elif f == 1:
            if m % 1000 == 0 or m % 1000 > 4:
                return None
            n += 1
        else:
            if m not in b:
                return None
            n += 1
    return n


def repeat_sequences(b, d):
    """{k: Table D sequence (smallest expansion) in which one id occurs exactly k times among the direct members and
    no id more often}, k = 2..6"""
    best = {}
    for sid in sorted(d):
        ms = [int(m) for m in d[sid][1]]
        if not ms or any(m // 100000 not in (0, 3) for m in ms):
            continue
        k = max(Counter(ms).values())
        if k < 2 or k > MAX_N:
            continue
        n = _expand_len(b, d, sid)
        if n is None or n > 40:
            continue
        if k not in best or best[k][0] > n:
            best[k] = (n, sid)
    return {k: v[1] for k, v in best.items()}


class Msg(object):
    """a message to build: ids, forced values per subset ({id: [values]} consumed in order), subsets, storage"""
    __slots__ = ('ids', 'forced', 'n', 'comp', 'tag', 'vals', 'b')

    def __init__(self, ids, forced, n, comp, tag):
        self.ids, self.forced, self.n, self.comp, self.tag = ids, forced, n, comp, tag
        self.vals = None
        self.b = None


def force_list(per_subset, comp):
    """[{id: [values of subset s]}] -> the `force` argument of gen-data: consumed in order over the subsets
    (compressed data: structure and imposed values of subset 0 only)"""
    acc = {}
    for s, f in enumerate(per_subset):
        if comp and s > 0:
            break
        for k, v in f.items():
            acc.setdefault(k, []).extend(v)
    return [[k, v] for k, v in sorted(acc.items())]


def qa_blocks(rng, kind, n_elems, n_blocks, n_sub, q33=33007, perm_per_subset=True):
    """`n_blocks` bitmap blocks of operator `kind` over the last `n_elems` elements such that, in every subset, the
    elements get 0, 1, .., n_blocks attributes (element j is present in block i iff count_j >= i; the counts are a
    permutation drawn per subset, so the number of zero bits of block i is the same in every subset)
    -> (ids, [bits of subset s in order])"""
    ids = []
    counts = []
    base = [(j * n_blocks + (n_elems - 1) // 2) // max(n_elems - 1, 1) for j in range(n_elems)]
    for s in range(n_sub):
        c = list(base)
        if perm_per_subset or s == 0:
            rng.shuffle(c)
        else:
            c = list(counts[0])
        counts.append(c)
    bits = [[] for _ in range(n_sub)]
    for i in range(1, n_blocks + 1):
        z = sum(1 for c in base if c >= i)
        ids += [kind * 1000, 101000 + n_elems, 31031]
        if kind == 224:
            ids.append(8023)
        elif kind == 225:
            ids.append(8024)
        if z:
            ids += [101000 + z, q33 if kind == 222 else kind * 1000 + 255]
        for s in range(n_sub):
            bits[s] += [0 if c >= i else 1 for c in counts[s]]
    return ids, bits


def grid_shapes(rng, b, d):
    """-> list of (ids, forced per subset (function of n_sub), tag)"""
    pool = rng.sample(elem_pool(b), 8)
    vals = {i: distinct_values(b, i, rng) for i in pool}
    v33 = distinct_values(b, 33007, rng)

    def forced_vals(n_sub, extra=None):
        # the distinct values are dealt out subset by subset
        out = []
        for s in range(n_sub):
            f = {i: v[s * 40:(s + 1) * 40] for i, v in vals.items()}
            f[33007] = v33[s * 40:(s + 1) * 40]
            if extra:
                f.update(extra(s))
            out.append(f)
        return out

    def mult(kmax=MAX_N):
        m = [pool[k] for k in range(kmax) for _ in range(k + 1)]
        rng.shuffle(m)
        return m

    shapes = []
    shapes.append((mult(), forced_vals, 'grid:top'))
    m = mult()
    shapes.append(([pool[6], 100000 + len(m) * 1000 + 2] + m + [pool[7]], forced_vals, 'grid:fixed-block'))
    m = mult()
    shapes.append(([pool[6], 100000 + len(m) * 1000, 31001] + m + [pool[0]],
                   lambda n: forced_vals(n, lambda s: {31001: [[2], [1], [0], [3], [2], [1]][s % 6]}), 'grid:delayed-block'))
    # nested blocks: a delayed replication inside a fixed one, both with repeats
    inner = mult(4)
    body = [pool[4], pool[5], pool[4], 100000 + len(inner) * 1000, 31001] + inner + [pool[4], pool[5], pool[4], pool[4]]
    shapes.append(([100000 + len(body) * 1000 + 2] + body,
                   lambda n: forced_vals(n, lambda s: {31001: [[1, 2], [2, 0], [3, 1], [0, 0]][s % 4]}), 'grid:nested-blocks'))
    # Table D sequences with 2..6 equal direct members, at top level and inside a replication
    seqs = repeat_sequences(b, d)
    for k in sorted(seqs):
        shapes.append(([seqs[k], pool[0]] if k % 2 else [101002, seqs[k]], forced_vals, 'grid:sequence'))
    # repeated composite nodes at one level
    groups = [[101002, pool[0]]] * 6 + [[101000, 31001, pool[1]]] * 5 + [[301011]] * 4 + [[102002, pool[0], pool[1]]] * 3 + \
             [[103000, 31000, pool[2], pool[0], pool[2]]] * 2
    groups = list(groups)
    rng.shuffle(groups)
    shapes.append(([i for g in groups for i in g],
                   lambda n: forced_vals(n, lambda s: {31001: [[1, 2, 0, 3, 1], [2, 2, 1, 0, 3], [0, 1, 1, 2, 2]][s % 3],
                                                       31000: [[1, 0], [1, 1], [0, 1]][s % 3]}), 'grid:composites'))
    # attribute lists with 0..6 values of one id: quality information, substituted / first-order / difference / replaced values
    for kind in (222, 223, 224, 225, 232):
        elems = rng.sample(pool, 7)
        shapes.append((('attrs', kind, elems), None, 'grid:attributes-%d' % kind))
    # attributes on a replication factor
    shapes.append((('factor-attrs', 222, [pool[0], pool[1], pool[2]]), None, 'grid:factor-attributes'))
    return shapes


def build_grid_shape(rng, b, shape, n_sub):
    """-> (ids, forced per subset) of one entry of `grid_shapes` for `n_sub` subsets"""
    ids, forced, tag = shape
    if forced is not None:
        return list(ids), forced(n_sub)
    what, kind, elems = ids
    per = []
    if what == 'attrs':
        blocks, bits = qa_blocks(rng, kind, len(elems), MAX_N, n_sub)
        # two blocks of another class-33 id in between (other labels between the matches)
        if kind == 222:
            extra, ebits = qa_blocks(rng, 222, len(elems), 2, n_sub, q33=33002)
            cut = blocks.index(222000, len(blocks) // 2)
            cb = sum(1 for i in blocks[:cut] if i == 31031) * len(elems)
            blocks = blocks[:cut] + extra + blocks[cut:]
            bits = [x[:cb] + e + x[cb:] for x, e in zip(bits, ebits)]
        tids = list(elems) + blocks
    else:
        tids = [elems[0], 102000, 31001, elems[1], elems[2]]
        n_el = 4      # elems[0], the factor, one repetition of the two members
        blocks, bits = qa_blocks(rng, kind, n_el, MAX_N, n_sub)
        tids = tids + blocks
    for s in range(n_sub):
        f = {i: distinct_values(b, i, rng, 12) for i in sorted(set(elems))}
        f[31031] = bits[s]
        f[33007] = distinct_values(b, 33007, rng, 40)
        if what != 'attrs':
            f[31001] = [1]
        per.append(f)
    return tids, per


# -- random templates over a small pool -----------------------------------------------------------------
def pool_items(rng, pool, seqs, depth, n):
    out = []
    for _ in range(n):
        r = rng.random()
        if depth < 2 and r < 0.14:
            m = pool_items(rng, pool, seqs, depth + 1, rng.randint(1, 5))
            if len(m) <= 60:
                out += [100000 + len(m) * 1000 + rng.randint(1, 3)] + m
                continue
        elif depth < 2 and r < 0.30:
            m = pool_items(rng, pool, seqs, depth + 1, rng.randint(1, 5))
            if len(m) <= 60:
                out += [100000 + len(m) * 1000, rng.choice([31001, 31001, 31000])] + m
                continue
        elif r < 0.36 and seqs:
            out.append(rng.choice(seqs))
            continue
        out.append(rng.choice(pool))
    return out


def pool_template(rng, b, seqs):
    pool = rng.sample(elem_pool(b), 3)
    ids = pool_items(rng, pool, seqs, 0, rng.randint(3, 10))
    return ids, pool


# -- bitmap constructs with bits drawn per subset ---------------------------------------------------------
def bitmap_case(rng, b, class33, n_sub, seqs):
    """-> (ids, forced per subset, tag)"""
    allp = elem_pool(b)
    pool = rng.sample(allp, rng.choice([1, 1, 1, 2, 2, 3]))
    k = rng.randint(2, 6)
    back = [rng.choice(pool) for _ in range(k)]
    prefix = []
    r = rng.random()
    if r < 0.2:
        prefix = [rng.choice(allp)]
    elif r < 0.32:
        prefix = [101000, 31001, rng.choice(pool)]
    elif r < 0.45:
        prefix = pool_items(rng, pool, seqs, 1, rng.randint(1, 3))
    elif r < 0.55:
        # an associated field on the elements the bitmap refers to (closed before the operator)
        back = [204000 + rng.randint(1, 8), 31021] + back + [204000]
    ids = prefix + back
    bits = [[] for _ in range(n_sub)]      # 031031 values per subset
    cnts = [[] for _ in range(n_sub)]      # 031002 values per subset
    defined = None                         # zero bits per subset of the bitmap defined for re-use (236000) and in force
    nbits = k if rng.random() < 0.5 else rng.randint(min(2, k), k) if rng.random() < 0.9 else 1  # one length between two 235000
    tags = set()
    for _ in range(rng.choice([1, 1, 1, 2, 2, 2, 3, 3, 4])):
        kind = rng.choice([222, 222, 223, 224, 225, 232])
        ids.append(kind * 1000)
        if defined is not None and rng.random() < 0.4:
            ids.append(237000)
            zs = defined
            tags.add('237')
        else:
            define = rng.random() < 0.3
            if define:
                ids.append(236000)
            mode = rng.choice(['perm', 'perm', 'perm', 'perm', 'perm', 'same', 'vary'])
            z = rng.randint(1, max(1, nbits - 1)) if rng.random() < 0.85 else rng.choice([0, nbits])
            cur = []
            for s in range(n_sub):
                if mode == 'vary':
                    zz = rng.randint(0, nbits)
                    x = [0] * zz + [1] * (nbits - zz)
                    rng.shuffle(x)
                elif s > 0 and (mode == 'same' or rng.random() < 0.25):
                    x = list(cur[rng.randrange(len(cur))])
                else:
                    x = [0] * z + [1] * (nbits - z)
                    rng.shuffle(x)
                cur.append(x)
            tags.add(mode)
            if rng.random() < 0.4:
                ids += [101000, 31002, 31031]
                for s in range(n_sub):
                    cnts[s].append(nbits)
            else:
                ids += [101000 + nbits, 31031]
            for s in range(n_sub):
                bits[s] += cur[s]
            zs = [x.count(0) for x in cur]
            defined = zs if define else None
        if kind == 222 and rng.random() < 0.3:
            ids += [1031, 1032]
        if kind == 224:
            ids.append(8023)
        elif kind == 225:
            ids.append(8024)
        x = rng.choice(class33) if kind == 222 else kind * 1000 + 255
        r = rng.random()
        if r < 0.35 or len(set(zs)) > 1 and r < 0.7:
            # a delayed count: as many values as zero bits in that subset (sometimes fewer)
            ids += [101000, 31002, x]
            fewer = rng.random() < 0.15
            for s in range(n_sub):
                cnts[s].append(max(0, zs[s] - 1) if fewer else zs[s])
            tags.add('delayed-count')
        else:
            c = min(zs) if rng.random() < 0.8 else rng.randint(0, min(zs))
            if c:
                ids += [101000 + c, x]
            if len(set(zs)) > 1:
                tags.add('fixed-count-under-varying-bits')
        r = rng.random()
        if r < 0.15 and defined is not None:
            ids.append(237255)
            defined = None
        elif r < 0.27:
            ids.append(235000)
            defined = None
            k = rng.randint(2, 6)
            ids += [rng.choice(pool) for _ in range(k)]
            nbits = k if rng.random() < 0.5 else rng.randint(2, k)
            tags.add('235')
    if rng.random() < 0.3:
        ids.append(rng.choice(pool))
    per = []
    c31 = [rng.randint(0, 3) for _ in range(4)]
    for s in range(n_sub):
        # replication counts of the prefix: mostly the same in all subsets
        f = {31031: bits[s], 31002: cnts[s], 31001: c31 if rng.random() < 0.75 else [rng.randint(0, 3) for _ in range(4)]}
        for i in sorted(set(pool)):
            f[i] = distinct_values(b, i, rng, 24)
        per.append(f)
    return ids, per, 'bitmap:' + '+'.join(sorted(tags))


def build_all(drv, treq, msgs, rng):
    """fills .vals / .b of the messages (model generate mode, implementation encoder); returns those built"""
    from harness import coderprops as P
    reqs = [treq]
    for m in msgs:
        reqs.append({'op': 'gen-data', 'ids': m.ids, 'n': m.n, 'shared': m.comp, 'rnd': C.rnd_bits(rng, 8000),
                     'force': force_list(m.forced, m.comp)})
    res = drv.batch(reqs)[1:]
    out = []
    for m, r in zip(msgs, res):
        if 'err' in r:
            m.vals = 'gen:' + r['err']
            continue
        m.vals = r['vals']
        st, bts, _ = C.impl_encode(C.make_message_json(m.ids, P.py_inputs(m.vals), m.comp))
        if st != 'ok':
            m.vals = 'encode:' + st
            continue
        m.b = bts
        out.append(m)
    return out
