"""
Compressed messages in which a STRUCTURAL value - a delayed replication factor (031000 / 031001 / 031002) or a bitmap bit
(031031), at top level, inside a fixed or delayed replication, behind other columns - is missing or different in ONE
subset other than the first / in the FIRST subset only / (missing) in ALL subsets.  Finding F24.

pybufrkit's Encoder does not write such columns (after the repair of F24 it refuses them; before, it wrote some), so the
messages are assembled bit-level: the template is generated from a small grammar together with value lists that share
the structure, pybufrkit's Encoder writes the well-formed compressed message, the data section is parsed column by column
(minimum, 6-bit increment width, increments; widths from the decoded descriptor objects), and the ONE column of the chosen
structural value is replaced by a hand-made column; everything before and after stays as the encoder wrote it.

Used by the C05 check (transparency: whatever a compressed message decodes to, the same values uncompressed decode to the
same result) and the C09 check (all four renderings of whatever decodes).
"""
from harness import coder_io as C
from harness import objs

KINDS = ('missing-later', 'missing-later', 'missing-first', 'missing-all', 'differ-later', 'differ-later', 'differ-first')
FACTORS = {31000: 1, 31001: 8, 31002: 16}
# elements with scale 0 and reference 0 (so that the decoded value is the packed integer) and two code tables
PLAIN = {1001: 7, 1002: 10, 5041: 8, 4001: 12, 2001: 2, 1003: 3}
Q33 = 33007      # % confidence, 7 bits


def u(v, n):
    return '{:0{}b}'.format(v, n) if n else ''


def column(nbits, values, width=None):
    """one compressed integer column holding `values` (None = missing); `width`: increment width (None: smallest)"""
    present = [v for v in values if v is not None]
    if not present:
        if width:
            # minimum 0 with all-ones increments: every entry missing
            return u(0, nbits) + u(width, 6) + ('1' * width) * len(values)
        return '1' * nbits + u(0, 6)
    mn = min(present)
    if all(v == mn for v in values) and not width:
        return u(mn, nbits) + u(0, 6)
    span = max(present) - mn
    w = max(1, (span + 1).bit_length())            # the all-ones increment is kept for "missing"
    if width and width > w:
        w = width
    return u(mn, nbits) + u(w, 6) + ''.join('1' * w if v is None else u(v - mn, w) for v in values)


# ---------------------------------------------------------------------------------------------------------------
# template grammar:  ('e', id) | ('fix', count, [nodes]) | ('del', factor id, count, [nodes]) | ('bitmap', nback, bits, form)
def ids_of(nodes):
    out = []
    for nd in nodes:
        if nd[0] == 'e':
            out.append(nd[1])
        elif nd[0] == 'fix':
            body = ids_of(nd[2])
            out.append(100000 + len(top_level(nd[2])) * 1000 + nd[1])
            out.extend(body)
        elif nd[0] == 'del':
            body = ids_of(nd[3])
            out.append(100000 + len(top_level(nd[3])) * 1000)
            out.append(nd[1])
            out.extend(body)
        elif nd[0] == 'raw':
            out.extend(nd[1])
    return out


def top_level(nodes):
    """the ids a replication operator in front of `nodes` has to count: every id of the body, the factors of nested
    delayed replications included (only the operator's own factor is not counted)"""
    return ids_of(nodes)


class Gen(object):
    def __init__(self, rng):
        self.rng = rng

    def elem(self):
        return ('e', self.rng.choice(sorted(PLAIN)))

    def elems(self, lo, hi):
        return [self.elem() for _ in range(self.rng.randint(lo, hi))]

    def delayed(self, depth=0):
        rng = self.rng
        fid = rng.choice([31001, 31001, 31002, 31000])
        count = rng.randint(0, 1) if fid == 31000 else rng.choice([0, 1, 1, 2, 2, 3])
        body = self.elems(1, 2)
        if depth < 2 and rng.random() < 0.35:
            body.insert(rng.randint(0, len(body)), self.delayed(depth + 1) if rng.random() < 0.6 else self.fixed(depth + 1))
        return ('del', fid, count, body)

    def fixed(self, depth=0):
        rng = self.rng
        body = self.elems(1, 2)
        if depth < 2 and rng.random() < 0.6:
            body.insert(rng.randint(0, len(body)), self.delayed(depth + 1))
        return ('fix', rng.randint(1, 3), body)

    def bitmap(self, n_back):
        """222000 [236000] <031031 run> then class 33 values for the zero bits; the run is a fixed replication, a delayed
        one (031001 / 031002 factor: a second structural value) or unrolled"""
        rng = self.rng
        n = rng.randint(1, min(4, n_back))
        bits = [rng.randint(0, 1) for _ in range(n)]
        if 0 not in bits:
            bits[rng.randrange(n)] = 0
        zeros = bits.count(0)
        form = rng.choice(['fix', 'del', 'unrolled'])
        nodes = [('raw', [222000], [222000])]
        if rng.random() < 0.5:
            nodes.append(('raw', [236000], [236000]))
        if form == 'fix':
            nodes.append(('raw', [101000 + n, 31031], [0, 31031]))
        elif form == 'del':
            nodes.append(('del', rng.choice([31001, 31002]), n, [('e', 31031)]))
        else:
            nodes.extend(('e', 31031) for _ in range(n))
        tail = rng.choice(['fix', 'del', 'unrolled'])
        if tail == 'fix':
            nodes.append(('raw', [101000 + zeros, Q33], [0, Q33]))
        elif tail == 'del':
            nodes.append(('del', 31001, zeros, [('e', Q33)]))
        else:
            nodes.extend(('e', Q33) for _ in range(zeros))
        return nodes, bits

    def template(self):
        """-> (nodes, bitmap bits or None)"""
        rng = self.rng
        r = rng.random()
        nodes = self.elems(0, 2)
        bits = None
        if r < 0.55:
            nodes.append(self.delayed())
            nodes.extend(self.elems(0, 2))
            if rng.random() < 0.3:
                nodes.append(self.delayed() if rng.random() < 0.5 else self.fixed())
        elif r < 0.7:
            nodes.append(self.fixed(0))
            nodes.extend(self.elems(0, 1))
            if not any(nd[0] == 'del' for nd in walk_nodes(nodes)):
                nodes.append(self.delayed())
        else:
            nodes.extend(self.elems(2, 4))
            if rng.random() < 0.4:
                nodes.append(self.delayed(2))
            n_back = len(flat_elements(nodes))
            bm, bits = self.bitmap(n_back)
            nodes.extend(bm)
        return nodes, bits

    # values ---------------------------------------------------------------------------------------------------
    def value(self, eid):
        nbits = PLAIN.get(eid, 7)
        if self.rng.random() < 0.08:
            return None
        return self.rng.randint(0, max(0, 2 ** nbits - 2))

    def values(self, nodes, bits_iter):
        out = []
        for nd in nodes:
            if nd[0] == 'e':
                if nd[1] == 31031:
                    out.append(next(bits_iter))
                else:
                    out.append(self.value(nd[1]))
            elif nd[0] == 'fix':
                for _ in range(nd[1]):
                    out.extend(self.values(nd[2], bits_iter))
            elif nd[0] == 'del':
                out.append(nd[2])
                for _ in range(nd[2]):
                    out.extend(self.values(nd[3], bits_iter))
            elif nd[0] == 'raw':
                ids = nd[1]
                if ids[0] in (222000, 236000):
                    out.append(0)
                elif ids[0] // 1000 == 101:
                    for _ in range(ids[0] % 1000):
                        out.append(next(bits_iter) if ids[1] == 31031 else self.value(ids[1]))
        return out


def walk_nodes(nodes):
    for nd in nodes:
        yield nd
        if nd[0] == 'fix':
            for x in walk_nodes(nd[2]):
                yield x
        elif nd[0] == 'del':
            for x in walk_nodes(nd[3]):
                yield x


def flat_elements(nodes):
    """ids of the element descriptors the walk records before a bitmap (replications unrolled with their counts)"""
    out = []
    for nd in nodes:
        if nd[0] == 'e':
            out.append(nd[1])
        elif nd[0] == 'fix':
            out.extend(flat_elements(nd[2]) * nd[1])
        elif nd[0] == 'del':
            out.append(nd[1])
            out.extend(flat_elements(nd[3]) * nd[2])
    return out


# ---------------------------------------------------------------------------------------------------------------
def layout_of(b):
    """decode the well-formed message -> [(label, nbits or None, is_string)] per recorded value, values of all subsets"""
    msg = objs.decoder().process(b, wire_template_data=False)
    td = msg.template_data.value
    lay = []
    for d in td.decoded_descriptors_all_subsets[0]:
        nbits = getattr(d, 'nbits', None)
        unit = getattr(d, 'unit', '')
        if type(d).__name__ == 'OperatorDescriptor':
            nbits = None
        lay.append((str(d), nbits, unit == 'CCITT IA5'))
    return lay, [list(v) for v in td.decoded_values_all_subsets]


def parse_columns(bits, lay, n):
    """-> [(start, end) or None per recorded value]; None when the bit string does not parse to its end"""
    pos = 0
    spans = []
    for _, nbits, is_string in lay:
        if nbits is None:
            spans.append(None)
            continue
        start = pos
        pos += nbits
        if pos + 6 > len(bits):
            return None
        w = int(bits[pos:pos + 6], 2)
        pos += 6 + n * w * (8 if is_string else 1)
        spans.append((start, pos))
    if pos > len(bits) or len(bits) - pos >= 16 or set(bits[pos:]) - {'0'}:
        return None
    return spans


def mutate(rng, nbits, base, n, kind):
    """-> (intended column values, bits of the column) or None when the kind does not exist for this field"""
    k_later = rng.randrange(1, n)
    width = rng.choice([None, None, 1, 2, 3])
    vals = [base] * n
    if kind.startswith('missing'):
        if kind == 'missing-later':
            vals[k_later] = None
        elif kind == 'missing-first':
            vals[0] = None
        else:
            vals = [None] * n
            if nbits == 1 and not width:
                width = 1           # a one-bit field has no all-ones missing value: only the increments can say "missing"
        return vals, column(nbits, vals, width)
    other = [v for v in (base + 1, base - 1, base + 2, 0) if 0 <= v <= 2 ** nbits - (1 if nbits == 1 else 2) and v != base]
    if not other:
        return None
    vals[k_later if kind == 'differ-later' else 0] = rng.choice(other[:2])
    return vals, column(nbits, vals, width if width and width > 1 else None)


def is_structural(label):
    return label in ('031000', '031001', '031002', '031031')


def make_cases(rng, count, encode=None):
    """-> list of dicts {ids, n, bytes (mutated message), base_bytes, kind, column ('factor' | 'bitmap'), label, position,
    intended (the column's values), depth_note}.  `encode(js)` -> ('ok', bytes, _) defaults to the implementation's."""
    encode = encode or C.impl_encode
    g = Gen(rng)
    out = []
    tries = 0
    while len(out) < count and tries < count * 6:
        tries += 1
        nodes, bits = g.template()
        ids = ids_of(nodes)
        n = rng.randint(2, 5)
        structure_seed = rng.random()
        valss = []
        # the structural values are part of the node list, the other values are drawn per subset
        for _ in range(n):
            valss.append(g.values(nodes, iter(bits or [])))
        st, b, _ = encode(C.make_message_json(ids, valss, True))
        if st != 'ok':
            continue
        try:
            lay, dvals = layout_of(b)
        except Exception:     # noqa
            continue
        data = C.data_bits(b)
        spans = parse_columns(data, lay, n)
        if spans is None:
            continue
        cands = [p for p, (lab, nb, _) in enumerate(lay) if is_structural(lab) and spans[p] is not None and
                 all(v[p] == dvals[0][p] and v[p] is not None for v in dvals)]
        if not cands:
            continue
        # one message per (template, kind): several kinds and positions from the same well-formed message
        for kind in rng.sample(KINDS, 3):
            bm = [q for q in cands if lay[q][0] == '031031']
            p = rng.choice(bm) if bm and rng.random() < 0.7 else rng.choice(cands)
            lab, nb, _ = lay[p]
            m = mutate(rng, nb, dvals[0][p], n, kind)
            if m is None:
                continue
            intended, col = m
            s, e = spans[p]
            newbits = data[:s] + col + data[e:]
            # strip the old padding: everything after the last column
            last = max(x[1] for x in spans if x is not None)
            newbits = newbits[:len(newbits) - (len(data) - last)]
            out.append({'ids': ids, 'n': n, 'bytes': C.replace_data(b, newbits), 'base_bytes': b, 'kind': kind,
                        'column': 'bitmap' if lab == '031031' else 'factor', 'label': lab, 'position': p,
                        'intended': intended, 'n_columns': len([x for x in spans if x]),
                        'inside_replication': p > 0 and any(is_structural(l[0]) and l[0] != '031031' for l in lay[:p])})
            if len(out) >= count:
                break
    return out
