"""
Shared by C11 / C12: generation of whole messages (through the coder pipeline), byte streams built from
them, the implementation observation of `generate_bufr_message` and the model request (`scan`).
"""
import contextlib
import itertools
import os
import signal
import threading

from harness import core, tables_io
from harness import objs
from harness import coder_io as C
from harness import coderprops as P

SIG = b'BUFR'
UNDEF_ELEM = 63255      # not in any bundled Table B
UNDEF_SEQ = 363255      # not in any bundled Table D
NEEDLES = [b'BUFR', b'7777', b'BUFR7777', b'xBUFRBUFR', b'7777BUFR', b'BUF', b'BUFBUFR']


class Msg(object):
    __slots__ = ('b', 'edition', 'comp', 'n', 'category', 'ids', 'parts', 'inner', 'sec2', 'src')

    def __init__(self, b, edition, comp, n, category, ids, parts=None, sec2=None, src='gen'):
        self.b, self.edition, self.comp, self.n, self.category, self.ids = b, edition, comp, n, category, ids
        self.parts = parts
        self.sec2 = sec2
        self.src = src
        self.inner = b.find(SIG, 1) >= 0

    def meta(self):
        return {'edition': self.edition, 'n_subsets': self.n, 'data_category': self.category,
                'is_compressed': int(self.comp)}


def bits_of(b):
    return ''.join('{:08b}'.format(x) for x in b)


def _needle_value(rng, nbytes):
    nd = rng.choice(NEEDLES)
    if len(nd) > nbytes:
        nd = nd[:nbytes]
    k = rng.randint(0, nbytes - len(nd))
    fill = bytes(rng.choice(b'ABCRFU 7') for _ in range(nbytes))
    return fill[:k] + nd + fill[k + len(nd):]


def gen_messages(drv, rng, count, level=2, max_subsets=3, needle_p=0.5, categories=(0, 1, 2, 2, 2, 7, 12, 255), tweak=None):
    """-> list of Msg (valid messages of the bundled default tables).
    About half of them start their data section with a character element whose value carries `BUFR` /
    `7777` (byte aligned, so the signature really occurs in the message bytes); some carry a section 2
    (empty, or with the signature in its local bits).  tweak(rng, json_sections, edition, sec2), when given, may
    change the encoder input in place (C11 varies the section parameters that do not influence decoding)."""
    treq = tables_io.group_request()
    tg_strings = None
    cases = P.gen_cases(rng, count, level=level, max_subsets=max_subsets)
    extra = []
    for c in cases:
        if rng.random() < needle_p:
            if tg_strings is None:
                tg_strings = [i for i in C.TemplateGen(rng, level=0).string]
            sid = rng.choice(tg_strings)
            c.parts = [[sid]] + c.parts
            extra.append(True)
        else:
            extra.append(False)
    got = P.gen_values(drv, treq, cases, rng)
    gotset = set(id(c) for c in got)
    out = []
    for c, ex in zip(cases, extra):
        if id(c) not in gotset:
            continue
        if ex:
            v0 = c.valss[0][0]
            nbytes = None
            if isinstance(v0, dict) and 'b' in v0:
                nbytes = len(v0['b']) // 2
            else:
                b_, _ = tables_io.read_group()
                nbytes = b_[c.ids[0]][4] // 8
            val = {'b': _needle_value(rng, nbytes).hex()}
            for vs in c.valss:            # the same in every subset: compressed data keep it as the base value
                vs[0] = val
        cat = rng.choice(categories)
        r = rng.random()
        sec2 = None if r < 0.6 else ('' if r < 0.8 else bits_of(_needle_value(rng, rng.choice([4, 6, 8, 12]))))
        ov = {'data_category': cat}
        if sec2:
            ov['local_bits'] = sec2
        js = C.make_message_json(c.ids, P.py_inputs(c.valss), c.comp, edition=c.edition, overrides=ov,
                                 sec2=sec2)
        if tweak is not None:
            tweak(rng, js, c.edition, sec2)
        st, b, _ = C.impl_encode(js)
        if st != 'ok':
            continue
        out.append(Msg(b, c.edition, c.comp, c.n, cat, c.ids, parts=c.parts, sec2=sec2))
    return out


# ---------------------------------------------------------------------------------------------
# separators
GTS = [b'\x01\r\r\n001\r\r\nISMD01 OKPR 010000\r\r\n', b'\r\r\n\x03', b'\x01\r\r\n123\r\r\nIUSK73 AMMC 182300 RRA\r\r\n',
       b'****0000001234****\n', b'ZCZC 123\r\r\nISAI01 EGRR 011200\r\r\n', b'\r\r\n\x03\x01\r\r\n777\r\r\nIOBX02 KWBC 010000\r\r\n']


def noise(rng, n):
    while True:
        b = bytes(rng.choice(b'BUFR7\x00\xff\x42\x55 abcdefg\r\n') if rng.random() < 0.6 else rng.randrange(256)
                  for _ in range(n))
        if SIG not in b:
            return b


def separator(rng):
    k = rng.randrange(8)
    if k == 0:
        return 'empty', b''
    if k == 1:
        return 'gts', rng.choice(GTS)
    if k == 2:
        return 'noise', noise(rng, rng.randint(1, 40))
    if k == 3:
        return 'BUF', b'BUF'
    if k == 4:
        return 'BU', b'BU'
    if k == 5:
        return 'B', b'B'
    if k == 6:
        return 'noise+BUF', noise(rng, rng.randint(0, 10)) + rng.choice([b'BUF', b'BU', b'B', b'BUFBUF', b'7777BUF'])
    return 'gts', rng.choice(GTS)


# ---------------------------------------------------------------------------------------------
# filters: (python expression, model clauses, predicate on Msg.meta())
def make_filter(rng, msgs):
    """a filter over %data_category / %n_subsets / %edition / %is_compressed whose truth over the
    messages of the stream is chosen: all / some / none"""
    ops = {'==': lambda a, b: a == b, '!=': lambda a, b: a != b, '<': lambda a, b: a < b,
           '<=': lambda a, b: a <= b, '>': lambda a, b: a > b, '>=': lambda a, b: a >= b}
    names = ['data_category', 'n_subsets', 'edition', 'is_compressed']

    def clause():
        name = rng.choice(names[:3] if rng.random() < 0.85 else names)
        op = rng.choice(sorted(ops))
        if msgs and rng.random() < 0.8:
            const = rng.choice(msgs).meta()[name]
        else:
            const = rng.choice([0, 1, 2, 3, 4, 5, 255, 300])
        return name, op, const

    cl = [clause()]
    if rng.random() < 0.3:
        cl.append(clause())
    expr = ' and '.join('${%%%s} %s %d' % c for c in cl)
    if rng.random() < 0.2:
        expr = expr.replace('${%', '${ %') + '  '
    model = [['%' + n, op, k] for n, op, k in cl]

    def pred(meta):
        return all(ops[op](meta[n], k) for n, op, k in cl)
    return expr, model, pred


# ---------------------------------------------------------------------------------------------
class Timeout(BaseException):
    """raised by the alarm of `time_limit` (a BaseException: no `except Exception` of the code under test may swallow it)"""


@contextlib.contextmanager
def time_limit(seconds):
    """the body is abandoned with Timeout after `seconds` of wall time (main thread only; no-op elsewhere or for None)"""
    if not seconds or threading.current_thread() is not threading.main_thread():
        yield
        return

    def on_alarm(signum, frame):
        raise Timeout()
    old = signal.signal(signal.SIGALRM, on_alarm)
    signal.setitimer(signal.ITIMER_REAL, seconds)
    try:
        yield
    finally:
        signal.setitimer(signal.ITIMER_REAL, 0)
        signal.signal(signal.SIGALRM, old)


def impl_scan(s, info_only=False, continue_on_error=False, filter_expr=None, ignore_expect=False, limit=None, digests=None,
              seconds=None):
    """-> ([serialized_bytes...], outcome) with outcome 'done' | 'err:...' ; never hangs (limit on the
    number of items; the caller passes one more than it expects).  digests: None or (list to fill, function of the
    message): one entry per yielded item; seconds: wall-time limit, outcome 'timeout' when it is exceeded"""
    from pybufrkit.decoder import Decoder, generate_bufr_message
    import io
    items = []
    outcome = 'done'
    err = io.StringIO()
    try:
        with contextlib.redirect_stderr(err), time_limit(seconds):
            gen = generate_bufr_message(objs.decoder(), s, info_only=info_only, continue_on_error=continue_on_error,
                                        filter_expr=filter_expr, wire_template_data=False,
                                        ignore_value_expectation=ignore_expect)
            for m in (itertools.islice(gen, limit) if limit else gen):
                items.append(m.serialized_bytes)
                if digests is not None:
                    digests[0].append(digests[1](m))
            if limit and len(items) >= limit:
                outcome = 'limit'
    except Timeout:
        outcome = 'timeout'
    except Exception as e:  # noqa
        outcome = core.err_tag(e)
        LAST_EXC.clear()
        LAST_EXC.update(exc_detail(e))
    return items, outcome


LAST_EXC = {}


def exc_detail(e):
    """class of the exception and the innermost pybufrkit frame it was raised in (structural, no messages)"""
    import traceback
    name = type(e).__name__
    if isinstance(e, RuntimeError) and isinstance(e.__cause__, StopIteration):
        e = e.__cause__             # a StopIteration that reached the generator boundary
        name = 'StopIteration'
    where = None
    names = []
    for fr in traceback.extract_tb(e.__traceback__):
        if os.sep + 'pybufrkit' + os.sep in fr.filename:
            where = '%s:%s' % (os.path.basename(fr.filename)[:-3], fr.name)
            names.append(where)
    # the layer is the OUTERMOST part of the decoder the exception passed through (not where it was raised: a bit
    # reader frame is innermost for the section layer and for the template walk alike)
    if 'decoder:process_template_data' in names:
        layer = 'template-walk'
    elif 'decoder:process_section' in names or 'decoder:process' in names or (where or '').startswith('bufr:'):
        layer = 'sections'
    elif any(n.startswith('decoder:generate_bufr_message') for n in names):
        layer = 'scan'
    else:
        layer = 'template-walk' if names else 'outside'
    return {'exc': name, 'where': where, 'layer': layer}


def scan_req(s, info_only=False, continue_on_error=False, model_filter=None, ignore_expect=False, fexpr=None):
    """model_filter: conjunction of [mdexpr, op, int] clauses; fexpr: a general filter tree (harness/filters.py)"""
    r = {'op': 'scan', 'hex': s.hex(), 'info_only': info_only, 'continue': continue_on_error,
         'ignore_expect': ignore_expect, 'filter': model_filter}
    if fexpr is not None:
        r['fexpr'] = fexpr
    return r


def model_items(s, resp):
    return [s[o:o + n] for o, n, _ in resp['items']]
