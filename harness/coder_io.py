"""
Shared machinery of the coder properties (C01-C07 and the properties built on them):

  * template generator over the bundled default tables (grammar: elements by kind, Table D
    sequences, nested fixed / delayed replication, every operator construct the model covers),
  * value generation through the MODEL's walk in generate mode (`gen-data`),
  * whole-message assembly for the implementation's Encoder and location of the data section in
    encoded bytes (from the section layouts in /repo/pybufrkit/definitions, not from the decoder),
  * conversion and comparison of values (exact decimals on the model side, IEEE doubles on the
    implementation side; DESIGN 3.4).
"""
import json
import math
import os
from fractions import Fraction

from harness import core, tables_io
from harness import objs

DEFAULT_VERSION = 33


# ---------------------------------------------------------------------------------------------
# section layouts (to build encoder input and to locate the data section)
_layouts = None


def layouts():
    global _layouts
    if _layouts is None:
        d = os.path.join(core.REPO, 'pybufrkit', 'definitions')
        out = {}
        for fn in sorted(os.listdir(d)):
            if fn.startswith('section') and fn.endswith('.json'):
                key = fn[7:-5]
                with open(os.path.join(d, fn)) as f:
                    out[key] = json.load(f)
        _layouts = out
    return _layouts


def section_layout(index, edition):
    L = layouts()
    key = '%d-%d' % (index, edition)
    if key in L:
        return L[key]
    if str(index) in L:
        return L[str(index)]
    for k, v in L.items():
        if k.startswith('%d-' % index) and v.get('default'):
            return v
    raise core.MachineryError('no layout for section %d edition %d' % (index, edition))


SECTION_DEFAULTS = {
    'start_signature': 'BUFR', 'length': 0, 'section_length': 0, 'master_table_number': 0,
    'originating_centre': 98, 'originating_subcentre': 0, 'update_sequence_number': 0,
    'flag_bits': None, 'data_category': 2, 'data_i18n_subcategory': 4, 'data_local_subcategory': 0,
    'master_table_version': DEFAULT_VERSION, 'local_table_version': 0,
    'year': 2020, 'month': 5, 'day': 6, 'hour': 7, 'minute': 8, 'second': 9,
    'reserved_bits': None, 'is_observation': True, 'stop_signature': '7777', 'local_bytes': '',
}


def make_message_json(ids, valss, compressed, edition=4, overrides=None, sec2=None, n_subsets=None):
    """Encoder input (list of per-section value lists) for the given template and values."""
    overrides = dict(overrides or {})
    out = []
    for index in range(6):
        if index == 2 and sec2 is None:
            continue
        lay = section_layout(index, edition)
        vals = []
        for p in lay['parameters']:
            name, typ, nbits = p['name'], p['type'], p['nbits']
            if name in overrides:
                v = overrides[name]
            elif name == 'edition':
                v = edition
            elif name == 'is_section2_presents':
                v = sec2 is not None
            elif name == 'n_subsets':
                v = len(valss) if n_subsets is None else n_subsets
            elif name == 'is_compressed':
                v = bool(compressed)
            elif typ == 'unexpanded_descriptors':
                v = list(ids)
            elif typ == 'template_data':
                v = valss
            elif name == 'local_bytes':
                v = sec2
            elif typ == 'bin':
                v = '0' * nbits
            elif name == 'year' and edition < 4:
                v = 20
            elif name in SECTION_DEFAULTS and SECTION_DEFAULTS[name] is not None:
                v = SECTION_DEFAULTS[name]
            elif typ == 'uint':
                v = 0
            elif typ == 'bool':
                v = False
            elif typ == 'bytes':
                v = ''
            else:
                raise core.MachineryError('no default for parameter %s' % name)
            vals.append(v)
        out.append(vals)
    return out


def locate_sections(b):
    """(offset, length) of every section present in message bytes `b` (starting with BUFR), computed
    from the layouts: {0: (0, 8), 1: (8, n), [2: ...], 3: ..., 4: ..., 5: ...}"""
    edition = b[7]
    pos = 8
    out = {0: (0, 8)}
    lay1 = section_layout(1, edition)
    off = 0
    sec2 = False
    for p in lay1['parameters']:
        if p['name'] == 'is_section2_presents':
            sec2 = bool((b[pos + off // 8] >> (7 - off % 8)) & 1)
            break
        off += p['nbits']
    for index in (1, 2, 3, 4):
        if index == 2 and not sec2:
            continue
        n = int.from_bytes(b[pos:pos + 3], 'big')
        out[index] = (pos, n)
        pos += n
    out[5] = (pos, 4)
    return out


def data_bits(b):
    """the bits of the data section after its 4-octet header, as a '0101' string"""
    secs = locate_sections(b)
    pos, n = secs[4]
    body = b[pos + 4: pos + n]
    return ''.join('{:08b}'.format(x) for x in body)


def replace_data(b, bits):
    """message `b` with the content of section 4 replaced by `bits` (zero padded as the edition
    requires), lengths recomputed"""
    edition = b[7]
    secs = locate_sections(b)
    pos, n = secs[4]
    nb = (len(bits) + 7) // 8
    body = int(bits + '0' * (nb * 8 - len(bits)), 2).to_bytes(nb, 'big') if nb else b''
    seclen = 4 + nb
    if edition <= 3 and seclen % 2:
        body += b'\0'
        seclen += 1
    new = b[:pos] + seclen.to_bytes(3, 'big') + b'\0' + body + b'7777'
    total = len(new)
    return new[:4] + total.to_bytes(3, 'big') + new[7:]


# ---------------------------------------------------------------------------------------------
# values
def to_py(v):
    """model value (JSON) -> the Python value the implementation holds / accepts"""
    if v is None:
        return None
    if isinstance(v, int):
        return v
    if 'b' in v:
        return bytes.fromhex(v['b'])
    return v['m'] / (1.0 * 10 ** v['s'])


def to_py_input(v):
    """as `to_py`, but strings as the JSON input of the encoder carries them (latin-1 text)"""
    x = to_py(v)
    if isinstance(x, bytes):
        return x.decode('latin-1')
    return x


def from_py_exact(x):
    """implementation value -> model input value (exact decimal of the double)"""
    if x is None:
        return None
    if isinstance(x, bool):
        return int(x)
    if isinstance(x, int):
        return x
    if isinstance(x, bytes):
        return {'b': x.hex()}
    if isinstance(x, str):
        return {'b': x.encode('latin-1').hex()}
    if isinstance(x, float):
        fr = Fraction(x)
        # exact decimal expansion of a double: denominator is a power of two
        k = 0
        d = fr.denominator
        while d % 2 == 0:
            d //= 2
            k += 1
        assert d == 1
        return {'m': fr.numerator * 5 ** k, 's': k} if k else int(fr)
    raise core.MachineryError('cannot convert value %r' % (x,))


def same_value(impl, model):
    """implementation value vs model value (JSON): exact for ints / bytes / missing, within 2 ulp of
    the exact quotient for scaled numerics"""
    if model is None:
        return impl is None
    if impl is None:
        return False
    if isinstance(model, int):
        return isinstance(impl, int) and not isinstance(impl, bool) and impl == model
    if 'b' in model:
        return isinstance(impl, bytes) and impl.hex() == model['b']
    if not isinstance(impl, float):
        return False
    exact = Fraction(model['m']) / (Fraction(10) ** model['s'])
    if exact == 0:
        return impl == 0.0
    return abs(Fraction(impl) - exact) <= 2 * Fraction(math.ulp(impl))


def same_values(impl_list, model_list):
    return len(impl_list) == len(model_list) and all(same_value(a, b) for a, b in zip(impl_list, model_list))


def first_diff(impl_list, model_list):
    for i, (a, b) in enumerate(zip(impl_list, model_list)):
        if not same_value(a, b):
            return i, a, b
    if len(impl_list) != len(model_list):
        return min(len(impl_list), len(model_list)), 'len=%d' % len(impl_list), 'len=%d' % len(model_list)
    return None


# ---------------------------------------------------------------------------------------------
# implementation observations
def impl_decode(b, compiled=None):
    """-> ('ok', [ {d: labels, v: values, l: links} per subset ], nbytes) or (err_tag, None, None)"""
    from pybufrkit.decoder import Decoder
    try:
        msg = objs.decoder(compiled_template_cache_max=compiled).process(b, wire_template_data=False)
    except Exception as e:  # noqa
        return core.err_tag(e), None, None
    td = msg.template_data.value
    subsets = []
    for i in range(msg.n_subsets.value):
        subsets.append({'d': [str(d) for d in td.decoded_descriptors_all_subsets[i]],
                        'v': list(td.decoded_values_all_subsets[i]),
                        'l': sorted([a, o] for a, o in td.bitmap_links_all_subsets[i].items())})
    return 'ok', subsets, len(msg.serialized_bytes)


def impl_encode(js, compiled=None):
    """-> ('ok', bytes, subsets-with-labels-and-links) or (err_tag, None, None)"""
    from pybufrkit.encoder import Encoder
    try:
        msg = objs.encoder(compiled_template_cache_max=compiled).process(json.loads(json.dumps(js)), wire_template_data=False)
    except Exception as e:  # noqa
        return core.err_tag(e), None, None
    td = msg.template_data.value
    subsets = []
    for i in range(msg.n_subsets.value):
        subsets.append({'d': [str(d) for d in td.decoded_descriptors_all_subsets[i]],
                        'l': sorted([a, o] for a, o in td.bitmap_links_all_subsets[i].items())})
    return 'ok', msg.serialized_bytes, subsets


def model_err(resp):
    return 'err:' + resp['err'] if 'err' in resp else 'ok'


# ---------------------------------------------------------------------------------------------
# template generator
class TemplateGen(object):
    """Random templates over a bundled table group.  `level`: 0 = elements, sequences, replication;
    1 = + operators 201-208, 221; 2 = + bitmap constructs (222-225, 232, 235-237)."""

    def __init__(self, rng, version=DEFAULT_VERSION, level=2):
        self.rng = rng
        self.version = version
        self.level = level
        b, d = tables_io.read_group(('0', '0_0', str(version)))
        self.b, self.d = b, d
        self.numeric = sorted(i for i, v in b.items() if tables_io.unit_kind(v[1]) == 'n' and i // 1000 not in (31,) and 1 <= v[4] <= 32)
        self.codeflag = sorted(i for i, v in b.items() if tables_io.unit_kind(v[1]) == 'c' and i // 1000 not in (31, 33) and 1 <= v[4] <= 32)
        self.string = sorted(i for i, v in b.items() if tables_io.unit_kind(v[1]) == 's' and v[4] % 8 == 0 and v[4] <= 256)
        self.class33 = sorted(i for i, v in b.items() if i // 1000 == 33 and tables_io.unit_kind(v[1]) == 'c')
        self.onebit = sorted(i for i, v in b.items() if v[4] == 1 and i // 1000 not in (31,))
        self.small_seq = self._small_sequences()
        self.forced = {}

    def _expand_len(self, sid, depth=0):
        if depth > 8 or sid not in self.d:
            return None
        n = 0
        for m in self.d[sid][1]:
            m = int(m)
            f = m // 100000
            if f == 3:
                k = self._expand_len(m, depth + 1)
                if k is None:
                    return None
                n += k
            elif f == 2:
                return None          # sequences with operators are reached through the corpus, not here
            elif f == 1:
                if m % 1000 == 0 or m % 1000 > 4:
                    return None
                n += 1
            else:
                if m not in self.b:
                    return None
                n += 1
        return n

    def _small_sequences(self):
        out = []
        for sid in sorted(self.d):
            k = self._expand_len(sid)
            if k is not None and 1 <= k <= 25:
                out.append(sid)
        return out

    # -- pieces ---------------------------------------------------------------------------------
    def element(self):
        r = self.rng.random()
        if r < 0.55:
            return [self.rng.choice(self.numeric)]
        if r < 0.75:
            return [self.rng.choice(self.codeflag)]
        if r < 0.85:
            return [self.rng.choice(self.string)]
        if r < 0.92 and self.onebit:
            return [self.rng.choice(self.onebit)]
        return [self.rng.choice(self.small_seq)]

    def items(self, n, depth):
        """`n` descriptors (exactly n ids at this level; replications count as 1 + their span...)
        -> returns a list of ids whose length is the number of ids consumed"""
        out = []
        for _ in range(n):
            out.extend(self.item(depth))
        return out

    def item(self, depth):
        r = self.rng.random()
        if depth < 3 and r < 0.12:
            return self.replication(depth, delayed=False)
        if depth < 3 and r < 0.26:
            return self.replication(depth, delayed=True)
        if self.level >= 1 and r < 0.46:
            return self.operator_construct(depth)
        return self.element()

    def replication(self, depth, delayed):
        # members: a list of single-id items so that X (the id count) is easy to get right
        k = self.rng.randint(1, 4)
        members = []
        for _ in range(k):
            members.extend(self.item(depth + 1))
        x = len(members)
        if x > 63:
            members = members[:1] if members[0] // 100000 == 0 else [self.rng.choice(self.numeric)]
            x = len(members)
        if delayed:
            factor = self.rng.choice([31001, 31001, 31000])   # 031002 is reserved for bitmap constructs (imposed values)
            return [100000 + x * 1000, factor] + members
        return [100000 + x * 1000 + self.rng.randint(1, 3)] + members

    def operator_construct(self, depth):
        rng = self.rng
        c = rng.choice(['201', '202', '201+202', '207', '208', '204', '205', '206', '203', '221'])
        if c == '201':
            y = rng.choice([129, 130, 136, 127, 126, 120])
            return [201000 + y] + self.some_numeric(rng.randint(1, 3)) + [201000]
        if c == '202':
            y = rng.choice([129, 130, 127, 126])
            return [202000 + y] + self.some_numeric(rng.randint(1, 3)) + [202000]
        if c == '201+202':
            return [201000 + rng.choice([130, 132]), 202000 + rng.choice([129, 130])] + self.some_numeric(rng.randint(1, 3)) + [202000, 201000]
        if c == '207':
            return [207000 + rng.randint(1, 3)] + self.some_numeric(rng.randint(1, 3)) + [rng.choice(self.codeflag), 207000]
        if c == '208':
            return [208000 + rng.randint(1, 12)] + [rng.choice(self.string) for _ in range(rng.randint(1, 2))] + [208000]
        if c == '204':
            y = rng.randint(1, 8)
            body = []
            for _ in range(rng.randint(1, 3)):
                body.extend(self.element_plain())
            return [204000 + y, 31021] + body + [204000]
        if c == '205':
            return [205000 + rng.randint(1, 10)]
        if c == '206':
            return [206000 + rng.randint(1, 24), rng.choice([63255, 48001, 1001, 63001])]
        if c == '203':
            y = rng.randint(2, 12)
            els = sorted(set(self.some_numeric(rng.randint(1, 2))))
            return [203000 + y] + els + [203255] + els + self.some_numeric(1) + [203000]
        if c == '221':
            body = []
            for _ in range(rng.randint(1, 3)):
                body.extend(self.element_plain())
            return [221000 + len(body)] + body
        raise AssertionError(c)

    def some_numeric(self, n):
        return [self.rng.choice(self.numeric) for _ in range(n)]

    def element_plain(self):
        r = self.rng.random()
        if r < 0.6:
            return [self.rng.choice(self.numeric)]
        if r < 0.85:
            return [self.rng.choice(self.codeflag)]
        return [self.rng.choice(self.string)]

    # -- bitmap constructs (top level only, values imposed so that the data are consistent) -----
    def bitmap_construct(self, n_back):
        """appended after at least `n_back` plain elements; returns ids; records forced values"""
        rng = self.rng
        nbits = rng.randint(1, min(n_back, 8))
        bits = [rng.randint(0, 1) for _ in range(nbits)]
        zeros = bits.count(0)
        ids = []
        kind = rng.choice(['222', '222', '223', '224', '225', '232'])
        opcode = int(kind)
        ids.append(opcode * 1000)
        reuse = rng.random() < 0.3
        if reuse:
            ids.append(236000)
        if rng.random() < 0.5:
            ids += [101000 + nbits, 31031]
        else:
            ids += [101000, 31002, 31031]
            self.forced.setdefault(31002, []).append(nbits)
        self.forced.setdefault(31031, []).extend(bits)
        if kind == '222':
            q = rng.choice(self.class33)
            if rng.random() < 0.5:
                ids += [101000 + zeros, q] if zeros else []
            else:
                ids += [101000, 31002, q]
                self.forced.setdefault(31002, []).append(zeros)
        else:
            # a meaning element, then one marker per zero bit
            if kind == '224':
                ids.append(8023)
            elif kind == '225':
                ids.append(8024)
            if zeros:
                ids += [101000 + zeros, opcode * 1000 + 255]
        # optionally a second operator re-using the bitmap
        if reuse and zeros and rng.random() < 0.7:
            k2 = rng.choice([223, 224, 232])
            ids += [k2 * 1000, 237000]
            if k2 == 224:
                ids.append(8023)
            ids += [101000 + zeros, k2 * 1000 + 255]
            if rng.random() < 0.5:
                ids.append(237255)
        if rng.random() < 0.3:
            ids.append(235000)
        return ids

    def template(self, size=None):
        """-> (ids, forced) ; forced = [[id, [values...]], ...] for gen-data"""
        rng = self.rng
        self.forced = {}
        size = size or rng.randint(1, 7)
        ids = []
        for _ in range(size):
            ids.extend(self.item(0))
        if self.level >= 2 and rng.random() < 0.45:
            # a run of plain elements for the bitmap to refer to, then the construct
            n_back = rng.randint(1, 6)
            for _ in range(n_back):
                ids.extend(self.element_plain())
            ids.extend(self.bitmap_construct(n_back))
            if rng.random() < 0.3:
                ids.extend(self.element_plain())
        forced = [[k, v] for k, v in sorted(self.forced.items())]
        return ids, forced


def rnd_bits(rng, n):
    return ''.join(rng.choice('01') for _ in range(n))
