"""
Shared correspondence pipeline of the coder properties (C01, C02, C03, C05, C06, C07).

  generated template --(model, generate mode)--> value lists
      --> implementation Encoder  and  model encoder      (bytes / bits, labels, links)
      --> implementation Decoder  and  model decoder      (values, labels, links, consumed length)
  corpus files --> implementation Decoder and model decoder.

Every property's check runs the part of the pipeline it is about and evaluates its own oracle on
the implementation's outputs; see harness/props/c0x.py.
"""
import json
import os

from harness import core, tables_io
from harness import objs
from harness import coder_io as C


class Case(object):
    __slots__ = ('parts', 'forced', 'n', 'comp', 'edition', 'idx', 'valss', 'note')

    def __init__(self, parts, forced, n, comp, edition=4, idx=0):
        self.parts, self.forced, self.n, self.comp, self.edition, self.idx = parts, forced, n, comp, edition, idx
        self.valss = None
        self.note = ''

    @property
    def ids(self):
        return [i for p in self.parts for i in p]

    def replay(self):
        return {'ids': self.ids, 'n_subsets': self.n, 'compressed': self.comp, 'edition': self.edition,
                'forced': self.forced, 'values': self.valss, 'case_index': self.idx}


def template_parts(tg, rng, size=None):
    """like TemplateGen.template but keeps the top-level items apart (for shrinking)"""
    tg.forced = {}
    size = size or rng.randint(1, 7)
    parts = [tg.item(0) for _ in range(size)]
    if tg.level >= 2 and rng.random() < 0.45:
        n_back = rng.randint(1, 6)
        for _ in range(n_back):
            parts.append(tg.element_plain())
        parts.append(tg.bitmap_construct(n_back))
        if rng.random() < 0.3:
            parts.append(tg.element_plain())
    forced = [[k, v] for k, v in sorted(tg.forced.items())]
    return parts, forced


def gen_cases(rng, count, level=2, max_subsets=4, editions=(4, 4, 3, 2), compressed=None):
    tg = C.TemplateGen(rng, level=level)
    cases = []
    for i in range(count):
        parts, forced = template_parts(tg, rng)
        n = rng.randint(1, max_subsets)
        comp = (rng.random() < 0.5) if compressed is None else compressed
        cases.append(Case(parts, forced, n, comp, rng.choice(editions), i))
    return cases


def classify(ids):
    """coarse shape features for the input distribution"""
    f = set()
    for i in ids:
        k = i // 100000
        if k == 1:
            f.add('delayed-rep' if i % 1000 == 0 else 'fixed-rep')
        elif k == 2:
            f.add('op%d' % (i // 1000))
        elif k == 3:
            f.add('sequence')
    return f


def gen_values(drv, treq, cases, rng):
    """fills case.valss through the model's generate mode; returns the cases that got values"""
    reqs = [treq]
    for c in cases:
        forced = [[k, v * (1 if c.comp else c.n)] for k, v in c.forced]
        reqs.append({'op': 'gen-data', 'ids': c.ids, 'n': c.n, 'shared': c.comp,
                     'rnd': C.rnd_bits(rng, 6000), 'force': forced})
    res = drv.batch(reqs)[1:]
    out = []
    for c, r in zip(cases, res):
        if 'err' in r:
            c.note = 'gen:' + r['err']
            continue
        c.valss = r['vals']
        out.append(c)
    return out


def nontrivial(c):
    ids = c.ids
    has_struct = any(i // 100000 in (1, 2, 3) for i in ids)
    has_value = any(v is not None for vs in (c.valss or []) for v in vs)
    return has_struct and has_value


def py_inputs(valss):
    return [[C.to_py_input(v) for v in vs] for vs in valss]


def run_encode(drv, treq, cases, compiled=None):
    """-> list of (case, impl=(status, bytes, subs), model response)"""
    reqs = [treq]
    impl = []
    for c in cases:
        js = C.make_message_json(c.ids, py_inputs(c.valss), c.comp, edition=c.edition)
        impl.append(C.impl_encode(js, compiled))
        reqs.append({'op': 'enc-data', 'ids': c.ids, 'compressed': c.comp, 'vals': c.valss})
    res = drv.batch(reqs)[1:]
    return list(zip(cases, impl, res))


def compare_encode(c, impl, model):
    """None when implementation and model agree, else a description"""
    st, b, subs = impl
    ms = C.model_err(model)
    if st != ms:
        return 'encoder status: implementation %s, model %s' % (st, ms)
    if st != 'ok':
        return None
    ib = C.data_bits(b)
    mb = model['bits']
    if ib[:len(mb)] != mb or set(ib[len(mb):]) - {'0'} or len(ib) - len(mb) >= 16:
        k = next((k for k, (x, y) in enumerate(zip(ib, mb)) if x != y), min(len(ib), len(mb)))
        return 'encoded data bits differ at bit %d (implementation %d bits incl. padding, model %d bits)' % (k, len(ib), len(mb))
    for i, (a, m) in enumerate(zip(subs, model['subsets'])):
        if a['d'] != m['d']:
            return 'encoder labels differ in subset %d' % i
        if a['l'] != m['l']:
            return 'encoder attribute links differ in subset %d: %s vs %s' % (i, a['l'], m['l'])
    return None


def run_decode(drv, treq, items, compiled=None):
    """items: list of (case, bytes).  -> list of (case, bytes, impl=(status, subsets, nbytes), model response)"""
    reqs = [treq]
    impl = []
    for c, b in items:
        impl.append(C.impl_decode(b, compiled))
        reqs.append({'op': 'dec-data', 'ids': c.ids, 'compressed': c.comp, 'n': c.n, 'bits': C.data_bits(b)})
    res = drv.batch(reqs)[1:]
    return [(c, b, i, r) for (c, b), i, r in zip(items, impl, res)]


def compare_decode(impl, model):
    st, subs, nbytes = impl
    ms = C.model_err(model)
    if st != ms:
        return 'decoder status: implementation %s, model %s' % (st, ms)
    if st != 'ok':
        return None
    if len(subs) != len(model['subsets']):
        return 'number of subsets differs'
    for i, (a, m) in enumerate(zip(subs, model['subsets'])):
        if a['d'] != m['d']:
            k = next((k for k, (x, y) in enumerate(zip(a['d'], m['d'])) if x != y), min(len(a['d']), len(m['d'])))
            return 'decoded labels differ in subset %d at %d: %s vs %s' % (i, k, a['d'][k:k + 1], m['d'][k:k + 1])
        d = C.first_diff(a['v'], m['v'])
        if d is not None:
            return 'decoded value differs in subset %d at %d (%s): implementation %r, model %r' % (i, d[0], a['d'][d[0]] if d[0] < len(a['d']) else '?', d[1], d[2])
        if a['l'] != m['l']:
            return 'attribute links differ in subset %d: implementation %s, model %s' % (i, a['l'], m['l'])
    # bits left unread after the last value are padding or surplus octets of section 4 (legal, C04): not compared
    return None


# ---------------------------------------------------------------------------------------------
# shrinking: drop top-level parts / subsets while `still_fails(case)` holds
def shrink(case, still_fails, budget=40):
    best = case
    changed = True
    while changed and budget > 0:
        changed = False
        if best.n > 1:
            budget -= 1
            c2 = Case(best.parts, best.forced, 1, best.comp, best.edition, best.idx)
            if still_fails(c2):
                best = c2
                changed = True
                continue
        for k in range(len(best.parts)):
            if budget <= 0:
                break
            if len(best.parts) == 1:
                break
            budget -= 1
            c2 = Case(best.parts[:k] + best.parts[k + 1:], best.forced, best.n, best.comp, best.edition, best.idx)
            try:
                if still_fails(c2):
                    best = c2
                    changed = True
                    break
            except core.MachineryError:
                raise
            except Exception:
                pass
    return best


# ---------------------------------------------------------------------------------------------
# corpus
def corpus_files(tier, rng, quick_n=40):
    d1 = os.path.join(core.REPO, 'tests', 'data')
    d2 = os.path.join(core.REPO, 'tests', 'benchmark_data')
    files = [os.path.join(d1, f) for f in sorted(os.listdir(d1)) if f.endswith('.bufr') and 'prepbufr' not in f]
    files += [os.path.join(d2, f) for f in sorted(os.listdir(d2)) if f.endswith('.bufr')]
    if tier == 'quick':
        rng.shuffle(files)
        files = sorted(files[:quick_n])
    return files


def parse_section3(b):
    secs = C.locate_sections(b)
    pos, n = secs[3]
    nsub = int.from_bytes(b[pos + 4:pos + 6], 'big')
    flags = b[pos + 6]
    ids = []
    for k in range((n - 7) // 2):
        w = int.from_bytes(b[pos + 7 + 2 * k: pos + 9 + 2 * k], 'big')
        ids.append((w >> 14) * 100000 + ((w >> 8) & 63) * 1000 + (w & 255))
    return nsub, bool(flags & 0x40), ids


def corpus_decode(drv, path, compiled=None):
    """-> (description of disagreement or None, info dict) for one single-message file"""
    from pybufrkit.decoder import Decoder
    with open(path, 'rb') as f:
        raw = f.read()
    k = raw.find(b'BUFR')
    b = raw[k:]
    try:
        msg = objs.decoder(compiled_template_cache_max=compiled).process(b, wire_template_data=False)
    except Exception as e:  # noqa
        return None, {'skipped': core.err_tag(e)}
    b = msg.serialized_bytes
    key = msg.table_group_key
    # the tables the model works on follow from section 1 (worked out by the harness), not from what the decoder says
    # it used: a decoder that decodes by other tables than the message names disagrees with the model
    wmo_sn, local_sn = tables_io.expected_sn(*tables_io.section1_values(b))
    tb, td = tables_io.read_group(wmo_sn, local_sn)
    treq = tables_io.tables_request(tb, td)
    used = (getattr(key, 'wmo_tables_sn', None), getattr(key, 'local_tables_sn', None))
    if used != (wmo_sn, local_sn):
        return ('the decoder reports table group %s for a message whose section 1 names %s' % (used, (wmo_sn, local_sn)),
                {'ids': 0, 'subsets': 0, 'compressed': False, 'values': 0, 'features': []})
    nsub, comp, ids = parse_section3(b)
    td_ = msg.template_data.value
    subs = []
    for i in range(msg.n_subsets.value):
        subs.append({'d': [str(d) for d in td_.decoded_descriptors_all_subsets[i]],
                     'v': list(td_.decoded_values_all_subsets[i]),
                     'l': sorted([a, o] for a, o in td_.bitmap_links_all_subsets[i].items())})
    r = drv.batch([treq, {'op': 'dec-data', 'ids': ids, 'compressed': comp, 'n': nsub, 'bits': C.data_bits(b)}])[1]
    why = compare_decode(('ok', subs, len(b)), r)
    return why, {'ids': len(ids), 'subsets': nsub, 'compressed': comp, 'values': sum(len(s['v']) for s in subs),
                 'features': sorted(classify(ids))}
