"""
C13 - heap audit: the hypothesis of the heap model (lean/BufrModel/Msg/Heap.lean, Props/C13Heap.lean: `Sep` / write
discipline) as a CHECKED fact of every history the oracle of C13 executes.

The model says: the objects reachable from the table-group cache and from every CompiledTemplateManager cache are written
only while their own key is loaded / compiled (exception: `TableC._cache`, a memo of OperatorDescriptor objects that may
GROW by `id -> OperatorDescriptor(id)`), per-message objects are new, `CoderState.__init__` builds n references to ONE
list / dict for compressed data and n distinct ones for uncompressed data, the value lists are always n distinct lists.

`HeapAudit` (one per runner process) checks that in three ways:

  * setattr hook: `__setattr__` / `__delattr__` of pybufrkit.descriptors.Descriptor, templatecompiler.Statement and
    tables.BaseTable (and of any subclass that overrides them) are wrapped; an assignment to an object that is registered
    as reachable from a cache entry is a violation (kind 'setattr').  Objects are registered when their entry is inserted
    into the cache, i.e. AFTER the load / compilation of their own key, so every write to a registered object happens
    outside the load / compilation of its owner - whatever the phase ('load' of another key, 'compile' of another template,
    'run').  Registration is by id() with a weak reference (ids are reused after garbage collection); it is dropped when
    the entry leaves the cache; nothing is kept alive by the audit.
  * digest: a structural + identity snapshot of everything reachable from a table group / a compiled template is taken
    when the entry is inserted and again after EVERY operation, for every entry in the caches; it has to be identical
    (same objects by id, same attribute names, same values and value types, same list / dict objects with the same
    items in the same order), except that `C._cache` may have gained well-formed entries (kinds 'cache-digest',
    'compiled-digest').
  * identity: `CoderState.__init__` / `TemplateData.__init__` are wrapped and the sharing pattern of their per-subset
    lists is recorded and compared with what the model says; after a successful decode / encode the descriptors of the
    message are compared by identity with the cached Table B objects and the message's own containers with the containers
    of the cached entries (kind 'identity').

Snapshot encoding (nested tuples, compared with ==): an object of a tracked class is a record
`(type, attribute names, value types, values)` in a dict keyed by id(object); a value is itself (int / str / None),
`(type, value)` (float / bool / bytes inside containers), `('ref', id)` for a tracked object (its record is included once),
`('list', id, items)`, `('dict', id, ((key, value), ...))` in insertion order, `('tuple', type, items)` for tuples and named
tuples (by value), `('opaque', type, id)` for anything else (only its identity is followed).
"""
import re
import time
import weakref
from itertools import chain as _ch

_chain = _ch.from_iterable

_CURRENT = [None]          # the audit the hooks report to (one per process)
_REG = {}                  # id(object) -> [weakref, set of owners]: the objects reachable from a cache entry (of _CURRENT[0])
_MISSING = object()
REF = 'ref'
PHASES = ('load', 'compile', 'run')

_PRIM = frozenset([int, str, type(None), float, bool, bytes])

MAX_VIOL = 40              # violations kept per history (all are counted)


# ---------------------------------------------------------------------------------------------
# classes
def _classes():
    from pybufrkit import descriptors, tables, templatecompiler
    return (descriptors.Descriptor, templatecompiler.Statement, tables.BaseTable), tables.BufrTableGroup


_TR = {}                   # type -> how a value of it is encoded
_TRACKED = [None, None]


def _classify(t):
    if _TRACKED[0] is None:
        _TRACKED[0], _TRACKED[1] = _classes()
    if t is list:
        c = 2
    elif t is dict:
        c = 3
    elif t is float or t is bool or t is bytes:
        c = 4
    elif issubclass(t, _TRACKED[1]):
        c = 6
    elif issubclass(t, tuple):
        c = 5
    elif issubclass(t, _TRACKED[0]):
        c = 1
    elif issubclass(t, list):
        c = 7
    elif issubclass(t, dict):
        c = 8
    elif issubclass(t, (set, frozenset)):
        c = 9
    else:
        c = 0
    _TR[t] = c
    return c


class Snap(object):
    __slots__ = ('root', 'objs', 'cmemo', 'conts', 'found', 'lists', 'dicts')


def take(root, cmemo_of=None, collect=False):
    """snapshot of everything reachable from `root` (a tracked object or a table group).
    cmemo_of: the TableC object whose `_cache` dict is recorded apart (it may grow).
    collect: also return the tracked objects met (for registration) and the ids of the lists / dicts met."""
    objs = {}
    conts = set()
    found = []
    lists = []
    dicts = []
    TRget = _TR.get
    skip = None
    cm = None
    if cmemo_of is not None:
        cm = getattr(cmemo_of, '_cache', None)
        if type(cm) is dict:
            skip = id(cm)

    def visit(o, i):
        dd = o.__dict__
        vals = tuple(dd.values())
        tys = tuple(map(type, vals))
        if _PRIM.issuperset(tys):
            objs[i] = (type(o), tuple(dd), tys, vals)
        else:
            objs[i] = None
            objs[i] = (type(o), tuple(dd), tys, tuple([enc(v) for v in vals]))
        if collect:
            found.append(o)

    def enc(v):
        t = type(v)
        if t is int or t is str or v is None:
            return v
        c = TRget(t)
        if c is None:
            c = _classify(t)
        if c == 1:
            i = id(v)
            if i not in objs:
                visit(v, i)
            return (REF, i)
        if c == 2:
            if id(v) not in conts:
                conts.add(id(v))
                lists.append(v)
            out = []
            for x in v:
                if TRget(type(x)) == 1:          # (the common case inline: a list of descriptors / statements)
                    i = id(x)
                    if i not in objs:
                        visit(x, i)
                    out.append((REF, i))
                else:
                    out.append(enc(x))
            return ('list', id(v), tuple(out))
        if c == 3:
            if id(v) == skip:
                return ('memo-dict', id(v))
            if id(v) not in conts:
                conts.add(id(v))
                dicts.append(v)
            out = []
            for k, x in v.items():
                tk = type(k)
                if tk is not int and tk is not str:
                    k = enc(k)
                if TRget(type(x)) == 1:          # (the common case inline: id -> descriptor)
                    i = id(x)
                    if i not in objs:
                        visit(x, i)
                    out.append((k, (REF, i)))
                else:
                    out.append((k, enc(x)))
            return ('dict', id(v), tuple(out))
        if c == 4:
            return (t, v)
        if c == 5:
            return ('tuple', t, tuple([enc(x) for x in v]))
        if c == 6:
            i = id(v)
            if i not in objs:
                objs[i] = None
                dd = getattr(v, '__dict__', {})
                vals = tuple(v) + tuple(dd.values())
                objs[i] = (t, tuple(v._fields) + tuple(dd), tuple(map(type, vals)), tuple([enc(x) for x in vals]))
                if collect and hasattr(v, '__dict__'):
                    found.append(v)
            return (REF, i)
        if c == 7:
            if id(v) not in conts:
                conts.add(id(v))
                lists.append(v)
            return ('list', id(v), t, tuple([enc(x) for x in v]))
        if c == 8:
            if id(v) not in conts:
                conts.add(id(v))
                dicts.append(v)
            return ('dict', id(v), t, tuple([(enc(k), enc(x)) for k, x in v.items()]))
        if c == 9:
            conts.add(id(v))
            return ('set', id(v), t, tuple(sorted([repr(enc(x)) for x in v])))
        return ('opaque', t, id(v))

    s = Snap()
    s.root = enc(root)
    s.objs = objs
    s.cmemo = None
    if skip is not None:
        memo = []
        for k, v in cm.items():
            dd = getattr(v, '__dict__', None)
            memo.append((k, id(v), type(v), tuple(dd.items()) if type(dd) is dict else None))
            if collect:
                found.append(v)
        s.cmemo = tuple(memo)
    s.conts = conts if collect else None
    s.found = found if collect else None
    s.lists = lists if collect else None
    s.dicts = dicts if collect else None
    return s


def fast_signature(s):
    """From a snapshot taken with collect=True: what the check after every operation compares - for every tracked object
    its class, attribute names and the ids of the attribute values, for every list the ids of its items, for every dict
    its keys and the ids of its values.  Whatever a new snapshot would show as a difference (a value, a value type, an
    attribute name, an item, the identity of an object / list / dict) changes one of these; when one of them changed, a
    new snapshot is taken and compared.  (The signature holds the objects themselves: it lives as long as its cache entry.)"""
    objs = [o for o in s.found if hasattr(o, '__dict__')]
    lists, dicts = list(s.lists), list(s.dicts)
    return objs, lists, dicts, _flat(objs, lists, dicts), (len(s.cmemo) if s.cmemo is not None else None)


def _flat(objs, lists, dicts):
    # (C-level iteration only: this runs for every cache entry after every operation)
    dds = list(map(vars, objs))
    return (list(map(id, _chain(map(dict.values, dds)))), list(_chain(dds)), list(map(type, objs)),
            list(map(id, _chain(lists))), list(map(len, lists)),
            list(_chain(dicts)), list(map(id, _chain(map(dict.values, dicts)))), list(map(len, dds)), list(map(len, dicts)))


def fast_same(sig, cmemo_of):
    objs, lists, dicts, ref, nc = sig
    if _flat(objs, lists, dicts) != ref:
        return False
    if nc is not None:
        cm = getattr(cmemo_of, '_cache', None)
        if type(cm) is not dict or len(cm) != nc:
            return False
    return True


# ---------------------------------------------------------------------------------------------
# reporting a difference between two snapshots (slow path; only when they differ)
def _label(snap, i):
    rec = snap.objs.get(i)
    if rec is None:
        return '<object @%x>' % i
    ident = ''
    if 'id' in rec[1]:
        v = rec[3][rec[1].index('id')]
        ident = ' %06d' % v if isinstance(v, int) else ' %r' % (v,)
    elif 'method_name' in rec[1]:
        ident = ' %s' % (rec[3][rec[1].index('method_name')],)
    return '<%s%s @%x>' % (rec[0].__name__, ident, i)


def _show(snap, e, depth=0):
    if isinstance(e, tuple) and e:
        tag = e[0]
        if tag == REF and len(e) == 2:
            return _label(snap, e[1])
        if tag == 'list' and len(e) >= 3:
            items = e[-1]
            if depth > 0:
                return '[%d items @%x]' % (len(items), e[1])
            return '[%s%s]@%x' % (', '.join(_show(snap, x, depth + 1) for x in items[-3:]) if len(items) <= 3 else
                                  '..., ' + ', '.join(_show(snap, x, depth + 1) for x in items[-3:]), '', e[1])
        if tag == 'dict' and len(e) >= 3:
            return '{%d entries}@%x' % (len(e[-1]), e[1])
        if tag == 'tuple' and len(e) == 3:
            return '%s(%s)' % (e[1].__name__, ', '.join(_show(snap, x, depth + 1) for x in e[2][:8]))
        if tag == 'opaque' and len(e) == 3:
            return '<%s object @%x>' % (e[1].__name__, e[2])
        if tag == 'memo-dict':
            return '{memo}@%x' % e[1]
        if isinstance(tag, type) and len(e) == 2:
            return repr(e[1])
    r = repr(e)
    return r if len(r) < 60 else r[:57] + '...'


def _paths(snap):
    """id -> path of the first reference met walking from the root"""
    paths = {}
    todo = [('', snap.root)]
    while todo:
        path, e = todo.pop()
        if not isinstance(e, tuple) or not e:
            continue
        tag = e[0]
        if tag == REF and len(e) == 2:
            i = e[1]
            if i in paths:
                continue
            paths[i] = path
            rec = snap.objs.get(i)
            if rec is None:
                continue
            for k, v in zip(rec[1], rec[3]):
                if isinstance(v, tuple):
                    todo.append(((path + '.' if path else '') + str(k), v))
        elif tag == 'list' and len(e) >= 3:
            for n, x in enumerate(e[-1]):
                if isinstance(x, tuple):
                    todo.append(('%s[%d]' % (path, n), x))
        elif tag == 'dict' and len(e) >= 3:
            for k, x in e[-1]:
                if isinstance(x, tuple):
                    todo.append(('%s[%s]' % (path, k if not isinstance(k, tuple) else _show(snap, k)), x))
        elif tag == 'tuple' and len(e) == 3:
            for n, x in enumerate(e[2]):
                if isinstance(x, tuple):
                    todo.append(('%s[%d]' % (path, n), x))
    return paths


def diff_snaps(old, new, limit=4):
    """-> list of (path, old text, new text) describing how two snapshots differ"""
    out = []

    def cmp(path, a, b):
        if len(out) >= limit or a == b:
            return
        if isinstance(a, tuple) and isinstance(b, tuple) and a and b and a[0] == b[0] and len(a) == len(b):
            tag = a[0]
            if tag in ('list', 'dict') and len(a) >= 3:
                if a[1] != b[1]:
                    out.append((path, 'the %s object @%x' % (tag, a[1]), 'another %s object @%x' % (tag, b[1])))
                    return
                if len(a) == 4 and a[2] is not b[2]:
                    out.append((path, 'type %s' % a[2].__name__, 'type %s' % b[2].__name__))
                    return
                ia, ib = a[-1], b[-1]
                if len(ia) != len(ib):
                    out.append((path, '%d items: %s' % (len(ia), _show(old, a)), '%d items: %s' % (len(ib), _show(new, b))))
                    return
                for n, (x, y) in enumerate(zip(ia, ib)):
                    if x != y:
                        if tag == 'dict':
                            if x[0] != y[0]:
                                out.append(('%s (entry %d)' % (path, n), 'key %s' % _show(old, x[0]), 'key %s' % _show(new, y[0])))
                            else:
                                cmp('%s[%s]' % (path, x[0] if not isinstance(x[0], tuple) else _show(old, x[0])), x[1], y[1])
                        else:
                            cmp('%s[%d]' % (path, n), x, y)
                return
            if tag == 'tuple' and len(a) == 3 and a[1] is b[1] and len(a[2]) == len(b[2]):
                for n, (x, y) in enumerate(zip(a[2], b[2])):
                    cmp('%s[%d]' % (path, n), x, y)
                return
        out.append((path, _show(old, a), _show(new, b)))

    cmp('<root>', old.root, new.root)
    if old.objs != new.objs:
        pn, po = _paths(new), None
        for i, ra in old.objs.items():
            if len(out) >= limit:
                break
            rb = new.objs.get(i)
            if rb is None or ra == rb:
                continue
            path = pn.get(i)
            if path is None:
                if po is None:
                    po = _paths(old)
                path = po.get(i, _label(old, i))
            if ra[0] is not rb[0]:
                out.append((path, 'an object of class %s' % ra[0].__name__, 'class %s' % rb[0].__name__))
                continue
            da, db = dict(zip(ra[1], zip(ra[2], ra[3]))), dict(zip(rb[1], zip(rb[2], rb[3])))
            for k in ra[1]:
                if k not in db:
                    out.append(('%s.%s' % (path, k), _show(old, da[k][1]), '(attribute deleted)'))
            for k in rb[1]:
                if k not in da:
                    out.append(('%s.%s' % (path, k), '(no such attribute)', _show(new, db[k][1])))
                elif da[k] != db[k]:
                    if da[k][0] is not db[k][0]:
                        out.append(('%s.%s' % (path, k), '%s %s' % (da[k][0].__name__, _show(old, da[k][1])),
                                    '%s %s' % (db[k][0].__name__, _show(new, db[k][1]))))
                    else:
                        cmp('%s.%s' % (path, k), da[k][1], db[k][1])
            if ra[1] != rb[1] and set(ra[1]) == set(rb[1]):
                out.append((path, 'attributes in order %s' % (ra[1],), '%s' % (rb[1],)))
        gone = [i for i in old.objs if i not in new.objs]
        came = [i for i in new.objs if i not in old.objs]
        if (gone or came) and len(out) < limit:
            out.append(('<reachable objects>', '%d no longer reachable, e.g. %s' % (len(gone), ', '.join(_label(old, i) for i in gone[:3])),
                        '%d newly reachable, e.g. %s' % (len(came), ', '.join(_label(new, i) for i in came[:3]))))
    return out[:limit]


def path_sig(path):
    """a path without object ids, indices, descriptor ids (for violation signatures)"""
    p = re.sub(r'\[[^\]]*\]', '[*]', path)
    p = re.sub(r'@[0-9a-f]+', '', p)
    p = re.sub(r'\d+', 'N', p)
    return p[:80]


def pattern(lst):
    """how the elements of a per-subset list are shared"""
    try:
        n = len(lst)
    except Exception:  # noqa
        return 'not-a-list'
    if n < 2:
        return 'single'
    k = len(set(map(id, lst)))
    return 'shared' if k == 1 else ('separate' if k == n else 'mixed')


def _short(v):
    try:
        r = repr(v)
    except Exception:  # noqa
        r = '<%s>' % type(v).__name__
    return r if len(r) < 50 else r[:47] + '...'


# ---------------------------------------------------------------------------------------------
# hooks (installed once per process; they report to _CURRENT[0])
def _hook_attr(cls, nm):
    """wrap cls.__setattr__ / cls.__delattr__ (nm); idempotent: a wrapped method is left as it is"""
    cur = cls.__dict__.get(nm)
    if cur is not None and getattr(cur, '_c13_heap', False):
        return
    orig = getattr(cls, nm)
    if getattr(orig, '_c13_heap', False):
        return                          # inherited from a base class that carries the hook already
    # (the hook runs for EVERY attribute assignment of every descriptor / statement / table object, e.g. ~25000 times per
    #  table-group load: one dict lookup, nothing else, unless the object is registered)
    if nm == '__setattr__':
        def hook(self, name, value, _orig=orig, _reg=_REG):
            if id(self) in _reg:
                _written(self, name, value)
            _orig(self, name, value)
    else:
        def hook(self, name, _orig=orig, _reg=_REG):
            if id(self) in _reg:
                _written(self, name, _MISSING)
            _orig(self, name)
    hook.__name__ = nm
    hook._c13_heap = True
    hook._c13_orig = orig
    setattr(cls, nm, hook)


def _written(obj, name, value):
    a = _CURRENT[0]
    ent = _REG.get(id(obj))
    if a is not None and ent is not None and ent[0]() is obj:
        a.on_write(obj, name, value, ent)


def _all_subclasses(cls):
    out, todo = [], [cls]
    while todo:
        c = todo.pop()
        for s in c.__subclasses__():
            out.append(s)
            todo.append(s)
    return out


def _hook_init(cls, method):
    cur = cls.__dict__['__init__']
    if getattr(cur, '_c13_heap', False):
        return
    orig = cur

    def __init__(self, *a, **kw):
        orig(self, *a, **kw)
        au = _CURRENT[0]
        if au is not None:
            getattr(au, method)(self, a, kw)
    __init__._c13_heap = True
    __init__._c13_orig = orig
    cls.__init__ = __init__


def install_hooks():
    """idempotent: a class that already carries the hooks keeps them (and its original methods)"""
    from pybufrkit import coder, templatedata
    bases, _ = _classes()
    hooked = []
    for b in bases:
        _hook_attr(b, '__setattr__')
        _hook_attr(b, '__delattr__')
        hooked.append(b.__name__)
        for s in _all_subclasses(b):
            # a subclass that defines its own __setattr__ / __delattr__ would bypass the hook of the base class
            for nm in ('__setattr__', '__delattr__'):
                f = s.__dict__.get(nm)
                if f is not None and not getattr(f, '_c13_heap', False):
                    _hook_attr(s, nm)
                    hooked.append('%s.%s' % (s.__name__, nm))
    _hook_init(coder.CoderState, 'on_coder_state')
    _hook_init(templatedata.TemplateData, 'on_template_data')
    return hooked


# ---------------------------------------------------------------------------------------------
class _Entry(object):
    __slots__ = ('wr', 'oid', 'snap', 'owner', 'ids', 'conts', 'fast')


def _owner_text(owner):
    if owner[0] == 'tg':
        return 'cached table group %s' % owner[1]
    return 'compiled template %s cached by coder %s' % (owner[2], owner[1])


def owner_group(owner):
    """key_str of the table group an owner belongs to"""
    if owner is None:
        return None
    if owner[0] == 'tg':
        return owner[1]
    return owner[2].split('|', 1)[1] if '|' in owner[2] else None


class HeapAudit(object):
    def __init__(self, key_str=None, ckey_str=None):
        self.key_str = key_str or (lambda k: str(k))
        self.ckey_str = ckey_str or (lambda k: str(k))
        _REG.clear()
        self.reg = _REG          # id(object) -> [weakref, set of owners]
        self.tg = {}             # table group key -> _Entry
        self.ct = {}             # (coder name, compiled key) -> _Entry
        self.cont = {}           # id(list / dict reachable from a cache entry) -> owner
        self.phase = ('run', None)
        self.pi = 2
        self.op = -1
        self.viol = []
        self.nviol = {}
        self.pat = []
        self.counts = {}
        self.time = 0.0          # seconds spent in the audit (all), in the checks of table groups / compiled templates after operations
        self.time_tg = 0.0
        self.time_ct = 0.0
        self._last_state = None
        self.hooked = install_hooks()
        _CURRENT[0] = self

    # -- bookkeeping ---------------------------------------------------------------------------
    def count(self, k, n=1):
        self.counts[k] = self.counts.get(k, 0) + n

    def violation(self, kind, text, sig, owner=None):
        self.nviol[kind] = self.nviol.get(kind, 0) + 1
        if len(self.viol) < MAX_VIOL:
            self.viol.append({'op': self.op, 'kind': kind, 'text': text, 'sig': sig, 'group': owner_group(owner)})

    def enter(self, phase, what=None):
        prev = (self.phase, self.pi)
        self.phase = (phase, what)
        self.pi = PHASES.index(phase)
        return prev

    def leave(self, prev):
        self.phase, self.pi = prev

    def begin_op(self, i):
        self.op = i
        while len(self.pat) <= i:
            self.pat.append([])

    # -- registration --------------------------------------------------------------------------
    def _register(self, owner, objs):
        ids = []
        reg = self.reg
        for o in objs:
            i = id(o)
            ent = reg.get(i)
            if ent is not None and ent[0]() is o:
                ent[1].add(owner)
            else:
                try:
                    reg[i] = [weakref.ref(o), {owner}]
                except TypeError:
                    continue
            ids.append(i)
        return ids

    def _drop(self, ent):
        reg = self.reg
        for i in ent.ids:
            e = reg.get(i)
            if e is not None:
                e[1].discard(ent.owner)
                if not e[1]:
                    del reg[i]
        cont = self.cont
        for i in ent.conts or ():
            if cont.get(i) == ent.owner:
                del cont[i]

    def _insert(self, store, key, obj, owner, seen, cmemo_of=None):
        t0 = time.perf_counter()
        s = take(obj, cmemo_of=cmemo_of, collect=True)
        ent = _Entry()
        try:
            ent.wr = weakref.ref(obj)
        except TypeError:
            ent.wr = None
        ent.oid = id(obj)
        ent.owner = owner
        ent.ids = self._register(owner, s.found)
        self.count('objects registered (reachable from a cache entry)', len(ent.ids))
        ent.conts = s.conts
        for i in s.conts:
            self.cont.setdefault(i, owner)
        ent.fast = fast_signature(s)
        s.found = s.conts = s.lists = s.dicts = None
        ent.snap = s
        store[key] = ent
        what = 'table groups' if owner[0] == 'tg' else 'compiled templates'
        self.count('%s snapshotted %s' % (what, 'at insertion' if seen else 'at the check after an operation (insertion not observed)'))
        self.count('snapshots taken')
        self.count('objects walked', len(s.objs))
        if owner[0] == 'tg':
            self._check_cmemo(owner, s)
        self.time += time.perf_counter() - t0
        return ent

    def _same(self, ent, obj):
        return ent.oid == id(obj) and (ent.wr is None or ent.wr() is obj)

    def sync_tables(self, cache, seen=True):
        """the table-group cache changed (a miss returned, an invalidation) or may have: forget the entries that left,
        snapshot + register those that came"""
        groups = getattr(cache, '_groups', None)
        if type(groups) is not dict:
            return
        for k in list(self.tg):
            g = groups.get(k)
            if g is None or not self._same(self.tg[k], g):
                self._drop(self.tg.pop(k))
                self.count('table groups forgotten (left the cache)')
        for k, g in list(groups.items()):
            if k not in self.tg:
                self._insert(self.tg, k, g, ('tg', self.key_str(k)), seen, cmemo_of=getattr(g, 'C', None))

    def sync_compiled(self, name, mgr, seen=True):
        cache = getattr(mgr, 'cache', None)
        if type(cache) is not dict:
            return
        for kk in [kk for kk in self.ct if kk[0] == name]:
            c = cache.get(kk[1])
            if c is None or not self._same(self.ct[kk], c):
                self._drop(self.ct.pop(kk))
                self.count('compiled templates forgotten (left the cache)')
        for k, c in list(cache.items()):
            if (name, k) not in self.ct:
                self._insert(self.ct, (name, k), c, ('ct', name, self.ckey_str(k)), seen)

    # -- setattr hook --------------------------------------------------------------------------
    def on_write(self, obj, name, value, ent):
        ph = self.phase
        self.count('setattr on cached objects:' + ph[0])
        old = getattr(obj, '__dict__', {}).get(name, _MISSING)
        owners = sorted(ent[1], key=repr)
        ident = getattr(obj, '__dict__', {}).get('id')
        ident = ' %06d' % ident if isinstance(ident, int) else ''
        during = {'load': 'while table group %s is loaded' % (ph[1],), 'compile': 'while coder %s compiles a template' % (ph[1],),
                  'run': 'at run time (no load, no compilation in progress)'}[ph[0]]
        text = ('%s%s, an object of %s%s: attribute %s %s %s -> %s, %s' % (
            type(obj).__name__, ident, _owner_text(owners[0]), ' (+%d more owners)' % (len(owners) - 1) if len(owners) > 1 else '',
            name, 'deleted:' if value is _MISSING else 'assigned:', '(absent)' if old is _MISSING else _short(old),
            '(absent)' if value is _MISSING else _short(value), during))
        if old is not _MISSING and value is not _MISSING and type(old) is type(value) and (old is value or (type(old) in _PRIM and old == value)):
            text += ' [same value]'
        self.violation('setattr', text, '%s.%s' % (type(obj).__name__, name), owners[0])

    # -- digest --------------------------------------------------------------------------------
    def _check_cmemo(self, owner, s):
        """every entry of TableC._cache is `id -> OperatorDescriptor(id)` with no other attribute"""
        if s.cmemo is None:
            return
        for k, i, t, items in s.cmemo:
            if t.__name__ != 'OperatorDescriptor' or t.__module__ != 'pybufrkit.descriptors' or items != (('id', k),) or type(k) is not int:
                self.violation('cache-digest', '%s: Table C memo entry %r is not OperatorDescriptor(%r) with the single attribute id: %s %s'
                               % (_owner_text(owner), k, k, t.__name__, _short(items)), 'C._cache[*]', owner)
                return

    def _compare(self, ent, obj, kind, cmemo_of=None, full=False):
        """one cache entry against the snapshot taken when it was inserted.  The check after every operation compares the
        entry's fast signature (identities of all attribute values / items of everything reachable, see fast_signature);
        only when that changed - or `full` (last operation of the history) - a new snapshot is taken and compared."""
        what = 'table groups' if kind == 'cache-digest' else 'compiled templates'
        self.count('comparisons:' + what)
        if fast_same(ent.fast, cmemo_of):
            if not full:
                return
            flagged = False
        else:
            flagged = True
            self.count('comparisons:%s:identity signature changed, new snapshot taken' % what)
        new = take(obj, cmemo_of=cmemo_of, collect=True)
        old = ent.snap
        self.count('snapshots taken')
        self.count('objects walked', len(new.objs))
        same = new.root == old.root and new.objs == old.objs
        if same and new.cmemo == old.cmemo:
            if flagged:
                # e.g. an attribute re-assigned with an equal value of the same type (another int / str object)
                self.count('comparisons:identity signature changed but the new snapshot equals the old one')
                ent.fast = fast_signature(new)
            else:
                self.count('comparisons:%s:full snapshot at the end of the history' % what)
            return
        if not same:
            d = diff_snaps(old, new)
            text = '%s is not what it was when it was inserted into the cache: %s' % (
                _owner_text(ent.owner), '; '.join('%s: %s -> %s' % x for x in d) or 'snapshots differ')
            if not flagged:
                text += ' [missed by the identity signature: harness/c13heap.py fast_same is incomplete]'
            self.violation(kind, text, path_sig(d[0][0]) if d else '?', ent.owner)
        if new.cmemo != old.cmemo:
            oc, nc = old.cmemo or (), new.cmemo or ()
            if nc[:len(oc)] != oc:
                chg = next((('entry %r' % (x[0],), x, y) for x, y in zip(oc, nc) if x != y), ('length', len(oc), len(nc)))
                self.violation(kind, '%s: the Table C memo did not only grow: %s was %s, is %s'
                               % (_owner_text(ent.owner), chg[0], _short(chg[1]), _short(chg[2])), 'C._cache[*]', ent.owner)
            else:
                self.count('Table C memo growth events')
                self.count('Table C memo entries gained', len(nc) - len(oc))
                self._check_cmemo(ent.owner, new)
        # what is reachable now is registered (new Table C operators; whatever a violation made reachable) and compared from now on
        ent.ids = sorted(set(ent.ids) | set(self._register(ent.owner, new.found)))
        for i in new.conts:
            self.cont.setdefault(i, ent.owner)
        ent.conts = ent.conts | new.conts
        ent.fast = fast_signature(new)
        new.found = new.conts = new.lists = new.dicts = None
        ent.snap = new

    def after_op(self, cache, managers, final=False):
        """after an operation: every entry of the table-group cache and of every compiled-template cache is what it was
        when it was inserted (final: last operation of the history - full snapshots whatever the fast signatures say)"""
        t0 = time.perf_counter()
        self.sync_tables(cache, seen=False)
        groups = getattr(cache, '_groups', {})
        for k, ent in list(self.tg.items()):
            g = groups.get(k)
            if g is not None:
                self._compare(ent, g, 'cache-digest', cmemo_of=getattr(g, 'C', None), full=final)
        t1 = time.perf_counter()
        for name, mgr in managers.items():
            self.sync_compiled(name, mgr, seen=False)
            cc = getattr(mgr, 'cache', {})
            for kk, ent in list(self.ct.items()):
                if kk[0] == name:
                    c = cc.get(kk[1])
                    if c is not None:
                        self._compare(ent, c, 'compiled-digest', full=final)
        t2 = time.perf_counter()
        self.time += t2 - t0
        self.time_tg += t1 - t0
        self.time_ct += t2 - t1

    # -- identity ------------------------------------------------------------------------------
    def on_coder_state(self, st, a, kw):
        cls = type(st).__name__
        self.count('coder states:' + cls)
        if cls != 'CoderState' or self.pi == 1:
            return                       # the compiler's own state (CoderState(False, 1)) is not a message's
        da = getattr(st, 'decoded_descriptors_all_subsets', None)
        la = getattr(st, 'bitmap_links_all_subsets', None)
        va = getattr(st, 'decoded_values_all_subsets', None)
        comp = bool(getattr(st, 'is_compressed', False))
        given = (a[2] if len(a) > 2 else kw.get('decoded_values_all_subsets'))
        rec = {'compressed': comp, 'n': len(da) if isinstance(da, list) else -1, 'desc': pattern(da), 'links': pattern(la),
               'values': pattern(va), 'nodes': None, 'src': 'enc' if given else 'dec'}
        if self.op >= 0:
            self.pat[self.op].append(rec)
        self._last_state = (id(da), id(va), id(la), rec)
        exp = 'shared' if comp else 'separate'
        bad = []
        for nm, lst, e in (('decoded_descriptors_all_subsets', da, exp), ('bitmap_links_all_subsets', la, exp),
                           ('decoded_values_all_subsets', va, 'separate')):
            p = pattern(lst)
            if p not in ('single', e):
                bad.append('%s: %d elements are %s, the model says %s' % (nm, len(lst), p, e))
        for nm, one, lst in (('decoded_descriptors', getattr(st, 'decoded_descriptors', None), da),
                             ('bitmap_links', getattr(st, 'bitmap_links', None), la),
                             ('decoded_values', getattr(st, 'decoded_values', None), va)):
            if isinstance(lst, list) and len(lst) >= 1 and rec['n'] >= 1 and one is not lst[0]:
                bad.append('%s is not element 0 of %s_all_subsets' % (nm, nm))
        if given and va is not given:
            bad.append('decoded_values_all_subsets is not the list given to the constructor')
        if bad:
            self.violation('identity', 'CoderState(is_compressed=%s, n_subsets=%s): %s' % (comp, rec['n'], '; '.join(bad)),
                           'CoderState:%s:%s' % ('compressed' if comp else 'uncompressed', bad[0].split(':')[0].split(' is ')[0]))

    def on_template_data(self, td, a, kw):
        self.count('template data objects')
        names = ('template', 'is_compressed', 'decoded_descriptors_all_subsets', 'decoded_values_all_subsets', 'bitmap_links_all_subsets')
        d = dict(zip(names, a))
        d.update(kw)
        bad = []
        for nm in names[2:]:
            if nm in d and getattr(td, nm, None) is not d[nm]:
                bad.append('%s is not the list given to the constructor' % nm)
        if 'template' in d and getattr(td, 'template', None) is not d['template']:
            bad.append('template is not the object given to the constructor')
        comp = bool(getattr(td, 'is_compressed', False))
        na = getattr(td, 'decoded_nodes_all_subsets', None)
        p = pattern(na)
        exp = 'shared' if comp else 'separate'
        if p not in ('single', exp):
            bad.append('decoded_nodes_all_subsets: %d elements are %s, the model says %s' % (len(na), p, exp))
        if isinstance(na, list) and na and getattr(td, 'decoded_nodes', None) is not na[0]:
            bad.append('decoded_nodes is not element 0 of decoded_nodes_all_subsets')
        ls = self._last_state
        da, va, la = d.get(names[2]), d.get(names[3]), d.get(names[4])
        if ls is not None and ls[3]['nodes'] is None and (id(da), id(va), id(la)) == ls[:3]:
            ls[3]['nodes'] = p
        else:
            rec = {'compressed': comp, 'n': len(da) if isinstance(da, list) else -1, 'desc': pattern(da), 'links': pattern(la),
                   'values': pattern(va), 'nodes': p, 'src': 'td'}
            if self.op >= 0:
                self.pat[self.op].append(rec)
        if bad:
            self.violation('identity', 'TemplateData(is_compressed=%s, %s subsets): %s' % (comp, len(na) if isinstance(na, list) else '?', '; '.join(bad)),
                           'TemplateData:%s:%s' % ('compressed' if comp else 'uncompressed', bad[0].split(':')[0].split(' is ')[0]))

    def check_message(self, msg, cache):
        """after a successful decode / encode: the message's descriptors against the cached Table B objects (by identity),
        its sharing pattern once more, its own containers against the containers of the cache entries"""
        t0 = time.perf_counter()
        try:
            td = msg.template_data.value
            da, va, la = td.decoded_descriptors_all_subsets, td.decoded_values_all_subsets, td.bitmap_links_all_subsets
            na = td.decoded_nodes_all_subsets
        except Exception:  # noqa
            self.count('messages without template data (not checked)')
            return
        self.count('messages checked')
        comp = bool(td.is_compressed)
        exp = 'shared' if comp else 'separate'
        bad = []
        for nm, lst, e in (('decoded_descriptors_all_subsets', da, exp), ('bitmap_links_all_subsets', la, exp),
                           ('decoded_values_all_subsets', va, 'separate'), ('decoded_nodes_all_subsets', na, exp)):
            p = pattern(lst)
            if p not in ('single', e):
                bad.append('%s: %d elements are %s, the model says %s' % (nm, len(lst), p, e))
        # per-message containers are new objects: none of them is a list / dict of a cache entry
        own = [('decoded_descriptors_all_subsets', da), ('decoded_values_all_subsets', va), ('bitmap_links_all_subsets', la),
               ('decoded_nodes_all_subsets', na)]
        for nm, lst in list(own):
            if isinstance(lst, list):
                own.extend(('%s[%d]' % (nm, i), x) for i, x in enumerate(lst[:1 if comp and nm != 'decoded_values_all_subsets' else len(lst)]))
        tmpl = getattr(td, 'template', None)
        own.append(('template.members', getattr(tmpl, 'members', None)))
        cached = self.cont
        for nm, x in own:
            o = cached.get(id(x)) if isinstance(x, (list, dict)) else None
            if o is not None and not (o[0] == 'ct' and nm == 'template.members'):
                # (the template of the first message compiled IS the compiled template's `.template`)
                bad.append('%s of the message is a container of %s' % (nm, _owner_text(o)))
        self.count('message containers compared with the containers of cache entries', len(own))
        if bad:
            self.violation('identity', 'message (is_compressed=%s, %d subsets): %s' % (comp, len(da), '; '.join(bad[:3])),
                           'message:%s:%s' % ('compressed' if comp else 'uncompressed', re.sub(r'\[\d+\]', '[*]', bad[0].split(':')[0].split(' of the ')[0])))
        # descriptors: a plain ElementDescriptor of a message is THE object of the table group the message used
        key = getattr(msg, 'table_group_key', None)
        g = getattr(cache, '_groups', {}).get(key) if key is not None else None
        if g is None:
            self.count('messages whose table group is no longer cached (descriptor identity not checked)')
        else:
            from pybufrkit.descriptors import ElementDescriptor
            B = g.B.descriptors
            reg = self.reg
            same = copies = older = 0
            other = {}
            seen = set()
            for ds in da:
                if id(ds) in seen:
                    continue
                seen.add(id(ds))
                for d in ds:
                    if type(d) is ElementDescriptor:
                        if B.get(d.id) is d:
                            same += 1
                        else:
                            e = reg.get(id(d))
                            if e is not None and e[0]() is d:
                                older += 1       # an object of an earlier load of the group that a compiled template still holds
                            else:
                                copies += 1
                    else:
                        nm = type(d).__name__
                        other[nm] = other.get(nm, 0) + 1
            self.count('decoded descriptors that are the cached Table B object', same)
            self.count('decoded element descriptors held by a cached compiled template (Table B object of an earlier load of the group)', older)
            self.count('decoded plain element descriptors that are not the cached object (copies)', copies)
            for nm, n in other.items():
                self.count(('decoded operator descriptors (objects of the Table C memo):' if nm == 'OperatorDescriptor' else
                            'per-message descriptor objects:') + nm, n)
        self.time += time.perf_counter() - t0

    # -- result --------------------------------------------------------------------------------
    def result(self):
        c = dict(self.counts)
        for ph in PHASES:
            c.setdefault('setattr on cached objects:' + ph, 0)
        for k, n in self.nviol.items():
            c['violations:' + k] = n
        while len(self.pat) <= self.op:
            self.pat.append([])
        return {'viol': self.viol, 'pat': self.pat, 'counts': c, 'time': self.time, 'time_tg': self.time_tg, 'time_ct': self.time_ct,
                'hooked': self.hooked}


def pattern_str(r):
    return '%s n%s desc=%s links=%s values=%s nodes=%s (%s)' % (
        'compressed' if r['compressed'] else 'uncompressed', '>=2' if r['n'] >= 2 else '=%d' % r['n'],
        r['desc'], r['links'], r['values'], r['nodes'], r.get('src'))
