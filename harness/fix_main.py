"""Normalises lean/Main.lean after a (union) merge: collects every Drv import and every op entry (old `[..,]`
or new `::` list syntax), removes duplicates, and rewrites the file canonically.  python -m harness.fix_main"""
import os
import re

VERIF = os.path.dirname(os.path.dirname(os.path.abspath(__file__)))


def main():
    p = os.path.join(VERIF, 'lean', 'Main.lean')
    s = open(p).read()
    imports, ops = [], {'stateless': [], 'stateful': []}
    cur = None
    for line in s.split('\n'):
        m = re.match(r'import (BufrModel\.Drv\.\w+)', line)
        if m and m.group(1) not in imports:
            imports.append(m.group(1))
        if 'def statelessOps' in line:
            cur = 'stateless'
        elif 'def statefulOps' in line:
            cur = 'stateful'
        m = re.match(r"\s*\(\"([\w-]+)\",\s*([\w.]+)\)", line)
        if m and cur and (m.group(1), m.group(2)) not in ops[cur]:
            ops[cur].append((m.group(1), m.group(2)))
    head = s[:s.index('import BufrModel')]
    tail = s[s.index('def dispatch'):]
    out = head + ''.join('import %s\n' % i for i in imports) + 'open Lean Bufr.Drv\n\n'
    out += '/-- stateless operations: one line per op -/\ndef statelessOps : List (String × (Json → J Json)) :=\n'
    out += ''.join('  ("%s", %s) ::\n' % o for o in ops['stateless']) + '  []\n\n'
    out += '/-- operations that read or change the driver state -/\ndef statefulOps : List (String × (DrvState → Json → J (DrvState × Json))) :=\n'
    out += ''.join('  ("%s", %s) ::\n' % o for o in ops['stateful']) + '  []\n\n'
    open(p, 'w').write(out + tail)


if __name__ == '__main__':
    main()
