"""
Self-test of the driver op `dec-data-flat` (the flat FM-94 reading, lean/BufrModel/Spec/FlatWalk.lean)
against `dec-data` (build the tree, walk it):  /venv/bin/python -m harness.flatcheck [count] [seed]

By C01_flat_eq_tree the two responses must be identical whenever "wf" is true; this runs both on
generated templates (grammar of coder_io.TemplateGen, data bits from the model encoder), on mutated
templates (truncated lists, 206YYY / 221YYY put in front of composites, replications whose scope is
cut) and on random bit strings, and reports how often each flag occurred.  No implementation involved.
"""
import random
import subprocess
import sys

from harness import core, tables_io
from harness import coderprops as P


def strip(r):
    return {k: v for k, v in r.items() if k not in ('wf', 'strict', 'closed')}


def mutate(rng, ids):
    ids = list(ids)
    k = rng.randint(0, 5)
    if k == 0 and ids:
        return ids[:rng.randint(0, len(ids))]
    if k == 1:
        pos = [i for i, d in enumerate(ids) if d // 100000 in (1, 3)]
        if pos:
            ids.insert(rng.choice(pos), rng.choice([206008, 221002, 221001, 203012]))
        return ids
    if k == 2:
        pos = [i for i, d in enumerate(ids) if d // 100000 == 1]
        if pos:
            i = rng.choice(pos)
            ids[i] = ids[i] + 1000 * rng.randint(1, 3)
        return ids
    if k == 3 and ids:
        del ids[rng.randrange(len(ids))]
        return ids
    if k == 4:
        ids.append(rng.choice([101000, 102000, 103002]))
        return ids
    return ids


def safe_batch(drv, treq, reqs, stats):
    """responses of reqs (pairs dec-data / dec-data-flat); a pair that does not finish (astronomic
    replication counts over fields of width 0) is answered by {'timeout': True} twice"""
    out = []
    step = 120
    for i in range(0, len(reqs), step):
        part = reqs[i:i + step]
        try:
            out.extend(drv.batch([treq] + part, timeout=60)[1:])
            continue
        except subprocess.TimeoutExpired:
            pass
        for k in range(0, len(part), 2):
            try:
                out.extend(drv.batch([treq] + part[k:k + 2], timeout=10)[1:])
            except subprocess.TimeoutExpired:
                stats['timeout (both ops asked together)'] = stats.get('timeout (both ops asked together)', 0) + 1
                out.extend([{'timeout': True}, {'timeout': True, 'wf': None, 'strict': None}])
    return out


def main():
    count = int(sys.argv[1]) if len(sys.argv) > 1 else 600
    seed = sys.argv[2] if len(sys.argv) > 2 else '0'
    rng = random.Random('flatcheck:' + seed)
    core.build()
    drv = core.Driver()
    treq = tables_io.group_request()
    stats = {}
    bad = 0
    done = 0
    while done < count:
        cases = P.gen_cases(rng, min(300, count - done), level=2)
        done += len(cases)
        cases = P.gen_values(drv, treq, cases, rng)
        reqs = [treq] + [{'op': 'enc-data', 'ids': c.ids, 'compressed': c.comp, 'vals': c.valss} for c in cases]
        enc = drv.batch(reqs)[1:]
        reqs = []
        meta = []
        for c, e in zip(cases, enc):
            bits = e.get('bits', '')
            variants = [(c.ids, bits, 'gen')]
            variants.append((mutate(rng, c.ids), bits, 'mut'))
            variants.append((c.ids, ''.join(rng.choice('01') for _ in range(rng.randint(0, 400))), 'rndbits'))
            for ids, b, tag in variants:
                for op in ('dec-data', 'dec-data-flat'):
                    reqs.append({'op': op, 'ids': ids, 'compressed': c.comp, 'n': c.n, 'bits': b})
                meta.append((ids, c, tag))
        res = safe_batch(drv, treq, reqs, stats)
        for k, (ids, c, tag) in enumerate(meta):
            tree, flat = res[2 * k], res[2 * k + 1]
            if 'timeout' in tree:
                print('timeout:', ids, c.comp, c.n, tag)
                continue
            same = strip(flat) == tree
            key = '%s wf=%s strict=%s %s %s' % (tag, flat['wf'], flat['strict'],
                                                'ok' if 'subsets' in flat else 'err', 'same' if same else 'DIFF')
            stats[key] = stats.get(key, 0) + 1
            if flat['wf'] and not same:
                bad += 1
                print('MISMATCH under wf:', ids, c.comp, c.n, tree if 'err' in tree else 'ok', flat.get('err'))
            if flat['strict'] and not flat['wf']:
                bad += 1
                print('strict but not wf:', ids)
    for k in sorted(stats):
        print('%6d  %s' % (stats[k], k))
    print('FLATCHECK', 'FAIL' if bad else 'PASS', done, 'templates')
    return 1 if bad else 0


if __name__ == '__main__':
    sys.exit(main())
