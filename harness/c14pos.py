"""
C14, stream `positions`: a descriptor that is in no table, placed at every kind of position the template walk
reaches, must make decoding fail with UnknownDescriptor — and only the positions the walk does not reach (members
of a delayed replication whose count is 0) or skips by rule (the single descriptor after 206YYY: FM-94 makes ANY
descriptor there a skipped local field of YYY bits) may leave it unnoticed.

A case = SCOPE x CONTAINER x unknown-id CLASS x compression:
  scope      what is in force where the unknown descriptor stands: nothing; first / middle / last of a 221YYY range,
             right after the range, in a replication or a sequence that lies in the range, after a 206 inside the range;
             between 203YYY and 203255 (first / later), while new reference values are in force, after 203000;
             the descriptor after 206YYY (skipped by rule) and the one after that; under 204YYY (single, nested, after
             cancellation); under 201, 202, 201+202, 207, 208; after 205YYY; in a bitmap definition in place of 031031
             (first bit, later bit, replicated fixed / delayed, with 236000, under 222/223/224/232); in place of the class-33
             element that 222000 announces (replicated / direct / after 237000 recall); in place of 008023 after 224000;
             in place of a marker operator's replication member.
  container  top level (middle / first / last descriptor), fixed replication (1 and 3 passes), delayed replication with
             count 1, 2, 0 (NOT reached) and a 1-bit factor, fixed-in-delayed, delayed-in-fixed, member of a Table D
             sequence, sequence in sequence, replication in sequence, sequence in replication; and the factor position of
             a delayed replication.
  class      element of class 0, 1-9, 10-30, 31, 33, local class 48-63, local Y (192-255) of a WMO class; sequence of a
             WMO category and of a local category.
The sequences live in a scratch table root (bundled master version 33 + a generated local Table D for centre 98).

Construction: the BASE message has a known placeholder in the slot; its values come from the model's generate mode, its
data bits from the model encoder, the message octets are put together here (edition 4) — pybufrkit's Encoder is not
involved.  The base message must decode identically by implementation and model.  The PATCHED message is the base
message with the one section-3 descriptor exchanged.  Observations of the implementation: plain Decoder and Decoder with
compiled templates, wire_template_data False and (whenever decoding gets through) True.
Checks: (1) error family implementation == model (`wire` op = decode + wiring, `dec-data-compiled`); values / labels
too when both decode; (2) direct oracle on the implementation alone: reached => UnknownDescriptor from every decoder,
whatever the wiring flag; not reached => no error, the values of the base message.
"""
import json
import os
import shutil
import tempfile

from harness import core, tables_io
from harness import coder_io as C
from harness import coderprops as P

UNK = 'err:lib:unknown-descriptor'

# known Table B elements of master version 33 used as scaffolding (widths are checked against the table at run time)
E7, E10, T16, CODE, STR = 1001, 1002, 12101, 2001, 1015
WIDTHS = {E7: 7, E10: 10, T16: 16, CODE: 2, STR: 160, 31001: 8, 31000: 1, 31002: 16, 31031: 1, 31021: 6, 33007: 7, 8023: 6}

SLOT = -1


class Scope(object):
    def __init__(self, name, pre, post, ph=T16, reached=True, quick=True):
        self.name, self.pre, self.post, self.ph, self.reached, self.quick = name, pre, post, ph, reached, quick


BM = [E7, E10]          # two elements for a bitmap to refer back to

SCOPES = [
    Scope('plain', [], []),
    # 221YYY data not present
    Scope('221-first', [221002], [T16]),
    Scope('221-middle', [221003, E7], [T16]),
    Scope('221-last', [221002, E7], []),
    Scope('221-only', [221001], []),
    Scope('221-after-range', [221001, T16], []),
    # (a range that ends inside a replication of several passes is left out: there the compiled walk, which counts the
    #  range once at compile time, and the plain walk already differ on known descriptors — C08's business)
    Scope('221-over-replication', [221003, E7, 101001], []),
    Scope('221-over-delayed-replication', [221003, E7, 101000, 31000], []),
    # 221 does not suppress the unknown descriptor (it is no Table B element), so the 206 applies to it, as it does to a
    # known element of class 1-9 (placeholder); a known element of another class is suppressed BEFORE the 206 is looked at
    Scope('221-then-206', [221002, 206008], [], ph=E10, reached=False),
    Scope('221-in-201', [201130, 221002, E7], [201000]),
    # 203YYY new reference values
    Scope('203-definition-first', [203012], [203255, T16, 203000]),
    Scope('203-definition-later', [203012, T16], [203255, T16, 203000]),
    Scope('203-in-force', [203012, T16, 203255], [T16, 203000]),
    Scope('203-cancelled', [203012, T16, 203255, T16, 203000], []),
    Scope('203-definition-in-221', [221003, 203012], [203255, 203000]),
    # 206YYY skipped local descriptor
    Scope('206-skipped', [206008], [], reached=False),
    Scope('206-skipped-wide', [206024], [], reached=False),
    Scope('206-second-after', [206008, E7], []),
    Scope('206-in-204', [204004, 31021, 206008], [204000], reached=False, quick=False),
    # 204YYY associated field
    Scope('204', [204008, 31021], [T16, 204000]),
    Scope('204-nested', [204004, 31021, 204002, 31021], [204000, 204000]),
    Scope('204-cancelled', [204008, 31021, T16, 204000], []),
    # 201 / 202 / 207 / 208 / 205
    Scope('201', [201130], [201000]),
    Scope('202', [202129], [202000]),
    Scope('201+202', [201132, 202130, T16], [202000, 201000]),
    Scope('207', [207002], [207000]),
    Scope('208', [208004], [208000], ph=STR),
    Scope('205', [205002], []),
    # bitmap definition: the slot replaces a 031031
    Scope('bitmap-222-replicated', BM + [222000, 101002], [101002, 33007], ph=31031),
    # listed directly, the first descriptor after 222000 only starts the definition (it is not counted as a bit)
    Scope('bitmap-222-first-bit', BM + [222000], [31031, 31031, 101002, 33007], ph=31031),
    Scope('bitmap-222-later-bit', BM + [222000, 31031, 31031], [101002, 33007], ph=31031),
    Scope('bitmap-222-236000', BM + [222000, 236000, 101002], [101002, 33007], ph=31031),
    Scope('bitmap-222-delayed', BM + [222000, 101000, 31002], [101002, 33007], ph=31031),
    Scope('bitmap-223', BM + [223000, 101002], [101002, 223255], ph=31031),
    Scope('bitmap-224', BM + [224000, 101002], [8023, 101002, 224255], ph=31031),
    Scope('bitmap-232', BM + [232000, 101002], [101002, 232255], ph=31031),
    # after the bitmap: the element that carries the quality information / the meaning / the marker
    Scope('222-target-replicated', BM + [222000, 101002, 31031, 101002], [], ph=33007),
    Scope('222-target-direct', BM + [222000, 101002, 31031], [33007], ph=33007),
    Scope('222-target-second', BM + [222000, 101002, 31031, 33007], [], ph=33007),
    Scope('222-target-after-237000', BM + [222000, 236000, 101002, 31031, 101002, 33007, 222000, 237000, 101002], [], ph=33007),
    Scope('224-meaning', BM + [224000, 101002, 31031], [101002, 224255], ph=8023),
    Scope('223-marker-position', BM + [223000, 101002, 31031, 101002], [], ph=223255),
    Scope('after-235000', BM + [222000, 101002, 31031, 101002, 33007, 235000], []),
]


class Container(object):
    def __init__(self, name, wrap, reached=True, count=1, quick=True):
        self.name, self.wrap, self.reached, self.count, self.quick = name, wrap, reached, count, quick


def rep(x, y):
    assert 1 <= x <= 63, x
    return 100000 + 1000 * x + y


CONTAINERS = [
    Container('top', lambda b, row: [E7] + b + [E10]),
    Container('top-first', lambda b, row: b + [E10], quick=False),
    Container('top-last', lambda b, row: [E7] + b, quick=False),
    Container('fixed-1', lambda b, row: [E7, rep(len(b), 1)] + b + [E10]),
    Container('fixed-3', lambda b, row: [rep(len(b), 3)] + b + [E10]),
    Container('delayed-1', lambda b, row: [E7, rep(len(b), 0), 31001] + b + [E10]),
    Container('delayed-2', lambda b, row: [rep(len(b), 0), 31001] + b, count=2),
    Container('delayed-0', lambda b, row: [E7, rep(len(b), 0), 31001] + b + [E10], reached=False, count=0),
    Container('delayed-1bit-factor', lambda b, row: [rep(len(b), 0), 31000] + b + [E10], quick=False),
    Container('fixed-in-delayed', lambda b, row: [rep(len(b) + 1, 0), 31001, rep(len(b), 2)] + b, count=2),
    Container('delayed-in-fixed', lambda b, row: [rep(len(b) + 2, 2), rep(len(b), 0), 31001] + b + [E10]),
    Container('delayed-0-in-fixed', lambda b, row: [rep(len(b) + 2, 2), rep(len(b), 0), 31001] + b + [E10], reached=False, count=0,
              quick=False),
    Container('sequence', lambda b, row: [E7, row(b), E10]),
    Container('sequence-in-sequence', lambda b, row: [row([E10, row(b), E7])]),
    Container('replication-in-sequence', lambda b, row: [row([E7, rep(len(b), 2)] + b)]),
    Container('sequence-in-replication', lambda b, row: [101002, row(b), E10]),
    Container('sequence-in-delayed-0', lambda b, row: [101000, 31001, row(b), E10], reached=False, count=0, quick=False),
]

# the unknown descriptor stands for the FACTOR of a delayed replication (only the plain surroundings make sense)
FACTOR_SCOPES = [
    Scope('factor', [101000], [T16], ph=31001),
    Scope('factor-of-empty-replication', [E7, 101000], [T16], ph=31001),
    Scope('factor-at-end-of-221', [221002, E7, 101000], [T16], ph=31001),
    Scope('factor-in-221', [221003, E7, 101000], [T16], ph=31000),        # one pass (1-bit factor forced to 1): see 221 above
    Scope('factor-in-204', [204008, 31021, 101000], [T16, 204000], ph=31001),
    # (the whole replication is the skipped field; wiring such a template fails on known descriptors too)
    Scope('factor-after-206', [206008, 101000], [T16], ph=31001, reached=False, quick=False),
    Scope('factor-of-bitmap-replication', BM + [222000, 101000], [31031, 101002, 33007], ph=31002),
]

CLASSES = [
    # name, F, candidate X, candidate Y
    ('element-class-0', 0, [0], range(100, 256)),
    ('element-class-1-9', 0, range(1, 10), range(100, 192)),
    ('element-class-1-9-local-y', 0, range(1, 10), range(192, 256)),
    ('element-class-10-30', 0, range(10, 31), range(100, 256)),
    ('element-class-31', 0, [31], range(40, 256)),
    ('element-class-33', 0, [33], range(100, 256)),
    ('element-class-48-63', 0, range(48, 64), range(1, 256)),
    ('sequence', 3, range(0, 48), range(100, 256)),
    ('sequence-class-48-63', 3, range(48, 64), range(1, 256)),
]


class PCase(object):
    __slots__ = ('scope', 'container', 'klass', 'uid', 'base_ids', 'ids', 'k', 'reached', 'comp', 'n', 'forced',
                 'valss', 'bits', 'note', 'base_msg', 'msg', 'base_obs')

    def label(self):
        return '%s / %s / %s %06d%s' % (self.scope, self.container, self.klass, self.uid, ' / compressed' if self.comp else '')

    def replay(self):
        return {'positions': True, 'scope': self.scope, 'container': self.container, 'class': self.klass, 'unknown_id': self.uid,
                'base_ids': self.base_ids, 'ids': self.ids, 'reached': self.reached, 'compressed': self.comp, 'n_subsets': self.n,
                'values': self.valss, 'bits': self.bits, 'message_hex': self.msg.hex() if self.msg else None}


# ---------------------------------------------------------------------------------------------
class Rows(object):
    """local Table D rows allocated by content"""

    def __init__(self, taken):
        self.by_content = {}
        self.free = [300000 + 1000 * x + y for x in range(50, 63) for y in range(1, 250)
                     if 300000 + 1000 * x + y not in taken]
        self.free.reverse()

    def __call__(self, members):
        key = tuple(members)
        if key not in self.by_content:
            self.by_content[key] = self.free.pop()
        return self.by_content[key]

    def table(self):
        return {'%06d' % i: ['C14 POSITIONS %06d' % i, ['%06d' % m for m in ms]] for ms, i in self.by_content.items()}


def pick_unknown(rng, b, d, reserved):
    out = []
    for name, f, xs, ys in CLASSES:
        xs, ys = list(xs), list(ys)
        for _ in range(1000):
            i = f * 100000 + rng.choice(xs) * 1000 + rng.choice(ys)
            if i not in b and i not in d and i not in reserved:
                break
        else:
            raise core.MachineryError('no unknown id for ' + name)
        out.append((name, i))
    return out


def extra_entry_ids():
    """ids defined by in-stream table entries registered in this process (none unless a table-definition message was
    decoded / add_extra_entries was called): part of every table group the implementation builds from now on"""
    from pybufrkit.tables import TableGroupCacheManager
    cache = getattr(TableGroupCacheManager, '_TABLE_GROUP_CACHE', None)
    out = set()
    for name in ('extra_b_entries', 'extra_d_entries'):
        out.update(int(k) for k in (getattr(cache, name, None) or {}))
    return out


def verify_unknown(tables, uids):
    """every id that stands for 'in no table' is checked against the merged Table B / D of the table group the messages
    resolve to (master version + the scratch local tables, as installed) and against the in-stream extra entries"""
    b, d = tables
    extra = extra_entry_ids()
    for uid in uids:
        if uid in b or uid in d or uid in extra:
            raise core.MachineryError('positions: the id %06d chosen as "in no table" is defined (%s)' % (
                uid, 'Table B' if uid in b else 'Table D / scratch rows' if uid in d else 'in-stream extra entries'))


def build_case(scope, cont, klass, uid, comp, row, factor=False):
    def ids_with(slot):
        body = scope.pre + [slot] + scope.post
        return cont.wrap(body, row)
    c = PCase()
    c.scope, c.container, c.klass, c.uid = scope.name, cont.name, klass, uid
    c.base_ids, c.ids = ids_with(scope.ph), ids_with(uid)
    diff = [i for i, (a, b) in enumerate(zip(c.base_ids, c.ids)) if a != b]
    assert len(c.base_ids) == len(c.ids) and len(diff) == 1, (c.base_ids, c.ids)
    c.k = diff[0]
    c.reached = scope.reached and cont.reached
    c.comp = comp
    c.n = 2
    cnt = cont.count
    c.forced = [[31031, [0] * 64], [31002, [2] * 32], [31000, [1] * 32],
                [31001, [cnt] * 64]]
    c.valss = c.bits = c.msg = c.base_msg = c.base_obs = None
    c.note = ''
    return c


def plan(rng, tier, unknown, row):
    """the cases of this run.  thorough: the full product.  quick: every scope x every class at top level (both
    compressions alternate), every quick scope x every quick container with the classes cycling, every container x every
    class under the plain scope and under the first 221 scope; factor positions x every class."""
    cases = []
    top = CONTAINERS[0]
    nk = len(unknown)
    if tier != 'quick':
        for si, s in enumerate(SCOPES):
            for ci, ct in enumerate(CONTAINERS):
                for ki, (kn, uid) in enumerate(unknown):
                    for comp in (False, True):
                        cases.append(build_case(s, ct, kn, uid, comp, row))
    else:
        seen = set()

        def add(s, ct, ki, comp):
            key = (s.name, ct.name, ki, comp)
            if key not in seen:
                seen.add(key)
                cases.append(build_case(s, ct, unknown[ki][0], unknown[ki][1], comp, row))
        off = rng.randrange(nk)
        for si, s in enumerate(SCOPES):
            for ki in range(nk):
                add(s, top, ki, (si + ki + off) % 2 == 0)
        for si, s in enumerate(SCOPES):
            if not s.quick:
                continue
            for ci, ct in enumerate(CONTAINERS):
                if not ct.quick:
                    continue
                ki = (si + 3 * ci + off) % nk
                add(s, ct, ki, (si + ci + off) % 2 == 1)
                add(s, ct, (ki + 4) % nk, (si + ci + off) % 2 == 0)
        for s in (SCOPES[0], SCOPES[2]):
            for ci, ct in enumerate(CONTAINERS):
                for ki in range(nk):
                    add(s, ct, ki, (ci + ki + off) % 2 == 0)
    for si, s in enumerate(FACTOR_SCOPES):
        if tier == 'quick' and not s.quick:
            continue
        for ci, ct in enumerate(CONTAINERS):
            if ct.name not in ('top', 'fixed-3', 'delayed-2', 'delayed-0', 'sequence') and tier == 'quick':
                continue
            for ki, (kn, uid) in enumerate(unknown):
                for comp in ((False, True) if tier != 'quick' else ((si + ci + ki) % 2 == 0,)):
                    cases.append(build_case(s, ct, kn, uid, comp, row, factor=True))
    return cases


# ---------------------------------------------------------------------------------------------
def be(value, nbytes):
    return int(value).to_bytes(nbytes, 'big')


def assemble(ids, n_subsets, compressed, bits, local_version=1):
    """BUFR edition 4 message, master table version 33, centre 98 / sub-centre 0"""
    s1 = (be(22, 3) + be(0, 1) + be(98, 2) + be(0, 2) + be(0, 1) + be(0, 1) + be(2, 1) + be(4, 1) + be(0, 1) +
          be(C.DEFAULT_VERSION, 1) + be(local_version, 1) + be(2020, 2) + be(5, 1) + be(6, 1) + be(7, 1) + be(8, 1) + be(9, 1))
    ds = b''.join(be(((i // 100000) << 14) | ((i // 1000 % 100) << 8) | (i % 1000), 2) for i in ids)
    s3 = be(7 + len(ds), 3) + be(0, 1) + be(n_subsets, 2) + be(0x80 | (0x40 if compressed else 0), 1) + ds
    nb = (len(bits) + 7) // 8
    data = int(bits + '0' * (nb * 8 - len(bits)), 2).to_bytes(nb, 'big') if nb else b''
    s4 = be(4 + nb, 3) + be(0, 1) + data
    body = s1 + s3 + s4 + b'7777'
    return b'BUFR' + be(8 + len(body), 3) + be(4, 1) + body


def impl_observe(b, root, compiled):
    """-> {'dec': tag, 'subsets': [...] | None, 'wire': tag | None, 'dec_wired': tag | None}
    dec: Decoder.process(wire_template_data=False); when that gets through, wire = family of a second, separate
    Decoder.process(wire_template_data=True) (decoding is deterministic, so a failure there is the wiring's)."""
    from pybufrkit.decoder import Decoder
    kw = {'tables_root_dir': root}
    if compiled:
        kw['compiled_template_cache_max'] = 8
    out = {'dec': None, 'subsets': None, 'wire': None}
    try:
        msg = Decoder(**kw).process(b, wire_template_data=False)
    except Exception as e:  # noqa
        out['dec'] = core.err_tag(e)
        out['exc'] = '%s: %s' % (type(e).__name__, str(e)[:120])
        return out
    out['dec'] = 'ok'
    td = msg.template_data.value
    out['subsets'] = [{'d': [str(d) for d in td.decoded_descriptors_all_subsets[i]],
                       'v': list(td.decoded_values_all_subsets[i]),
                       'l': sorted([a, o] for a, o in td.bitmap_links_all_subsets[i].items())}
                      for i in range(msg.n_subsets.value)]
    try:
        Decoder(**kw).process(b, wire_template_data=True)
        out['wire'] = 'ok'
    except Exception as e:  # noqa
        out['wire'] = core.err_tag(e)
        out['wire_exc'] = '%s: %s' % (type(e).__name__, str(e)[:120])
    return out


def model_requests(c, ids):
    q = {'ids': ids, 'compressed': c.comp, 'n': c.n, 'bits': c.bits}
    return [dict(q, op='wire'), dict(q, op='dec-data-compiled')]


def model_tags(rw, rc):
    """(decode family, wiring family or None, compiled decode family)"""
    dec = C.model_err(rw)
    wire = None
    if dec == 'ok':
        w = rw.get('wire')
        wire = ('err:' + w['err']) if isinstance(w, dict) and 'err' in w else 'ok'
    return dec, wire, C.model_err(rc)


def compare(c, obs_plain, obs_comp, rw, rc):
    """-> (oracle message or None, correspondence message or None)"""
    mdec, mwire, mcomp = model_tags(rw, rc)
    # (2) the property on the implementation alone
    omsg = None
    for name, o in (('plain decoder', obs_plain), ('decoder with compiled templates', obs_comp)):
        if c.reached:
            if o['dec'] != UNK:
                if o['dec'] == 'ok':
                    omsg = '%s: decoding goes through (wire_template_data=False; with True: %s)' % (name, o['wire'])
                else:
                    omsg = '%s: %s (%s) instead of UnknownDescriptor' % (name, o['dec'], o.get('exc'))
                break
        else:
            if o['dec'] not in ('ok', UNK):
                omsg = '%s: %s (%s) on a descriptor the walk does not reach / skips by rule' % (name, o['dec'], o.get('exc'))
                break
    # (1) model vs implementation
    cmsg = None
    if obs_plain['dec'] != mdec:
        cmsg = 'plain decoder %s (%s), model %s' % (obs_plain['dec'], obs_plain.get('exc'), mdec)
    elif obs_comp['dec'] != mcomp:
        cmsg = 'decoder with compiled templates %s (%s), model %s' % (obs_comp['dec'], obs_comp.get('exc'), mcomp)
    elif mdec == 'ok':
        why = P.compare_decode(('ok', obs_plain['subsets'], 0), rw)
        if why is None and mcomp == 'ok':
            why = P.compare_decode(('ok', obs_comp['subsets'], 0), rc)
        if why:
            cmsg = why
        elif obs_plain['wire'] != mwire:
            cmsg = 'wiring (wire_template_data=True) %s (%s), model %s' % (obs_plain['wire'], obs_plain.get('wire_exc'), mwire)
        elif mcomp == 'ok' and obs_comp['wire'] != mwire:
            cmsg = 'wiring after the compiled decode %s (%s), model %s' % (obs_comp['wire'], obs_comp.get('wire_exc'), mwire)
    return omsg, cmsg


# ---------------------------------------------------------------------------------------------
class Bench(object):
    """scratch table root + model table request"""

    def __init__(self):
        self.root = tempfile.mkdtemp(prefix='c14-pos-', dir='/tmp')
        self.treq = None

    def install(self, rows):
        src = os.path.join(tables_io.tables_root(), '0', '0_0', str(C.DEFAULT_VERSION))
        os.makedirs(os.path.join(self.root, '0', '0_0'))
        os.symlink(src, os.path.join(self.root, '0', '0_0', str(C.DEFAULT_VERSION)))
        loc = os.path.join(self.root, '0', '98_0', '1')
        os.makedirs(loc)
        with open(os.path.join(loc, 'TableB.json'), 'w') as f:
            json.dump({}, f)
        with open(os.path.join(loc, 'TableD.json'), 'w') as f:
            json.dump(rows, f)
        b, d = tables_io.read_group(('0', '0_0', str(C.DEFAULT_VERSION)), ('0', '98_0', '1'), root=self.root)
        self.treq = tables_io.tables_request(b, d)
        return b, d

    def close(self):
        shutil.rmtree(self.root, ignore_errors=True)


def prepare(ctx, bench, cases, rng):
    """values, bits and messages of the cases; returns the cases with a valid base message"""
    drv = ctx.driver
    res = drv.batch([bench.treq] + [{'op': 'gen-data', 'ids': c.base_ids, 'n': c.n, 'shared': c.comp,
                                    'rnd': format(rng.getrandbits(1500), '01500b'), 'force': c.forced} for c in cases])[1:]
    ok = []
    for c, r in zip(cases, res):
        if 'err' in r:
            c.note = 'gen:' + r['err']
            ctx.count('positions-base-not-generated')
            continue
        c.valss = r['vals']
        ok.append(c)
    res = drv.batch([bench.treq] + [{'op': 'enc-data', 'ids': c.base_ids, 'compressed': c.comp, 'vals': c.valss} for c in ok])[1:]
    out = []
    for c, r in zip(ok, res):
        if 'err' in r:
            c.note = 'enc:' + r['err']
            ctx.count('positions-base-not-encoded')
            continue
        c.bits = r['bits']
        c.base_msg = assemble(c.base_ids, c.n, c.comp, c.bits)
        c.msg = assemble(c.ids, c.n, c.comp, c.bits)
        out.append(c)
    return out


def _observe(args):
    b, root = args
    return impl_observe(b, root, False), impl_observe(b, root, True)


def observe_all(msgs, root, pool=None):
    if pool is None:
        return [_observe((m, root)) for m in msgs]
    return pool.map(_observe, [(m, root) for m in msgs], chunksize=16)


def evaluate(ctx, bench, cases, pool=None):
    """runs base + patched messages of the cases through implementation and model; yields (case, omsg, cmsg, detail)"""
    drv = ctx.driver
    reqs = [bench.treq]
    for c in cases:
        reqs += model_requests(c, c.base_ids) + model_requests(c, c.ids)
    res = drv.batch(reqs)[1:]
    obs = observe_all([m for c in cases for m in (c.base_msg, c.msg)], bench.root, pool)
    out = []
    for i, c in enumerate(cases):
        bw, bc, pw, pc = res[4 * i: 4 * i + 4]
        (bop, boc), (pop, poc) = obs[2 * i], obs[2 * i + 1]
        # the base message: everything known, must decode on both sides and agree
        base_problem = None
        if bop['dec'] != 'ok' or boc['dec'] != 'ok':
            base_problem = 'implementation %s / %s (%s)' % (bop['dec'], boc['dec'], bop.get('exc') or boc.get('exc'))
        else:
            base = PCase()
            base.reached = False
            _, base_problem = compare(base, bop, boc, bw, bc)
        if base_problem:
            out.append((c, None, None, {'base_problem': base_problem}))
            continue
        omsg, cmsg = compare(c, pop, poc, pw, pc)
        if omsg is None and not c.reached and pop['dec'] == 'ok':
            # skipped by rule / not reached: the other values are those of the base message
            for name, o, bo in (('plain', pop, bop), ('compiled', poc, boc)):
                if o['dec'] == 'ok' and [x['v'] for x in o['subsets']] != [x['v'] for x in bo['subsets']]:
                    omsg = '%s decoder: values differ from those of the message with a known descriptor in that place' % name
        out.append((c, omsg, cmsg, {'plain': {k: v for k, v in pop.items() if k != 'subsets'},
                                    'compiled': {k: v for k, v in poc.items() if k != 'subsets'},
                                    'model': list(model_tags(pw, pc))}))
    return out


# ---------------------------------------------------------------------------------------------
def signature(c, omsg, det):
    obs = det.get('plain', {}).get('dec')
    if obs == UNK:
        obs = det.get('compiled', {}).get('dec')
    return {'kind': 'unknown-position', 'scope': c.scope, 'descriptor': 'sequence' if c.uid >= 300000 else 'element', 'observed': obs,
            'reached': c.reached, 'what': 'property' if omsg else 'correspondence'}


def describe(c, omsg, cmsg):
    where = ('a position the walk reaches' if c.reached else
             'a position the walk does not reach (zero-count replication) or skips by rule (after 206YYY)')
    return ('descriptor %06d (in no table; %s) in scope %s, container %s, %s, %s: %s; descriptors %s' % (
        c.uid, c.klass, c.scope, c.container, 'compressed' if c.comp else 'uncompressed', where,
        omsg or ('implementation and model disagree: ' + cmsg), c.ids))


def run(ctx):
    import multiprocessing
    rng = ctx.rng('positions')
    b, d = tables_io.read_group(('0', '0_0', str(C.DEFAULT_VERSION)))
    for i, w in WIDTHS.items():
        if i not in b or int(b[i][4]) != w:
            raise core.MachineryError('scaffolding element %06d is not %d bits wide in master version %d' % (i, w, C.DEFAULT_VERSION))
    unknown = pick_unknown(rng, b, d, extra_entry_ids())
    # the scratch Table D rows must not take an id that stands for 'in no table' (they did: seeds 6, 9, 11)
    rows = Rows(set(d) | set(uid for _, uid in unknown))
    cases = plan(rng, ctx.tier, unknown, rows)
    bench = Bench()
    pool = multiprocessing.Pool(12)
    try:
        verify_unknown(bench.install(rows.table()), [uid for _, uid in unknown])
        ready = prepare(ctx, bench, cases, rng)
        for c in cases:
            if c.note:
                # the scaffolding is fixed: a base template the model cannot generate / encode is a harness fault
                raise core.MachineryError('positions: no base message for %s (%s): %s' % (c.label(), c.note, c.base_ids))
        results = evaluate(ctx, bench, ready, pool)
        shrunk = set()
        for c, omsg, cmsg, det in results:
            ctx.case({'positions': [c.scope, c.container, c.klass, c.comp], 'ids': c.ids}, nontrivial=True,
                     sample=(c.scope == '221-middle' and c.container == 'fixed-3' and len(ctx.samples) < 6))
            ctx.traces += 1
            ctx.count('positions')
            ctx.count('positions-' + ('reached' if c.reached else 'not-reached-or-skipped-by-rule'))
            ctx.count('positions-scope:' + c.scope.split('-')[0])
            ctx.count('positions-class:' + c.klass)
            ctx.count('positions-container:' + c.container)
            ctx.count('positions-compressed' if c.comp else 'positions-uncompressed')
            if 'base_problem' in det:
                ctx.violation('positions: the message with every descriptor known (%s) is not decoded alike by implementation and '
                              'model: %s' % (c.base_ids, det['base_problem']),
                              dict(c.replay(), base=True, why=det['base_problem']),
                              signature={'kind': 'unknown-position-baseline', 'scope': c.scope})
                continue
            if not (omsg or cmsg):
                continue
            sig = signature(c, omsg, det)
            key = json.dumps(sig, sort_keys=True)
            rep, what = c, describe(c, omsg, cmsg)
            if key not in shrunk and (c.container != 'top' or c.comp):
                # the smallest message of the same scope and class: top level, uncompressed
                shrunk.add(key)
                scope = [s for s in SCOPES + FACTOR_SCOPES if s.name == c.scope][0]
                small = build_case(scope, CONTAINERS[0], c.klass, c.uid, False, rows)     # `top` needs no Table D row
                got = evaluate(ctx, bench, prepare(ctx, bench, [small], rng))
                if got and (got[0][1] or got[0][2]) and 'base_problem' not in got[0][3]:
                    rep, what = small, describe(small, got[0][1], got[0][2])
                    det = got[0][3]
            ctx.violation(what, dict(rep.replay(), observed=det), signature=sig)
    finally:
        pool.close()
        pool.join()
        bench.close()


def replay(ctx, r):
    """re-runs a recorded case (the scratch Table D rows are rebuilt from the recorded scope / container)"""
    b, d = tables_io.read_group(('0', '0_0', str(C.DEFAULT_VERSION)))
    rows = Rows(set(d) | {r['unknown_id']})
    scope = [s for s in SCOPES + FACTOR_SCOPES if s.name == r['scope']][0]
    cont = [k for k in CONTAINERS if k.name == r['container']][0]
    c = build_case(scope, cont, r['class'], r['unknown_id'], r['compressed'], rows)
    bench = Bench()
    try:
        verify_unknown(bench.install(rows.table()), [r['unknown_id']])
        c.valss = r['values']
        res = ctx.driver.batch([bench.treq, {'op': 'enc-data', 'ids': c.base_ids, 'compressed': c.comp, 'vals': c.valss}])[1]
        if 'err' in res:
            raise core.MachineryError('replay: base message does not encode: ' + res['err'])
        c.bits = res['bits']
        c.base_msg = assemble(c.base_ids, c.n, c.comp, c.bits)
        c.msg = assemble(c.ids, c.n, c.comp, c.bits)
        (c, omsg, cmsg, det), = evaluate(ctx, bench, [c])
        ctx.case({'positions': [c.scope, c.container, c.klass, c.comp], 'ids': c.ids})
        print(json.dumps({'ids': c.ids, 'message_hex': c.msg.hex(), 'observed': det, 'oracle': omsg, 'correspondence': cmsg}))
        if 'base_problem' in det:
            ctx.violation('positions: base message: ' + det['base_problem'], r, signature={'kind': 'unknown-position-baseline', 'scope': c.scope})
        elif omsg or cmsg:
            ctx.violation(describe(c, omsg, cmsg), r, signature=signature(c, omsg, det))
    finally:
        bench.close()
