"""
C09 generator for what the hierarchical view depends on BESIDES the list of decoded descriptors: messages with
several subsets whose bitmaps (031031 runs), bitmap-driven attribute counts and delayed replication counts are
chosen PER SUBSET.

The shared pipeline (coderprops.gen_cases / gen_values) repeats the imposed structural values - bitmap bits,
031002 counts - identically for every subset, so in its messages the attribute links of all subsets are the same
and a view that takes anything of a subset from its neighbour is indistinguishable from a correct one.  Here

  * the part of the template the bitmap refers to (`tail`) is a run of plain elements, fixed / delayed /
    nested replications (031001 counts imposed per subset: equal, varying, or a-b-a so that subsets 1 and 3 have
    the same descriptors and subset 2 other ones) and an associated-field block (closed before the operator);
  * a chain of 1-3 operators of every kind (222000 with class 33 values, 223/224/225/232 with their markers and
    008023 / 008024) defines a bitmap (101NNN or 101000 031002 replication of 031031, with or without 236000),
    recalls it (237000), re-defines it (same back references) or cancels (235000, 237255) and defines a new one;
  * the 031031 bits of every definition are imposed per subset: identical ('same'), a permutation of subset 1's
    bits ('perm': same number of zero bits, other owners), rotated ('rot'), or independent ('free': other numbers
    of zero bits); the attribute values are consumed by a fixed replication / unrolled (count = the smallest
    number of zero bits, so the descriptor lists stay identical while the bitmaps differ) or by a delayed
    replication whose 031002 count follows each subset's own number of zero bits.

Values come from the model's generate mode (`gen-data`), the imposed values being consumed in walk order, subset
after subset (compressed: one row, the model copies structural values into the other subsets).
"""
from harness import coder_io as C
from harness import coderprops as P

KINDS = (222, 223, 224, 225, 232)
BIT_MODES = ('same', 'perm', 'perm', 'rot', 'free', 'free')


class BitmapCase(P.Case):
    __slots__ = ('info', 'rnd')


class BitmapGen(object):
    def __init__(self, rng):
        self.rng = rng
        self.tg = C.TemplateGen(rng, level=0)
        tg = self.tg
        self.plain_numeric = [i for i in tg.numeric if i // 1000 != 33]
        self.plain_code = [i for i in tg.codeflag if i // 1000 != 33]
        self.q33 = tg.class33
        self.pool = None

    def plain(self):
        """one plain element that is not of class 31 / 33; from the case's small pool when it has one (repeated
        ids: a marker value is labelled with the id of its owner, so the decoded descriptors of two subsets whose
        bitmaps select different owners are equal only when those owners have the same id)"""
        if self.pool:
            return self.rng.choice(self.pool)
        return self.fresh_plain()

    def fresh_plain(self):
        r = self.rng.random()
        if r < 0.6:
            return self.rng.choice(self.plain_numeric)
        if r < 0.88:
            return self.rng.choice(self.plain_code)
        return self.rng.choice(self.tg.string)

    def plains(self, k):
        return [self.plain() for _ in range(k)]

    # -- the front: anything without imposed values (031000 factors are left to the generator: 0 or 1 per subset)
    def front(self):
        rng, tg = self.rng, self.tg
        parts = []
        for _ in range(rng.choice([0, 0, 1, 1, 2, 3])):
            r = rng.random()
            if r < 0.4:
                parts.append(tg.element())
            elif r < 0.6:
                body = self.plains(rng.randint(1, 2))
                parts.append([100000 + len(body) * 1000 + rng.randint(1, 3)] + body)
            elif r < 0.7:
                body = self.plains(rng.randint(1, 2))
                parts.append([100000 + len(body) * 1000, 31000] + body)
            else:
                parts.append([rng.choice(tg.small_seq)])
        return parts

    def counts(self, rows, slots):
        """delayed replication counts per row (subset) and slot: equal / varying / a-b-a"""
        rng = self.rng
        mode = rng.choice(['equal', 'equal', 'equal', 'vary', 'vary', 'aba'])
        a = [rng.randint(0, 3) for _ in range(slots)]
        if mode == 'equal' or rows == 1:
            return mode, [list(a) for _ in range(rows)]
        if mode == 'vary':
            return mode, [[rng.randint(0, 3) for _ in range(slots)] for _ in range(rows)]
        b = [(x + rng.randint(1, 3)) % 4 for x in a]
        return mode, [list(a if s % 2 == 0 else b) for s in range(rows)]

    # -- the tail: what the bitmap refers to.  -> (parts, plain items per row, 031001 values per row, description)
    def tail(self, rows):
        rng = self.rng
        shape = rng.choice(['plain', 'plain', 'drep', 'drep', 'drep2', 'frep', 'assoc', 'nested', 'factor-last'])
        parts = [[x] for x in self.plains(rng.randint(0, 2))]
        T = [len(parts)] * rows
        f31001 = [[] for _ in range(rows)]
        cmode = None
        if shape == 'plain':
            k = rng.randint(2, 8)
            parts += [[x] for x in self.plains(k)]
            T = [t + k for t in T]
        elif shape in ('drep', 'drep2', 'factor-last'):
            nrep = 2 if shape == 'drep2' else 1
            cmode, cnt = self.counts(rows, nrep)
            for j in range(nrep):
                body = self.plains(rng.randint(1, 2))
                parts.append([100000 + len(body) * 1000, 31001] + body)
                for s in range(rows):
                    f31001[s].append(cnt[s][j])
                    T[s] += 1 + len(body) * cnt[s][j]
                if shape != 'factor-last':
                    k = rng.randint(0 if j + 1 < nrep else 1, 2)
                    parts += [[x] for x in self.plains(k)]
                    T = [t + k for t in T]
        elif shape == 'frep':
            body = self.plains(rng.randint(1, 3))
            r = rng.randint(1, 3)
            parts.append([100000 + len(body) * 1000 + r] + body)
            k = rng.randint(0, 2)
            parts += [[x] for x in self.plains(k)]
            T = [t + r * len(body) + k for t in T]
        elif shape == 'assoc':
            body = self.plains(rng.randint(1, 3))
            parts.append([204000 + rng.randint(1, 8), 31021] + body + [204000])
            k = rng.randint(0, 2)
            parts += [[x] for x in self.plains(k)]
            T = [t + 1 + len(body) + k for t in T]
        elif shape == 'nested':
            inner = self.plains(rng.randint(1, 2))
            mid = [self.plain(), 100000 + len(inner) * 1000, 31001] + inner
            r = rng.randint(1, 2)
            parts.append([100000 + len(mid) * 1000 + r] + mid)
            cmode, cnt = self.counts(rows, r)
            for s in range(rows):
                for j in range(r):
                    f31001[s].append(cnt[s][j])
                    T[s] += 2 + len(inner) * cnt[s][j]
            k = rng.randint(0, 1)
            parts += [[x] for x in self.plains(k)]
            T = [t + k for t in T]
        return parts, T, f31001, {'tail': shape, 'counts': cmode}

    def bits_rows(self, N, rows, mode):
        """031031 values per row; every row differs from the row before it when the mode and N allow it"""
        rng = self.rng
        if N >= 2 and rng.random() < 0.9:
            z = rng.randint(1, N - 1)
            b0 = [0] * z + [1] * (N - z)
            rng.shuffle(b0)
        else:
            b0 = [rng.randint(0, 1) for _ in range(N)]
        out = [b0]
        for s in range(1, rows):
            prev = out[-1]
            b = list(prev)
            for _ in range(8):
                if mode == 'same':
                    break
                if mode == 'perm':
                    b = list(prev)
                    rng.shuffle(b)
                elif mode == 'rot':
                    k = rng.randint(1, max(1, N - 1))
                    b = prev[k:] + prev[:k]
                else:
                    b = [rng.randint(0, 1) for _ in range(N)]
                if b != prev:
                    break
            out.append(b)
        return out

    # -- the operators
    def chain(self, T, rows, first_kind):
        """-> (parts, 031002 values per row, 031031 values per row, description)"""
        rng = self.rng
        parts = []
        f31002 = [[] for _ in range(rows)]
        f31031 = [[] for _ in range(rows)]
        info = []
        cur = None
        limit = min(min(T), 10)
        steps = rng.choice([1, 1, 2, 2, 3])
        for k in range(steps):
            kind = first_kind if k == 0 else rng.choice(KINDS)
            ids = []
            d = {'kind': kind}
            recall = cur is not None and cur['reuse'] and not cur['cancelled'] and rng.random() < 0.6
            if cur is not None and not recall and rng.random() < 0.5:
                # cancel the back references, a fresh run of elements, a new window
                run = self.plains(rng.randint(1, 4))
                parts.append([235000])
                parts += [[x] for x in run]
                limit = len(run)
                cur = None
                d['after235'] = True
            ids.append(kind * 1000)
            if recall:
                ids.append(237000)
                d['mode'] = 'recall'
            else:
                N = cur['N'] if cur is not None else rng.randint(min(2, limit), limit)
                reuse = rng.random() < 0.5
                bmode = rng.choice(BIT_MODES)
                cur = {'N': N, 'reuse': reuse, 'cancelled': False, 'bits': self.bits_rows(N, rows, bmode)}
                if reuse:
                    ids.append(236000)
                if rng.random() < 0.5:
                    ids += [101000 + N, 31031]
                    d['bitrep'] = 'fixed'
                else:
                    ids += [101000, 31002, 31031]
                    d['bitrep'] = 'delayed'
                    for s in range(rows):
                        f31002[s].append(N)
                for s in range(rows):
                    f31031[s].extend(cur['bits'][s])
                d.update(mode='define', N=N, reuse=reuse, bits=bmode)
            zeros = [b.count(0) for b in cur['bits']]
            d['zeros'] = sorted(set(zeros))
            if kind == 222 and rng.random() < 0.3:
                ids += [1031, 1032]
            elif kind == 224:
                ids.append(8023)
            elif kind == 225:
                ids.append(8024)
            what = rng.choice(self.q33) if kind == 222 else kind * 1000 + 255
            r = rng.random()
            zmin = min(zeros)
            if r < 0.4:
                cons = 'delayed'
                ids += [101000, 31002, what]
                early = rng.random() < 0.15
                for s in range(rows):
                    f31002[s].append(rng.randint(0, zeros[s]) if early else zeros[s])
            else:
                c = zmin if rng.random() < 0.85 else rng.randint(0, zmin)
                if r < 0.8 or c > 4:
                    cons = 'fixed'
                    if c:
                        ids += [101000 + c, what]
                else:
                    cons = 'unrolled'
                    ids += [what] * c
                d['count'] = c
            d['consumers'] = cons
            if cur['reuse'] and rng.random() < 0.2:
                ids.append(237255)
                cur['cancelled'] = True
                d['post237255'] = True
            parts.append(ids)
            info.append(d)
        r = rng.random()
        if r < 0.15:
            parts.append([235000])
        if r < 0.35:
            parts.append([self.plain()])
        return parts, f31002, f31031, info

    def case(self, idx, n, comp, edition=4):
        rows = 1 if comp else n
        self.pool = None
        front = self.front()
        if self.rng.random() < 0.6:
            self.pool = [self.fresh_plain() for _ in range(self.rng.choice([1, 1, 2, 3]))]
        tparts, T, f31001, tinfo = self.tail(rows)
        cparts, f31002, f31031, cinfo = self.chain(T, rows, KINDS[idx % len(KINDS)])
        forced = [[31001, [v for s in range(rows) for v in f31001[s]]],
                  [31002, [v for s in range(rows) for v in f31002[s]]],
                  [31031, [v for s in range(rows) for v in f31031[s]]]]
        c = BitmapCase(front + tparts + cparts, [f for f in forced if f[1]], n, comp, edition, idx)
        c.info = dict(tinfo, chain=cinfo, pool=len(self.pool) if self.pool else 0)
        self.pool = None
        c.rnd = C.rnd_bits(self.rng, 9000)
        return c


def bitmap_cases(drv, treq, rng, count, compressed_share=0.15):
    """-> `count` BitmapCase with values (`valss`) from the model's generate mode; cases the generator refuses
    (c.note) are dropped"""
    g = BitmapGen(rng)
    cases = []
    for i in range(count):
        comp = rng.random() < compressed_share
        n = rng.choice([2, 2, 3, 3, 4]) if not comp else rng.randint(1, 3)
        cases.append(g.case(i, n, comp, rng.choice((4, 4, 3, 2))))
    reqs = [treq]
    for c in cases:
        reqs.append({'op': 'gen-data', 'ids': c.ids, 'n': c.n, 'shared': c.comp, 'rnd': c.rnd, 'force': c.forced})
    out = []
    refused = []
    for c, r in zip(cases, drv.batch(reqs)[1:]):
        if 'err' in r:
            c.note = 'gen:' + r['err']
            refused.append(c)
            continue
        c.valss = r['vals']
        out.append(c)
    return out, refused
