"""
C10 — operation HISTORIES on one message object (helper of harness/props/c10.py).

The property quantifies over messages x index collections; `BufrMessage.subset` is a method of a mutable object and
returns nested mutable lists, so "nothing else changes" is a statement about every sequence of operations, not about one
call consumed on the spot.  A history is a list of operations executed on ONE decoded message object with ONE Encoder and
ONE Decoder:

  {'op': 'subset', 'obj': k, 'rid': r, 'I': [...]}    result r := object k .subset(I)      (in range, refused, repeats,
                                                      an equal collection again, a subset of a subset when k > 0)
  {'op': 'encode', 'rid': r, 'derive': None|'decoded'|'encoder', 'oid': k'}
                                                      Decoder(Encoder(result r)) must hold exactly the rows of object k at
                                                      the sorted distinct indices of I (the oracle) - whenever it is encoded:
                                                      after later subset() calls, in any order, a second time (same bytes).
                                                      derive: the decoded message / the message object the Encoder returned
                                                      becomes object k' of the history (subset of a subset)
  {'op': 'mutate', 'rid': r, 'how': h}                the caller changes a list that belongs to result r (outer list, a section
                                                      list, the list of value lists); r is not used afterwards
  {'op': 'source', 'obj': k, 'how': 'render'|'reencode'}   flat JSON rendering / re-encoding of object k: as at the beginning

After EVERY operation: every message object is as it was when it entered the history (value lists, every parameter
value, serialized bytes), every result returned so far and not mutated by the caller is equal to what it was when it was
returned, and subset() left the caller's index list alone.  At the end every such result is compared, in the state it
has THEN, with the Lean model (`Msg.Subset.subset`, a pure function of (message, indices)); the state at return is compared
too.  A subset J of the message object the Encoder returned for subset(I) is also compared with the model's
subset of the PARENT at the composed indices (theorem C10_subset_compose).

Operations whose referent does not exist (result refused / mutated, object never derived) are skipped, so that any
sub-list of a history is a history (used for shrinking).
"""
import copy

from harness import core


def P():
    from harness.props import c10
    return c10


MUTATIONS = ('append-outer', 'append-section', 'set-n', 'flip-compressed', 'rows-append', 'rows-pop', 'rows-reverse', 'rows-clear',
             'set-data')


def snap(x):
    """structural copy of the nested lists (cells are immutable)"""
    if isinstance(x, list):
        return [snap(e) for e in x]
    return x


class Obj(object):
    """A message object taking part in a history, with what it looked like when it entered."""

    def __init__(self, st, oid, m, fields, interner, kind, origin=None, reencodable=True, reenc0=None):
        p = P()
        self.oid, self.m, self.fields, self.kind, self.origin = oid, m, fields, kind, origin
        self.rows0 = copy.deepcopy(m.template_data.value.decoded_values_all_subsets)
        self.n = m.n_subsets.value
        self.compressed = bool(m.is_compressed.value)
        self.meta0 = p.metadata(m)
        self.params0 = self.params()
        self.bytes0 = m.serialized_bytes
        self.render0 = p.render_hash(st, m)
        self.mm = p.msg_for_model(m, interner)
        # the re-encoding of the object when it entered the history (given, or taken at the first `reencode` operation):
        # what every later re-encoding is compared with
        self.reenc0 = reenc0
        self.reencodable = reencodable
        self.calls = []         # (rid or None, indices, what) sent to the model for this object
        self.pos = {}
        for si, section in enumerate(m.sections):
            for pi, prm in enumerate(section):
                if prm.type == 'template_data':
                    self.pos['data'] = (si, pi)
                elif prm.name in ('n_subsets', 'is_compressed'):
                    self.pos[prm.name] = (si, pi)

    def params(self):
        out = []
        for section in self.m.sections:
            for prm in section:
                out.append((prm.name, prm.type, id(prm.value) if prm.type == 'template_data' else snap(prm.value)))
        return out

    def changed(self, st, deep=False):
        """None, or what differs from the state at entry"""
        m = self.m
        try:
            if m.template_data.value.decoded_values_all_subsets != self.rows0:
                return 'value lists'
            if m.n_subsets.value != self.n:
                return 'n_subsets'
            if bool(m.is_compressed.value) != self.compressed:
                return 'is_compressed'
            if m.serialized_bytes is not self.bytes0 and m.serialized_bytes != self.bytes0:
                return 'serialized bytes'
            now = self.params()
            if now != self.params0:
                d = [a[0] for a, b in zip(self.params0, now) if a != b]
                return 'parameter values %r' % (d[:4] if len(now) == len(self.params0) else 'list of parameters',)
            if deep and P().render_hash(st, m) != self.render0:
                return 'flat JSON rendering'
        except Exception as e:
            return 'message object unusable (%s)' % type(e).__name__
        return None


class Res(object):
    def __init__(self, rid, obj, I):
        self.rid, self.obj, self.I = rid, obj, list(I)
        self.data = None
        self.tag = None
        self.ok = False
        self.snap = None
        self.canon0 = None
        self.dead = False       # mutated by the caller
        self.pinned = False     # the Encoder's message object built from it is an object of the history
        self.enc = []           # bytes of its encodings
        self.produced_at = None


def pick_collections(rng, n, tier):
    p = P()
    pool = p.collections(rng, n, tier)
    ok = [I for _, I in pool if p.in_range(I, n)]
    bad = [I for _, I in pool if not p.in_range(I, n)]
    return ok, bad


def plan(rng, n, tier):
    """A history for a message of n >= 1 subsets (deterministic in rng)."""
    quick = tier == 'quick'
    max_derived = 1 if quick else 2
    ok_all, bad = pick_collections(rng, n, tier)
    whole = [I for I in ok_all if len(set(I)) == n]
    part = [I for I in ok_all if len(set(I)) < n] or ok_all

    class Pick(object):
        """in-range collections; those that select every subset (the costly ones to encode) less often for larger messages"""
        def choice(self):
            if whole and rng.random() < (0.12 if n > 16 else 0.3):
                return rng.choice(whole)
            return rng.choice(part)
    okp = Pick()
    ops = []
    nxt = {'rid': 0, 'oid': 1}
    okres = []          # (rid, obj, distinct count) of in-range results in production order
    n_of = {0: n}

    def call(obj, I):
        rid = nxt['rid']
        nxt['rid'] += 1
        ops.append({'op': 'subset', 'obj': obj, 'rid': rid, 'I': list(I)})
        if all(0 <= i < n_of[obj] for i in I):
            okres.append((rid, obj, len(set(I))))
            return rid
        return None

    def source(obj=0, how=None):
        ops.append({'op': 'source', 'obj': obj, 'how': how or rng.choice(['render', 'reencode'])})

    # phase 1: several extractions from the one object, none consumed yet
    a = okp.choice()
    b = a
    for _ in range(8):
        b = okp.choice()
        if set(b) != set(a):
            break
    seq = [a]
    if rng.random() < 0.8:
        seq.append(rng.choice(bad))
    seq.append(b)
    if rng.random() < 0.65:
        seq.append(list(a))                     # an equal collection again, after the object was subset differently
    if rng.random() < (0.3 if quick else 0.5):
        seq.append(okp.choice())
    if rng.random() < 0.3:
        seq.insert(rng.randrange(1, len(seq)), rng.choice(bad))
    if rng.random() < 0.5:
        source(0, 'render')
    for k, I in enumerate(seq):
        call(0, I)
        if rng.random() < 0.2:
            source(0, 'render' if rng.random() < (0.85 if quick else 0.7) else 'reencode')
    # phase 2: consume in another order, more extractions in between
    order = [r for r, _, _ in okres]
    rng.shuffle(order)
    if len(order) > 1 and order == sorted(order) and rng.random() < 0.85:
        order.reverse()
    queue = [('encode', r) for r in order]
    encoded = []
    n_derived = 0
    n_mut = n_twice = 0
    distinct = dict((r, d) for r, _, d in okres)
    robj = dict((r, o) for r, o, _ in okres)
    steps = 0
    while queue and steps < 40:
        steps += 1
        kind, r = queue.pop(0)
        x = rng.random()
        if x < (0.15 if quick else 0.3) and steps < 12:
            I = okp.choice() if rng.random() < 0.75 else rng.choice(bad)
            rid = call(0, I)
            if rid is not None:
                distinct[rid], robj[rid] = len(set(I)), 0
                queue.insert(rng.randrange(len(queue) + 1), ('encode', rid))
        if rng.random() < 0.22 and distinct:
            cand = sorted(distinct)
            full = [q for q in cand if distinct[q] == n_of[robj[q]]]
            t = rng.choice(full) if full and rng.random() < 0.4 else rng.choice(cand)
            ops.append({'op': 'mutate', 'rid': t, 'how': rng.choice(MUTATIONS)})
            n_mut += 1
        derive, oid = None, None
        if n_derived < max_derived and distinct.get(r, 0) >= 1 and rng.random() < 0.4:
            derive = rng.choice(['decoded', 'encoder'])
            oid = nxt['oid']
            nxt['oid'] += 1
            n_derived += 1
        ops.append({'op': 'encode', 'rid': r, 'derive': derive, 'oid': oid})
        encoded.append(r)
        if derive:
            n2 = distinct[r]
            n_of[oid] = n2
            ok2, bad2 = pick_collections(rng, n2, 'quick')
            sub = [rng.choice(ok2)]
            if rng.random() < 0.5:
                sub.append(rng.choice(bad2))
            if rng.random() < 0.45:
                sub.append(rng.choice(ok2))
            if rng.random() < 0.25:
                sub.append(list(sub[0]))
            for J in sub:
                rid = call(oid, J)
                if rid is not None:
                    distinct[rid], robj[rid] = len(set(J)), oid
                    queue.insert(rng.randrange(len(queue) + 1), ('encode', rid))
            if rng.random() < 0.4:
                source(oid, 'render' if rng.random() < 0.75 else 'reencode')
        if encoded and rng.random() < 0.2:
            ops.append({'op': 'encode', 'rid': rng.choice(encoded), 'derive': None, 'oid': None})
            n_twice += 1
        if rng.random() < 0.25:
            source(rng.choice(sorted(n_of)), 'render' if rng.random() < (0.85 if quick else 0.7) else 'reencode')
    if not n_twice and encoded:
        ops.append({'op': 'encode', 'rid': rng.choice(encoded), 'derive': None, 'oid': None})
    if not n_mut and distinct:
        # a caller that changes one of the lists it got; another result of the same history is encoded afterwards
        t = rng.choice(sorted(distinct))
        ops.append({'op': 'mutate', 'rid': t, 'how': rng.choice(MUTATIONS)})
        others = [q for q in sorted(distinct) if q != t]
        if others:
            ops.append({'op': 'encode', 'rid': rng.choice(others), 'derive': None, 'oid': None})
    source(0, 'render')
    source(0, 'reencode')
    return ops


# ---------------------------------------------------------------------------------------------
def execute(st, m, fields, ops, reencodable=True, reenc0=None):
    """Run a history on the message object m.  Returns dict(problems, requests, expect, stats).
    problems: list of (kind, text, extra, op index); requests: model requests; expect: how to compare their answers."""
    p = P()
    interner = p.Interner()
    objs = {0: Obj(st, 0, m, fields, interner, 'decoded', reencodable=reencodable, reenc0=reenc0)}
    results = {}
    problems = []
    stats = {'subset': 0, 'subset refused': 0, 'subset equal collection again': 0, 'subset of a subset': 0, 'encode': 0,
             'encode after a later subset()': 0, 'encode out of production order': 0, 'encode same result again': 0,
             'mutate': 0, 'source render': 0, 'source reencode': 0, 'objects derived': 0, 'skipped ops': 0}
    last_subset_at = {}     # oid -> op index of the latest subset() call on it
    last_encoded_rid = {}   # oid -> rid encoded last
    seen_sets = {}          # oid -> list of index tuples called

    def add(kind, text, extra, k):
        problems.append((kind, text, dict(extra, history=True), k))

    def invariants(k, op):
        what = op['op'] + (':' + op['how'] if op.get('how') and op['op'] == 'mutate' else '')
        for o in objs.values():
            c = o.changed(st)
            if c:
                add('source-modified', 'message object %d (%s, n=%d): %s changed after op %d %s' % (o.oid, o.kind, o.n, c, k, brief_op(op)),
                    {'by': op['op']}, k)
                # re-baseline so that one modification is reported once
                o.rows0 = copy.deepcopy(o.m.template_data.value.decoded_values_all_subsets)
                o.params0 = o.params()
                o.bytes0 = o.m.serialized_bytes
                o.n, o.compressed = o.m.n_subsets.value, bool(o.m.is_compressed.value)
        for r in results.values():
            if r.ok and not r.dead and r.data != r.snap:
                add('result-changed', 'result %d = object %d .subset(%r) is no longer what was returned, after op %d %s%s' % (
                    r.rid, r.obj.oid, r.I[:12], k, brief_op(op), where_changed(r.snap, r.data)), {'by': op['op']}, k)
                r.snap = snap(r.data)

    for k, op in enumerate(ops):
        kind = op['op']
        if kind == 'subset':
            o = objs.get(op['obj'])
            if o is None:
                stats['skipped ops'] += 1
                continue
            I = list(op['I'])
            passed = list(I)
            r = Res(op['rid'], o, I)
            r.produced_at = k
            results[r.rid] = r
            stats['subset'] += 1
            if o.oid:
                stats['subset of a subset'] += 1
            if tuple(I) in seen_sets.setdefault(o.oid, []):
                stats['subset equal collection again'] += 1
            seen_sets[o.oid].append(tuple(I))
            rng_ok = p.in_range(I, o.n)
            try:
                r.data = o.m.subset(passed)
            except Exception as e:
                r.tag = core.err_tag(e)
                stats['subset refused'] += 1
                if rng_ok and I:
                    add('subset-raises', 'subset(%r) of a %d-subset message raised %s' % (I[:12], o.n, type(e).__name__), {}, k)
                elif I and not core.is_lib(r.tag):
                    add('refusal', 'out-of-range collection %r (n=%d) raised %s, not a PyBufrKitError' % (I[:12], o.n, type(e).__name__),
                        {'how': 'other-error'}, k)
            else:
                if not rng_ok:
                    add('refusal', 'out-of-range collection %r accepted for a %d-subset message' % (I[:12], o.n), {'how': 'accepted'}, k)
                else:
                    r.ok = True
                r.snap = snap(r.data)
                r.canon0 = p.canon_input(o.m, r.data, interner)
            if passed != I:
                add('argument-modified', 'subset() changed the caller\'s index list %r into %r' % (I[:12], passed[:12]), {}, k)
            o.calls.append((r.rid, I, 'call'))
            if o.origin and o.kind == 'encoder' and rng_ok:
                # subset J of (the Encoder's message for subset I of the parent) = subset (J mapped through sel_I) of the parent
                parent, selI = o.origin
                parent.calls.append((r.rid, [selI[j] for j in I], 'compose'))
            last_subset_at[o.oid] = k
        elif kind == 'encode':
            r = results.get(op['rid'])
            if r is None or not r.ok or r.dead or not r.obj.reencodable:
                stats['skipped ops'] += 1
                continue
            o = r.obj
            stats['encode'] += 1
            if last_subset_at.get(o.oid, -1) > r.produced_at:
                stats['encode after a later subset()'] += 1
            if last_encoded_rid.get(o.oid, -1) > r.rid:
                stats['encode out of production order'] += 1
            last_encoded_rid[o.oid] = r.rid
            pr, info = [], {}
            out = p.encode_decode_compare(st, r.data, o.rows0, o.fields, o.meta0, o.n, o.compressed, r.I, pr, info)
            for kd, text, extra in pr:
                add(kd, 'op %d (result %d of object %d, produced at op %d): %s' % (k, r.rid, o.oid, r.produced_at, text), extra, k)
            if out is not None:
                em, nb, m2, fields2 = out
                if r.enc:
                    stats['encode same result again'] += 1
                    if nb != r.enc[0]:
                        add('encode-twice', 'encoding result %d = subset(%r) again gives different bytes (%d vs %d)' % (
                            r.rid, r.I[:12], len(nb), len(r.enc[0])), {}, k)
                r.enc.append(nb)
                if op.get('derive') and op.get('oid') is not None and op['oid'] not in objs and not pr:
                    sel = sorted(set(r.I))
                    if op['derive'] == 'encoder':
                        objs[op['oid']] = Obj(st, op['oid'], em, fields2, interner, 'encoder', origin=(o, sel), reencodable=o.reencodable)
                        r.pinned = True
                    else:
                        objs[op['oid']] = Obj(st, op['oid'], m2, fields2, interner, 'decoded', origin=(o, sel), reencodable=o.reencodable)
                    stats['objects derived'] += 1
        elif kind == 'mutate':
            r = results.get(op['rid'])
            if r is None or not r.ok or r.dead or r.pinned:
                stats['skipped ops'] += 1
                continue
            if mutate(r, op['how']):
                r.dead = True
                stats['mutate'] += 1
            else:
                stats['skipped ops'] += 1
        elif kind == 'source':
            o = objs.get(op['obj'])
            if o is None:
                stats['skipped ops'] += 1
                continue
            if op['how'] == 'render':
                stats['source render'] += 1
                c = o.changed(st, deep=True)
                if c and c == 'flat JSON rendering':
                    add('source-modified', 'message object %d (%s): flat JSON rendering differs from the one at the start, op %d' % (
                        o.oid, o.kind, k), {'by': 'render'}, k)
                    o.render0 = p.render_hash(st, o.m)
            elif o.reencodable:
                stats['source reencode'] += 1
                try:
                    nb = st['enc'].process(st['render'].render(o.m), wire_template_data=False).serialized_bytes
                except Exception as e:
                    nb = 'raises ' + type(e).__name__
                if o.reenc0 is None:
                    o.reenc0 = nb
                    if isinstance(nb, str):
                        o.reencodable = False
                elif nb != o.reenc0:
                    add('source-modified', 'message object %d (%s): re-encoding it gives %s, at first %d bytes; op %d' % (
                        o.oid, o.kind, nb if isinstance(nb, str) else 'other bytes (%d)' % len(nb), len(o.reenc0), k), {'by': 'reencode'}, k)
        invariants(k, op)
    # the end: deep source comparison, results as they are NOW vs the model
    for o in objs.values():
        c = o.changed(st, deep=True)
        if c:
            add('source-modified', 'message object %d (%s): %s differs at the end of the history' % (o.oid, o.kind, c), {'by': 'end'}, len(ops))
    requests, expect = [], []
    for oid in sorted(objs):
        o = objs[oid]
        if not o.calls:
            continue
        requests.append({'op': 'subset', 'msg': o.mm, 'idxs': [I for _, I, _ in o.calls]})
        exp = []
        for rid, I, what in o.calls:
            r = results[rid]
            if what == 'call':
                now = None
                if r.ok and not r.dead:
                    now = p.canon_input(o.m, r.data, interner)
                exp.append({'what': 'call', 'rid': rid, 'I': I, 'obj': oid, 'n': o.n, 'at_return': r.tag if r.data is None else r.canon0,
                            'now': now, 'pos': o.pos})
            else:
                child = r.obj
                rows = r.canon0
                di = child.pos.get('data')
                exp.append({'what': 'compose', 'rid': rid, 'I': I, 'obj': oid, 'n': o.n, 'child': child.oid, 'J': r.I,
                            'rows': rows[di[0]][di[1]] if isinstance(rows, list) and di else None, 'pos': o.pos})
        expect.append(exp)
    stats['objects'] = len(objs)
    stats['results compared with the model'] = sum(1 for e in expect for x in e)
    return {'problems': problems, 'requests': requests, 'expect': expect, 'stats': stats}


def compare_model(expect, outs):
    """Model answers vs what the implementation returned (at return time and at the end of the history)."""
    problems = []
    for exp, out in zip(expect, outs):
        if not out.get('wf') and exp:
            problems.append(('hypothesis', 'message object %d does not satisfy the theorems\' hypotheses (integer n_subsets, one value list '
                             'per subset)' % exp[0]['obj'], {'history': True}, None))
        for e, b, s in zip(exp, out['r'], out['sel']):
            I = e['I']
            if s != sorted(set(I)):
                problems.append(('correspondence', 'Spec.sortedDistinct(%r) = %r' % (I[:12], s[:12]), {'spec': True, 'history': True}, None))
            if e['what'] == 'call':
                if out['n'] != e['n']:
                    problems.append(('correspondence', 'model reads n_subsets=%r of object %d, implementation %r' % (out['n'], e['obj'], e['n']),
                                     {'history': True}, None))
                if e['at_return'] != b:
                    problems.append(('correspondence', 'object %d .subset(%r) (result %d): implementation %s, model %s' % (
                        e['obj'], I[:12], e['rid'], P().brief(e['at_return']), P().brief(b)), {'history': True, 'when': 'return'}, None))
                elif e['now'] is not None and e['now'] != b:
                    problems.append(('correspondence', 'object %d .subset(%r) (result %d) at the END of the history: implementation %s, model %s' % (
                        e['obj'], I[:12], e['rid'], P().brief(e['now']), P().brief(b)), {'history': True, 'when': 'end'}, None))
            else:
                di = e['pos'].get('data')
                rows_model = b[di[0]][di[1]] if isinstance(b, list) and di else b
                if e['rows'] is not None and rows_model != e['rows']:
                    problems.append(('correspondence', 'subset(%r) of the Encoder\'s message (object %d) for a subset of object %d differs from the '
                                     'model\'s subset of the parent at the composed indices %r' % (e['J'][:12], e['child'], e['obj'], I[:12]),
                                     {'history': True, 'when': 'compose'}, None))
    return problems


def mutate(r, how):
    """The caller changes a list that subset() built for result r.  Value lists themselves and parameter values (e.g. the
    descriptor list) are shared with the source by the code as it is and are not touched."""
    d, o = r.data, r.obj
    try:
        if how == 'append-outer':
            d.append(['7777'])
        elif how == 'append-section':
            d[o.pos['n_subsets'][0]].append(0)
        elif how == 'set-n':
            si, pi = o.pos['n_subsets']
            d[si][pi] = d[si][pi] + 1
        elif how == 'flip-compressed':
            si, pi = o.pos['is_compressed']
            d[si][pi] = not d[si][pi]
        elif how == 'rows-append':
            si, pi = o.pos['data']
            d[si][pi].append(list(o.rows0[0]))
        elif how == 'rows-pop':
            si, pi = o.pos['data']
            d[si][pi].pop()
        elif how == 'rows-reverse':
            si, pi = o.pos['data']
            if len(d[si][pi]) < 2 or d[si][pi] == d[si][pi][::-1]:
                d[si][pi].append(list(o.rows0[0]))
            else:
                d[si][pi].reverse()
        elif how == 'rows-clear':
            si, pi = o.pos['data']
            del d[si][pi][:]
        elif how == 'set-data':
            si, pi = o.pos['data']
            d[si][pi] = []
        else:
            return False
    except (KeyError, IndexError, TypeError, AttributeError):
        return False
    return True


def where_changed(a, b):
    try:
        if len(a) != len(b):
            return ': %d sections, were %d' % (len(b), len(a))
        for si, (x, y) in enumerate(zip(a, b)):
            if x != y:
                if len(x) != len(y):
                    return ': section %d has %d entries, had %d' % (si, len(y), len(x))
                for pi, (u, v) in enumerate(zip(x, y)):
                    if u != v:
                        if isinstance(u, list) and u and isinstance(u[0], list):
                            return ': section %d entry %d: %d value lists, were %d%s' % (
                                si, pi, len(v) if isinstance(v, list) else -1, len(u), '' if not isinstance(v, list) or len(u) != len(v) else ' (other values)')
                        return ': section %d entry %d is %r, was %r' % (si, pi, v if not isinstance(v, list) else v[:6], u if not isinstance(u, list) else u[:6])
    except Exception:
        pass
    return ''


def brief_op(op):
    if op['op'] == 'subset':
        return 'subset(%r) on object %d' % (op['I'][:12], op['obj'])
    if op['op'] == 'encode':
        return 'encode(result %d)' % op['rid']
    if op['op'] == 'mutate':
        return 'caller %s on result %d' % (op['how'], op['rid'])
    return '%s object %d' % (op['how'], op['obj'])


def digest(ops):
    """short description of a history for the evidence samples"""
    out = []
    for op in ops:
        if op['op'] == 'subset':
            out.append('s%d=o%d%s' % (op['rid'], op['obj'], str(op['I'] if len(op['I']) <= 6 else op['I'][:6] + ['..'])))
        elif op['op'] == 'encode':
            out.append('e%d%s' % (op['rid'], ('>o%d' % op['oid']) if op.get('derive') else ''))
        elif op['op'] == 'mutate':
            out.append('m%d:%s' % (op['rid'], op['how']))
        else:
            out.append('%s%d' % (op['how'][:2], op['obj']))
    return ' '.join(out)
