"""
Generators of the C01 check that go beyond one message over one table version (harness/props/c01.py):

  * TABLE-VERSION FAMILIES.  Every bundled table group (all master table versions found under
    pybufrkit/tables/<master>/0_0, and every local table directory <centre>_<subcentre>/<version> on top of a
    master version) is a `Group`; nothing is listed by hand, the directories and the JSON files are read from
    the tree under verification.  A family is ONE descriptor list and 2-3 groups; the template generator draws
    from the ids that are defined in every group of the family and prefers those whose definition DIFFERS
    between the groups (element: unit kind / scale / reference / width; Table D sequence: other members, or a
    member that reaches such an element) - computed from the tables, per family.  Each member gets its own
    values and bits from the MODEL run over the member's own tables, and the message names the member's
    versions in section 1.  The check hands the members of a family to ONE implementation Decoder object one
    after the other, forwards and backwards, so each message is decoded right after the same descriptors were
    decoded under other tables, and each one twice.
  * OPERATOR CHAINS.  `chain_construct`: 1-3 bit-map operators (222/223/224/225/232 mixed) after a run of plain
    elements: define (fixed or delayed 031031 run, with or without 236000) / recall (237000) / cancel
    (237255, 235000) / re-define WITHOUT cancelling (the back references stay, FM-94 94.5.5.3) / re-define after
    235000 (counted back from the new operator, over the items of the earlier constructs), consumers complete
    or stopping early, fixed / delayed / unrolled.
"""
import os

from harness import core, tables_io
from harness import coder_io as C
from harness import coderprops as P

KINDS = (222, 223, 224, 225, 232)


# ---------------------------------------------------------------------------------------------
# table groups
class Group(object):
    """one table group as section 1 names it: master table version + optional local tables of a centre"""

    def __init__(self, master, version, centre=0, subcentre=0, local=0):
        self.master, self.version, self.centre, self.subcentre, self.local = master, version, centre, subcentre, local
        self.key = (master, version, centre if local else 0, subcentre if local else 0, local)
        self.wmo_sn = (str(master), '0_0', str(version))
        self.local_sn = (str(master), '%d_%d' % (centre, subcentre), str(local)) if local else None
        self._bd = None
        self._treq = None
        self._sig = None

    @property
    def name(self):
        return 'v%d' % self.version + ('+%d_%d/%d' % (self.centre, self.subcentre, self.local) if self.local else '')

    def tables(self):
        if self._bd is None:
            self._bd = tables_io.read_group(self.wmo_sn, self.local_sn)
        return self._bd

    def treq(self):
        if self._treq is None:
            b, d = self.tables()
            self._treq = tables_io.tables_request(b, d)
        return self._treq

    def sig(self):
        """id -> (kind, scale, reference, width)"""
        if self._sig is None:
            b, _ = self.tables()
            self._sig = {i: (tables_io.unit_kind(v[1]), int(v[2]), int(v[3]), int(v[4])) for i, v in b.items()}
        return self._sig

    def overrides(self):
        """section 1 values that make the implementation select this group"""
        o = {'master_table_number': self.master, 'master_table_version': self.version, 'local_table_version': self.local}
        if self.local:
            o['originating_centre'] = self.centre
            o['originating_subcentre'] = self.subcentre
        return o


class Universe(object):
    """the bundled table groups, discovered from the directory tree"""

    def __init__(self):
        root = tables_io.tables_root()
        self.masters = []      # (master number, version)
        self.locals = []       # (master number, centre, subcentre, local version)
        for m in sorted(os.listdir(root)):
            if not m.isdigit() or not os.path.isdir(os.path.join(root, m)):
                continue
            for cs in sorted(os.listdir(os.path.join(root, m))):
                p = os.path.join(root, m, cs)
                parts = cs.split('_')
                if not os.path.isdir(p) or len(parts) != 2 or not all(x.isdigit() for x in parts):
                    continue
                for v in sorted(os.listdir(p), key=lambda x: (len(x), x)):
                    if not v.isdigit() or not os.path.exists(os.path.join(p, v, 'TableB.json')) \
                            or not os.path.exists(os.path.join(p, v, 'TableD.json')):
                        continue
                    if not 0 < int(v) < 256:
                        continue
                    if cs == '0_0':
                        self.masters.append((int(m), int(v)))
                    elif int(parts[0]) < 256 and int(parts[1]) < 256:
                        self.locals.append((int(m), int(parts[0]), int(parts[1]), int(v)))
        if len(self.masters) < 2:
            raise core.MachineryError('fewer than two bundled master table versions under %s' % root)
        self._groups = {}

    def group(self, master, version, centre=0, subcentre=0, local=0):
        g = Group(master, version, centre, subcentre, local)
        return self._groups.setdefault(g.key, g)

    def pick_family_groups(self, rng):
        """2-3 distinct groups: mostly different master versions, sometimes the local tables vary"""
        k = 2 if rng.random() < 0.6 else 3
        r = rng.random()
        m0 = self.masters[0][0]
        versions = [v for m, v in self.masters if m == m0]
        locs = [l for l in self.locals if l[0] == m0]
        if r < 0.72 or not locs:
            return [self.group(m0, v) for v in rng.sample(versions, min(k, len(versions)))]
        if r < 0.88:
            # one master version, the local tables differ (none / one / another version of the same centre)
            v = rng.choice(versions)
            cands = [None] + locs
            chosen = rng.sample(cands, min(k, len(cands)))
            return [self.group(m0, v) if l is None else self.group(m0, v, l[1], l[2], l[3]) for l in chosen]
        out, seen = [], set()
        for _ in range(20):
            v = rng.choice(versions)
            l = rng.choice([None] + locs)
            g = self.group(m0, v) if l is None else self.group(m0, v, l[1], l[2], l[3])
            if g.key not in seen:
                seen.add(g.key)
                out.append(g)
            if len(out) == k:
                break
        return out


_universe = None


def universe():
    global _universe
    if _universe is None:
        _universe = Universe()
    return _universe


def batch_grouped(drv, pairs):
    """pairs: list of (Group, request).  One driver batch in which the requests are sorted by group and each run
    is preceded by that group's `tables` request; responses in the order of `pairs`."""
    if not pairs:
        return []
    order = sorted(range(len(pairs)), key=lambda i: (pairs[i][0].key, i))
    reqs, pos, last = [], [], None
    for i in order:
        g, r = pairs[i]
        if g.key != last:
            reqs.append(g.treq())
            last = g.key
        pos.append(len(reqs))
        reqs.append(r)
    res = drv.batch(reqs)
    out = [None] * len(pairs)
    for i, p in zip(order, pos):
        out[i] = res[p]
    return out


# ---------------------------------------------------------------------------------------------
# operator chains
def chain_construct(tg, n_back, steps=None, nmax=8):
    """ids of 1-3 chained bit-map operators placed after at least `n_back` plain elements; imposed values are
    recorded in tg.forced (031031 bits, 031002 counts; the same in every subset).  -> (ids, description)"""
    rng = tg.rng
    steps = steps or rng.choice([1, 2, 2, 3, 3])
    ids, desc = [], []
    emitted = 0           # plain items recorded by the constructs so far
    established = None    # length of the back references in force (until 235000)
    cur = None            # bit-map in force: dict(bits, reuse)
    for k in range(steps):
        kind = rng.choice(KINDS)
        r = rng.random()
        if cur is None:
            act = 'define'
        elif r < 0.30:
            act = 'recall'
        elif r < 0.50:
            act = 'cancel-define'      # 235000, then a definition counted back from the new operator
        else:
            act = 'redefine'           # a new bit-map over the SAME back references (no 235000)
        if act == 'cancel-define':
            ids.append(235000)
            established = None
        ids.append(kind * 1000)
        if act == 'recall':
            ids.append(237000)
        else:
            reuse = rng.random() < 0.5
            if reuse:
                ids.append(236000)
            n = established if established is not None else rng.randint(1, max(1, min(n_back + emitted, nmax)))
            bits = [rng.randint(0, 1) if rng.random() < 0.85 else 0 for _ in range(n)]
            if rng.random() < 0.5:
                ids += [101000 + n, 31031]
            else:
                ids += [101000, 31002, 31031]
                tg.forced.setdefault(31002, []).append(n)
                emitted += 1
            tg.forced.setdefault(31031, []).extend(bits)
            emitted += n
            established = n
            cur = {'bits': bits, 'reuse': reuse}
        zeros = cur['bits'].count(0)
        if kind == 224:
            ids.append(8023)
            emitted += 1
        elif kind == 225:
            ids.append(8024)
            emitted += 1
        what = rng.choice(tg.class33) if kind == 222 else kind * 1000 + 255
        ncons = zeros
        if zeros > 1 and rng.random() < 0.15:
            ncons = rng.randint(0, zeros - 1)         # the consumers stop early
        r = rng.random()
        if ncons == 0:
            mode = 'none'
        elif r < 0.3 and ncons == zeros:
            ids += [101000, 31002, what]
            tg.forced.setdefault(31002, []).append(ncons)
            emitted += 1
            mode = 'delayed'
        elif r < 0.75 or ncons > 4:
            ids += [101000 + ncons, what]
            mode = 'fixed'
        else:
            ids += [what] * ncons
            mode = 'unrolled'
        if kind == 222:
            emitted += ncons
        d = {'kind': kind, 'act': act, 'n': len(cur['bits']), 'zeros': zeros, 'consumers': mode, 'ncons': ncons, 'reuse': cur['reuse']}
        if rng.random() < (0.25 if cur['reuse'] else 0.06):
            ids.append(237255)
            d['237255'] = True
        desc.append(d)
    if rng.random() < 0.2:
        ids.append(235000)
    return ids, desc


def chain_parts(tg, rng, max_items=4):
    """top-level parts of a template that ends with an operator chain -> (parts, forced, description)"""
    tg.forced = {}
    parts = [tg.item(0) for _ in range(rng.randint(0, max_items))]
    n_back = rng.randint(1, 8)
    for _ in range(n_back):
        parts.append(tg.element_plain())
    ids, desc = chain_construct(tg, n_back)
    parts.append(ids)
    if rng.random() < 0.3:
        parts.append(tg.element_plain())
    forced = [[k, v] for k, v in sorted(tg.forced.items())]
    return parts, forced, desc


def chain_features(ids):
    f = set()
    n_def = sum(1 for a, b in zip(ids, ids[1:]) if a // 1000 in KINDS and a % 1000 == 0 and b != 237000)
    if n_def >= 2:
        f.add('chain:bitmap-defined-%d-times' % min(n_def, 3))
    if 237000 in ids:
        f.add('chain:237000')
    if 237255 in ids:
        f.add('chain:237255')
    if 235000 in ids:
        f.add('chain:235000')
    if 236000 in ids:
        f.add('chain:236000')
    return f


def gen_chain_cases(rng, count, max_subsets=3, editions=(4, 4, 3, 2)):
    tg = C.TemplateGen(rng, level=1)
    cases = []
    for i in range(count):
        parts, forced, desc = chain_parts(tg, rng)
        c = P.Case(parts, forced, rng.randint(1, max_subsets), rng.random() < 0.5, rng.choice(editions), i)
        c.note = 'chain'
        cases.append(c)
    return cases


# ---------------------------------------------------------------------------------------------
# template generator over the ids common to the groups of a family
class _SeqProbe(C.TemplateGen):
    """only the small-sequence computation of TemplateGen, over a given table pair"""

    def __init__(self, b, d):  # noqa - deliberately not calling the base initialiser (it reads one version from disk)
        self.b, self.d = b, d


def _small_sequences(group):
    if getattr(group, '_small', None) is None:
        b, d = group.tables()
        group._small = _SeqProbe(b, d)._small_sequences()
    return group._small


def _expansion(d, sid, depth=0):
    """element / replication ids reached from sequence `sid` (None when too deep)"""
    if depth > 8:
        return None
    out = []
    for m in d[sid][1]:
        m = int(m)
        if m // 100000 == 3:
            if m not in d:
                return None
            e = _expansion(d, m, depth + 1)
            if e is None:
                return None
            out.extend(e)
        else:
            out.append(m)
    return out


class FamilyGen(C.TemplateGen):
    """TemplateGen whose pools are the ids usable in EVERY group of the family; `var_*` are the ids whose definition
    differs between the groups (preferred)."""

    def __init__(self, rng, groups, level=2, prefer=0.6):  # noqa - see _SeqProbe
        self.rng, self.level, self.groups, self.prefer = rng, level, groups, prefer
        self.version = groups[0].version
        self.b, self.d = groups[0].tables()
        self.forced = {}
        sigs = [g.sig() for g in groups]
        common = set(sigs[0])
        for s in sigs[1:]:
            common &= set(s)
        numeric, codeflag, string, class33, onebit = [], [], [], [], []
        self.variant = set()
        for i in sorted(common):
            ss = [s[i] for s in sigs]
            kinds = set(x[0] for x in ss)
            widths = [x[3] for x in ss]
            cls = i // 1000
            if len(set(ss)) > 1:
                self.variant.add(i)
            if cls == 31:
                continue
            if 's' in kinds:
                # character in some group: usable as a character element when every group gives a width that either
                # reading can take
                if kinds == {'s'} and all(w % 8 == 0 and 8 <= w <= 256 for w in widths):
                    string.append(i)
                continue
            if not all(1 <= w <= 32 for w in widths):
                continue
            if cls == 33:
                class33.append(i)
                continue
            if kinds == {'n'}:
                numeric.append(i)
            else:
                codeflag.append(i)     # code / flag table in at least one group (the unit spelling decides per group)
            if all(w == 1 for w in widths):
                onebit.append(i)
        self.numeric, self.codeflag, self.string, self.class33, self.onebit = numeric, codeflag, string, class33, onebit
        if not self.codeflag:
            self.codeflag = list(numeric)
        small = None
        for g in groups:
            s = set(_small_sequences(g))
            small = s if small is None else small & s
        self.small_seq = sorted(small)
        self.var_seq = []
        for sid in self.small_seq:
            exps = []
            for g in groups:
                exps.append(_expansion(g.tables()[1], sid))
            if any(e is None for e in exps):
                continue
            if any(e != exps[0] for e in exps[1:]) or any(m in self.variant for m in exps[0]):
                self.var_seq.append(sid)
        self.var_numeric = [i for i in numeric if i in self.variant]
        self.var_codeflag = [i for i in self.codeflag if i in self.variant]
        self.var_string = [i for i in string if i in self.variant]
        self.usable = bool(numeric and self.codeflag and string and class33 and self.small_seq)
        self.n_variant = len(self.var_numeric) + len(self.var_codeflag) + len(self.var_string) + len(self.var_seq)

    def _pick(self, pool, var):
        if var and self.rng.random() < self.prefer:
            return self.rng.choice(var)
        return self.rng.choice(pool)

    def element(self):
        r = self.rng.random()
        if r < 0.5:
            return [self._pick(self.numeric, self.var_numeric)]
        if r < 0.72:
            return [self._pick(self.codeflag, self.var_codeflag)]
        if r < 0.82:
            return [self._pick(self.string, self.var_string)]
        if r < 0.87 and self.onebit:
            return [self.rng.choice(self.onebit)]
        return [self._pick(self.small_seq, self.var_seq)]

    def some_numeric(self, n):
        return [self._pick(self.numeric, self.var_numeric) for _ in range(n)]

    def element_plain(self):
        r = self.rng.random()
        if r < 0.6:
            return [self._pick(self.numeric, self.var_numeric)]
        if r < 0.85:
            return [self._pick(self.codeflag, self.var_codeflag)]
        return [self._pick(self.string, self.var_string)]


class FCase(P.Case):
    """one member of a family: the family's descriptor list under one table group"""
    __slots__ = ('group', 'fam', 'member', 'msgs', 'model', 'desc', 'n_variant')

    def replay(self):
        r = P.Case.replay(self)
        r['group'] = list(self.group.key)
        r['family'] = self.fam
        return r


def gen_families(rng, count, max_subsets=3, editions=(4, 4, 3, 2)):
    """-> list of families; a family is a list of FCase (same parts / forced values, one per group, no values yet)"""
    u = universe()
    fams = []
    attempts = 0
    while len(fams) < count and attempts < count * 6:
        attempts += 1
        groups = u.pick_family_groups(rng)
        if len(groups) < 2:
            continue
        fg = FamilyGen(rng, groups)
        if not fg.usable:
            continue
        if fg.n_variant == 0 and rng.random() < 0.8:
            continue              # identical tables: kept now and then (the answers must then be identical too)
        r = rng.random()
        if r < 0.35:
            parts, forced, desc = chain_parts(fg, rng, max_items=3)
        else:
            parts, forced = P.template_parts(fg, rng, size=rng.randint(1, 5))
            desc = None
        n, comp, ed = rng.randint(1, max_subsets), rng.random() < 0.5, rng.choice(editions)
        ids = [i for p in parts for i in p]
        nvar = sum(1 for i in ids if i in fg.variant or i in fg.var_seq)
        fam = []
        for k, g in enumerate(groups):
            # the shape of the message is that of the family; now and then a member differs in it (what is cached per
            # descriptor list must not depend on it either)
            n_k, comp_k, ed_k = n, comp, ed
            if rng.random() < 0.2:
                n_k, comp_k, ed_k = rng.randint(1, max_subsets), rng.random() < 0.5, rng.choice(editions)
            c = FCase(parts, forced, n_k, comp_k, ed_k, len(fams))
            c.group, c.fam, c.member, c.msgs, c.model, c.desc, c.n_variant = g, len(fams), k, [], None, desc, nvar
            fam.append(c)
        fams.append(fam)
    return fams


def member_json(c, valss):
    return C.make_message_json(c.ids, valss, c.comp, edition=c.edition, overrides=c.group.overrides())
