"""
Entry point: python -m harness.vcheck <Cxx> [--tier quick|thorough] [--replay file]
(see DESIGN.md 3.2 for what every check does)
"""
import argparse
import importlib
import os
import re
import sys
import traceback

from harness import core


def failing_files(log):
    return sorted(set(re.findall(r'error: (?:\./)?(BufrModel/[A-Za-z0-9_/]+\.lean)', log)))


def main():
    ap = argparse.ArgumentParser()
    ap.add_argument('prop')
    ap.add_argument('--tier', default=os.environ.get('VERIF_TIER') or 'quick', choices=['quick', 'thorough'])
    ap.add_argument('--replay', default=None)
    args = ap.parse_args()
    prop = args.prop
    seed = int(os.environ.get('VERIF_SEED', '0') or 0)
    ctx = core.Context(prop, args.tier, seed)
    try:
        mod = importlib.import_module('harness.props.' + prop.lower())
        # 1. regenerate what is translated from /repo; build driver (model only) and this property's theorems
        changed = core.regenerate()
        rc, log = core.run(['lake', 'build', 'bufrdrv'], cwd=core.LEAN, timeout=7200)
        if rc != 0:
            print(log[-3000:])
            raise core.MachineryError('model driver does not build')
        mods = core.prop_modules(prop)
        rc, log = core.run(['lake', 'build'] + mods, cwd=core.LEAN, timeout=7200) if mods else (0, '')
        broken_build = None
        crash = None
        if rc != 0:
            ff = failing_files(log)
            # a failure that involves a file regenerated from /repo (or a theorem file that depends on
            # it) is a broken proof obligation; anything else is a machinery error
            gen_related = any('/Gen/' in f for f in ff) or _depends_on_gen(prop)
            if not gen_related:
                print(log[-3000:])
                raise core.MachineryError('theorems of %s do not build (not related to regenerated files)' % prop)
            broken_build = {'failing_files': ff, 'log_tail': log[-1500:]}
        ctx.driver = core.Driver()
        # 2. audit
        ctx.theorems = core.theorems_of(prop)
        if broken_build is None:
            axioms, text = core.audit(prop)
            ctx.axioms = axioms
            for t in ctx.theorems:
                ax = axioms.get(t)
                if ax is None or not set(ax) <= core.ALLOWED_AXIOMS:
                    ctx.undischarged.append({'theorem': t, 'axioms': ax})
                else:
                    ctx.discharged.append(t)
            for hit in core.forbidden_tokens(prop):
                ctx.undischarged.append({'forbidden_token': hit})
            if args.tier == 'thorough':
                # independent re-check of the compiled theorems (and everything of this project they rest on)
                cmods = core.closure_modules(prop)
                rc, log = core.run(['lake', 'env', 'leanchecker'] + cmods, cwd=core.LEAN, timeout=7200)
                ctx.notes.append('leanchecker re-checked %d modules: rc=%d' % (len(cmods), rc))
                if rc != 0:
                    ctx.undischarged.append({'leanchecker': log[-1500:]})
        else:
            ctx.undischarged = [{'theorem': t, 'reason': 'build broken after regeneration'} for t in ctx.theorems]
        # 3./4./5. corpus, generated cases, correspondence + oracle
        if args.replay:
            mod.replay(ctx, args.replay)
        else:
            # minimised past failures / findings first (corpus/Cxx/*.json are replay files); a module that handles
            # its own corpus says so with OWN_CORPUS = True
            cdir = os.path.join(core.VERIF, 'corpus', prop)
            if os.path.isdir(cdir) and not getattr(mod, 'OWN_CORPUS', False) and hasattr(mod, 'replay'):
                for f in sorted(os.listdir(cdir)):
                    if f.endswith('.json'):
                        mod.replay(ctx, os.path.join('corpus', prop, f))
                        ctx.count('corpus-replayed')
            try:
                mod.run(ctx)
            except core.MachineryError:
                raise
            except Exception:
                # The exploration crashed.  When a proof obligation is already broken (e.g. a definition regenerated
                # from the source no longer equals the model) or violations were already reported, the crash is the
                # changed implementation showing through the harness, not a fault of the machinery: it becomes part
                # of the violation (exit 1).  With all obligations discharged and no violation it stays exit 2.
                if not (ctx.undischarged or ctx.violations):
                    raise
                crash = traceback.format_exc()
                print('exploration stopped by an exception after a broken obligation / a violation:')
                print(crash[-1200:])
                ctx.notes.append('exploration stopped by an exception: ' + crash[-1500:])
        # a proof obligation that no longer checks and no failing input found by the search above
        if ctx.undischarged and ctx.violations == 0:
            ctx.violation('proof obligations of %s no longer check: %s' % (prop, ctx.undischarged[:5]),
                          {'undischarged': ctx.undischarged, 'build': broken_build, 'exploration_crash': crash},
                          signature={'kind': 'obligation'}, no_failing_input=True)
        ctx.write_evidence()
        print('%s tier=%s seed=%d evaluations=%d distinct_nontrivial=%d theorems=%d/%d violations=%d known=%d wall=%.1fs' % (
            prop, args.tier, seed, ctx.evaluations, len(ctx.nontrivial) + ctx.extra_nontrivial, len(ctx.discharged), len(ctx.theorems),
            ctx.violations, len(ctx.known_hits), __import__('time').time() - ctx.t0))
        sys.exit(1 if ctx.violations else 0)
    except core.MachineryError as e:
        print('MACHINERY-ERROR: %s' % e)
        sys.exit(2)
    except SystemExit:
        raise
    except BaseException:
        traceback.print_exc()
        print('MACHINERY-ERROR: unexpected exception in the harness')
        sys.exit(2)


def _depends_on_gen(prop):
    try:
        return any('BufrModel/Gen/' in f for f in core.import_closure(prop))
    except OSError:
        return False


if __name__ == '__main__':
    main()
