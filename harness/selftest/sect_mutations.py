"""
Planted-mutation self-test for C04 and C17 (DESIGN Appendix A rows + subtler ones).
Usage: VERIF_REPO=<scratch worktree of /repo> python -m harness.selftest.sect_mutations [C04|C17]
Each mutation is applied to the worktree named by VERIF_REPO (NEVER /repo), the quick check is run, exit code 1 and a
VIOLATION line are expected, and the edit is reverted with `git checkout -- .`.
"""
import os
import subprocess
import sys

VERIF = os.path.dirname(os.path.dirname(os.path.dirname(os.path.abspath(__file__))))
REPO = os.environ['VERIF_REPO']
assert os.path.abspath(REPO) != '/repo', 'use a scratch worktree'

M = {
    'C04': [
        ('even-octet padding 16-r -> 8-r', 'pybufrkit/encoder.py',
         'nbits_padding_for_octet = 0 if nbits_residue == 0 else (2 * NBITS_PER_BYTE - nbits_residue)',
         'nbits_padding_for_octet = 0 if nbits_residue == 0 else (NBITS_PER_BYTE - nbits_residue)'),
        ('edition test <= 3 -> < 3', 'pybufrkit/encoder.py', 'if bufr_message.edition.value <= 3:', 'if bufr_message.edition.value < 3:'),
        ('decoder skips nbits_unread - 8', 'pybufrkit/decoder.py', 'bit_reader.read_bin(nbits_unread)', 'bit_reader.read_bin(max(0, nbits_unread - 8))'),
        ('serialized_bytes = whole input', 'pybufrkit/decoder.py', 'bufr_message.serialized_bytes = s[:nbits_decoded // NBITS_PER_BYTE]',
         'bufr_message.serialized_bytes = s'),
        ('honour mode accepts a declaration one octet short', 'pybufrkit/encoder.py', 'elif nbits_unwrite < 0:', 'elif nbits_unwrite < -8:'),
        ('descriptor count rounds up', 'pybufrkit/decoder.py', 'for _ in range((section.section_length.value - nbytes_read) // 2):',
         'for _ in range((section.section_length.value - nbytes_read + 1) // 2):'),
        ('total length not recomputed when declared 0 in honour mode', 'pybufrkit/encoder.py',
         'if bufr_message.length.value == 0 or self.ignore_declared_length:', 'if self.ignore_declared_length:'),
        ('odd-octet case pads a full extra octet only when residue is 0', 'pybufrkit/encoder.py',
         'nbits_padding_for_octet = (NBITS_PER_BYTE - nbits_residue)', 'nbits_padding_for_octet = (NBITS_PER_BYTE - nbits_residue) % NBITS_PER_BYTE'),
    ],
    'C17': [
        ('first match -> last match', 'pybufrkit/mdquery.py', '        for section in sections:', '        for section in reversed(sections):'),
        ('%k.name by list position', 'pybufrkit/mdquery.py',
         "sections = [s for s in bufr_message.sections\n                    if s.get_metadata('index') == section_index or section_index is None]",
         "sections = [s for i, s in enumerate(bufr_message.sections)\n                    if i == section_index or section_index is None]"),
        ('info-only stops before the descriptors of section 3', 'pybufrkit/bufr.py',
         "        if PARAMETER_TYPE_TEMPLATE_DATA in parameter_types:\n            new_config = deepcopy(config)\n            new_config['end_of_message'] = True\n            new_config['parameters'] = config['parameters'][:parameter_types.index(PARAMETER_TYPE_TEMPLATE_DATA)]",
         "        if 'unexpanded_descriptors' in parameter_types:\n            new_config = deepcopy(config)\n            new_config['end_of_message'] = True\n            new_config['parameters'] = config['parameters'][:parameter_types.index('unexpanded_descriptors')]"),
        ('blanks not stripped', 'pybufrkit/mdquery.py', 'metadata_expr = metadata_expr.strip()', 'metadata_expr = metadata_expr'),
        ('bad index silently ignored', 'pybufrkit/mdquery.py',
         "raise MetadataExprParsingError('Invalid section index: {}'.format(section_index))", 'section_index = None'),
        ('info-only scan advances by the decoded span', 'pybufrkit/decoder.py',
         'bufr_message.serialized_bytes = s[idx_start: idx_start + bufr_message.length.value]', 'pass'),
        ('info-only decode validates the data section length against the stream', 'pybufrkit/bufr.py',
         "new_config['end_of_message'] = True", "new_config['end_of_message'] = False"),
    ],
}


def main():
    props = sys.argv[1:] or ['C04', 'C17']
    res = []
    for prop in props:
        for name, f, old, new in M[prop]:
            path = os.path.join(REPO, f)
            src = open(path).read()
            if src.count(old) < 1:
                res.append((prop, name, 'PATTERN-NOT-FOUND'))
                continue
            open(path, 'w').write(src.replace(old, new, 1))
            try:
                p = subprocess.run([os.path.join(VERIF, 'check'), prop, '--tier', 'quick'], stdout=subprocess.PIPE,
                                   stderr=subprocess.STDOUT, text=True, env=dict(os.environ, VERIF_REPO=REPO))
                viol = [l for l in p.stdout.split('\n') if l.startswith('VIOLATION')]
                res.append((prop, name, 'CAUGHT' if p.returncode == 1 and viol else 'MISSED rc=%d' % p.returncode,
                            (viol[0] if viol else '') ))
            finally:
                subprocess.run(['git', '-C', REPO, 'checkout', '--', '.'])
            print(res[-1], flush=True)
    print('\nsummary')
    for r in res:
        print(' ', r[:3])
    sys.exit(0 if all(r[2] == 'CAUGHT' for r in res) else 1)


if __name__ == '__main__':
    main()
