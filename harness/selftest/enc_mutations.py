"""Planted-mutation self-test for C02 and C03:
    python -m harness.selftest.enc_mutations <repo worktree> [C02|C03] [M1 M2 ...]
Every mutation is applied to the repo worktree (uncommitted), the quick check of the property is run,
exit 1 + a VIOLATION line is required, and the file is restored."""
import os
import subprocess
import sys

VERIF = os.path.dirname(os.path.dirname(os.path.dirname(os.path.abspath(__file__))))

ENC = 'pybufrkit/encoder.py'
BIT = 'pybufrkit/bitops.py'
COD = 'pybufrkit/coder.py'
DEC = 'pybufrkit/decoder.py'

NUM_U = """            if scale_powered != 1:
                value = int(round(value * scale_powered))
            if refval:
                value -= refval
        else:
            value = NUMERIC_MISSING_VALUES[nbits]
        bit_writer.write_uint(value, nbits)"""

MUTS = {
    'C02': [
        ('M1 nbits_for_uint(max - min) without + 1 (numeric columns)', ENC,
         "                nbits_diff = nbits_for_uint(max_value - min_value + 1)\n                # Now subtract",
         "                nbits_diff = nbits_for_uint(max_value - min_value)\n                # Now subtract"),
        ('M2 descriptor Y written on 7 bits + 1', ENC,
         "            bit_writer.write_uint(descriptor.Y, 8)",
         "            bit_writer.write_uint(descriptor.Y >> 1, 7)\n            bit_writer.write_uint(1, 1)"),
        ('M3 strings truncated to nbytes - 1', BIT,
         "            if value_len > nbytes:\n                value = value[:nbytes]",
         "            if value_len >= nbytes:\n                value = value[:nbytes - 1] + b' '"),
        ('M4 missing numeric written as zero (uncompressed)', ENC,
         "        else:\n            value = NUMERIC_MISSING_VALUES[nbits]\n        bit_writer.write_uint(value, nbits)\n\n    def process_numeric_compressed",
         "        else:\n            value = 0\n        bit_writer.write_uint(value, nbits)\n\n    def process_numeric_compressed"),
        ('M5 missing written as zero in compressed numeric columns only', ENC,
         "                    if value is None:\n                        value = NUMERIC_MISSING_VALUES[nbits_diff]\n                    else:\n                        value -= min_value\n                    values[idx] = value\n\n        bit_writer.write_uint(min_value, nbits_min_value)\n        bit_writer.write_uint(nbits_diff, NBITS_FOR_NBITS_DIFF)\n\n        if nbits_diff:\n            for value in values:\n                bit_writer.write_uint(value, nbits_diff)\n\n    def process_string(",
         "                    if value is None:\n                        value = 0\n                    else:\n                        value -= min_value\n                    values[idx] = value\n\n        bit_writer.write_uint(min_value, nbits_min_value)\n        bit_writer.write_uint(nbits_diff, NBITS_FOR_NBITS_DIFF)\n\n        if nbits_diff:\n            for value in values:\n                bit_writer.write_uint(value, nbits_diff)\n\n    def process_string("),
        ('M6 strings padded with NUL', BIT, "value += b' ' * (nbytes - value_len)", "value += b'\\0' * (nbytes - value_len)"),
        ('M7 all_equal computed on the first two subsets', ENC,
         "all_equal = values.count(values[0]) == state.n_subsets",
         "all_equal = values[:2].count(values[0]) == min(2, state.n_subsets)"),
        ('M8 nbits_for_uint: all-ones test dropped', ENC,
         "    if binx.count('1') == len(binx):\n        nbits += 1", "    if False:\n        nbits += 1"),
        ('M9 reference value added instead of subtracted (uncompressed)', ENC,
         NUM_U, NUM_U.replace('value -= refval', 'value += refval')),
        ('M10 data section padded with ones', ENC,
         "bit_writer.write_bin('0' * nbits_padding_for_octet)", "bit_writer.write_bin('1' * nbits_padding_for_octet)"),
        ('M11 compressed string column: base = first string instead of NULs', ENC,
         "            min_value = '\\0' * nbytes_min_value\n            nbytes_diff = nbytes_min_value",
         "            min_value = values[0] if values[0] is not None else '\\0' * nbytes_min_value\n            nbytes_diff = nbytes_min_value"),
        ('M12 compressed code/flag minimum taken over the first n-1 subsets', ENC,
         "                nbits_diff = nbits_for_uint(max_value - min_value + 1)\n                # Subtract",
         "                min_value = min(min_value, 0)\n                nbits_diff = nbits_for_uint(max_value - min_value + 1)\n                # Subtract"),
        ('M13 X of a descriptor taken modulo 32', ENC,
         "            bit_writer.write_uint(descriptor.X, 6)", "            bit_writer.write_uint(descriptor.X % 32, 6)"),
    ],
    'C03': [
        ('M1 int(round(x)) -> int(x) (uncompressed)', ENC,
         NUM_U, NUM_U.replace('int(round(value * scale_powered))', 'int(value * scale_powered)')),
        ('M2 int(round(x)) -> int(x + 0.5) (uncompressed)', ENC,
         NUM_U, NUM_U.replace('int(round(value * scale_powered))', 'int(value * scale_powered + 0.5)')),
        ('M3 refusal replaced by masking value & (2**nbits - 1)', BIT,
         "    def write_uint(self, value, nbits):\n        value = int(value)\n",
         "    def write_uint(self, value, nbits):\n        value = int(value) & (2 ** nbits - 1)\n"),
        ('M4 refval subtracted before scaling (uncompressed)', ENC,
         NUM_U, NUM_U.replace("            if scale_powered != 1:\n                value = int(round(value * scale_powered))\n            if refval:\n                value -= refval",
                              "            if refval:\n                value -= refval\n            if scale_powered != 1:\n                value = int(round(value * scale_powered))")),
        ('M5 clipping to the field maximum', BIT,
         "    def write_uint(self, value, nbits):\n        value = int(value)\n",
         "    def write_uint(self, value, nbits):\n        value = min(int(value), 2 ** nbits - 1)\n"),
        ('M6 negative raw clipped to zero', BIT,
         "    def write_uint(self, value, nbits):\n        value = int(value)\n",
         "    def write_uint(self, value, nbits):\n        value = max(int(value), 0)\n"),
        ('M7 rounding in the all-equal compressed branch truncates', ENC,
         "                if scale_powered != 1:\n                    min_value = int(round(min_value * scale_powered))",
         "                if scale_powered != 1:\n                    min_value = int(min_value * scale_powered)"),
        ('M8 decoder: reference added after scaling (uncompressed)', DEC,
         "        if value is not None:\n            if refval:\n                value += refval\n            if scale_powered != 1:\n                value /= scale_powered\n        state.decoded_values.append(value)",
         "        if value is not None:\n            if scale_powered != 1:\n                value /= scale_powered\n            if refval:\n                value += refval\n        state.decoded_values.append(value)"),
        ('M9 nbits_for_uint without + 1 in numeric columns (bits differ, data intact)', ENC,
         "                nbits_diff = nbits_for_uint(max_value - min_value + 1)\n                # Now subtract",
         "                nbits_diff = nbits_for_uint(max_value - min_value)\n                # Now subtract"),
        ('M10 flat JSON drops the sign of negative values', 'pybufrkit/renderer.py',
         "        return template_data.decoded_values_all_subsets\n",
         "        return [[abs(v) if isinstance(v, float) else v for v in vs] for vs in template_data.decoded_values_all_subsets]\n"),
        ('M11 strings padded with NUL', BIT, "value += b' ' * (nbytes - value_len)", "value += b'\\0' * (nbytes - value_len)"),
        ('M13 missing written as all ones minus one', ENC,
         "        else:\n            value = NUMERIC_MISSING_VALUES[nbits]\n        bit_writer.write_uint(value, nbits)\n\n    def process_numeric_compressed",
         "        else:\n            value = NUMERIC_MISSING_VALUES[nbits] - 1\n        bit_writer.write_uint(value, nbits)\n\n    def process_numeric_compressed"),
        ('M15 fix 0604054 reverted: all-ones entries kept as values in compressed columns', ENC,
         "        if nbits <= 1:\n            return values\n", "        if nbits <= 64:\n            return values\n"),
        ('M14 compressed minimum field masked to its width', ENC,
         "        bit_writer.write_uint(min_value, nbits_min_value)\n        bit_writer.write_uint(nbits_diff, NBITS_FOR_NBITS_DIFF)\n\n        if nbits_diff:\n            for value in values:\n                bit_writer.write_uint(value, nbits_diff)\n\n    def process_string(",
         "        bit_writer.write_uint(min_value & (2 ** nbits_min_value - 1), nbits_min_value)\n        bit_writer.write_uint(nbits_diff, NBITS_FOR_NBITS_DIFF)\n\n        if nbits_diff:\n            for value in values:\n                bit_writer.write_uint(value, nbits_diff)\n\n    def process_string("),
    ],
}


def main():
    repo = sys.argv[1]
    props = [a for a in sys.argv[2:] if a in MUTS] or sorted(MUTS)
    sel = [a for a in sys.argv[2:] if a not in MUTS]
    for prop in props:
        for name, rel, a, b in MUTS[prop]:
            if a is None:
                continue
            if sel and not any(name.startswith(x + ' ') for x in sel):
                continue
            path = os.path.join(repo, rel)
            orig = open(path).read()
            if orig.count(a) != 1:
                print('PATTERN PROBLEM %s %s: %d matches' % (prop, name, orig.count(a)))
                continue
            open(path, 'w').write(orig.replace(a, b))
            try:
                p = subprocess.run(['./check', prop, '--tier', 'quick'], cwd=VERIF, env=dict(os.environ, VERIF_REPO=repo),
                                   stdout=subprocess.PIPE, stderr=subprocess.STDOUT, text=True)
            finally:
                open(path, 'w').write(orig)
            lines = p.stdout.split('\n')
            viol = [l for l in lines if l.startswith('VIOLATION')]
            det = ''
            for i, l in enumerate(lines):
                if l.startswith('VIOLATION'):
                    det = ('[nfi] ' if 'no-failing-input-found' in l else '') + lines[i + 1].strip()[:150]
                    break
            print('%s %-72s rc=%d violations=%d  %s' % (prop, name, p.returncode, len(viol), det))
            sys.stdout.flush()
            if p.returncode == 2:
                print(p.stdout[-1500:])
            assert open(path).read() == orig


if __name__ == '__main__':
    main()
