"""
py2lean_state: extension of `harness/py2lean.py` for *procedures on objects with mutable attributes*
(worker w5-codersrc): the methods of `coder.py: CoderState` that assign `self.<attr>`, and the methods of
`Coder` that work on a `state` object and hand it to other methods.

It is driven by the key `'state'` of a module entry of `py2lean.SPEC` and is called from
`ModuleGen.render` (one hook).  Everything it adds to the construct table is listed in notes/Tie.md
("Objects with mutable attributes").  In short:

  * an object whose attributes are read and assigned is a Lean record (`Class.Self`), declared attribute types
    in SPEC; `obj.x = e` is `{ obj with x := e }` threaded through the record of locals; a method that ends
    without `return` returns the objects it is declared to mutate (`'mutates'`);
  * objects the code only stores / passes on (descriptors, values, the bit reader/writer) are TYPE PARAMETERS
    of the generated definitions (`opaque:Name`);
  * a call `state.method(..)` of a translated method is a call of the generated function; a call of a method
    that is NOT translated (`self.process_string(state, bit_operator, descriptor, n)`) is a call of a field of a
    generated structure of callbacks which takes and returns the objects it may mutate, in `Except Py.Exc`;
  * `None`, `collections.namedtuple`, truthiness of ints / lists / None-or-list, `xs.pop()`, `a ** b` with an
    int exponent, `functools.partial(next, iter(xs))` and the call of such a value.
"""
from __future__ import annotations

import ast
import re

from harness import py2lean as P
from harness.py2lean import Ex, TV, prune, lean_ident, indent_rest, INT, NAT, BOOL

NONE = ('none',)


# ---------------------------------------------------------------------------------------------
# types:  rec:Name  opaque:Name  opt[T]  nextfn[T]  + the types of py2lean
def parse_type(s):
    s = s.strip()
    if s in ('int', 'nat', 'bool', 'str', 'bytes', 'obj', 'pow10', 'descr', 'dtag'):
        return (s,)
    if re.match(r'(rec|opaque):\w+$', s):
        return (s,)
    m = re.match(r'(list|dict|tuple|tree|opt|nextfn)\[(.*)\]$', s)
    if not m:
        raise ValueError('bad type %r' % s)
    parts, depth, cur = [], 0, ''
    for ch in m.group(2):
        if ch == '[':
            depth += 1
        if ch == ']':
            depth -= 1
        if ch == ',' and depth == 0:
            parts.append(cur)
            cur = ''
        else:
            cur += ch
    parts.append(cur)
    return (m.group(1),) + tuple(parse_type(p) for p in parts)


class StateSpec(object):
    """the records (classes whose attributes are typed in SPEC, named tuples) of one module"""

    def __init__(self, spec):
        self.opaque = list(spec.get('opaque', []))
        self.records = {}        # name -> ordered {attr: type}
        self.lean_names = {}     # name -> Lean structure name
        self.method_info = {}    # (class, method) -> dict(lean, params, raises, returns)
        self._params_cache = {}

    def params_of_type(self, t, seen=()):
        """the opaque type parameters a type mentions, in the order of the `opaque` list"""
        t = prune(t)
        out = set()
        if isinstance(t, TV):
            return out
        k = t[0]
        if k.startswith('opaque:'):
            out.add(k[7:])
        elif k.startswith('rec:'):
            nm = k[4:]
            if nm not in seen:
                for ft in self.records[nm].values():
                    out |= self.params_of_type(ft, seen + (nm,))
        for x in t[1:]:
            out |= self.params_of_type(x, seen)
        return out

    def ordered(self, names):
        return [n for n in self.opaque if n in names]

    def lean_type(self, t):
        """rendering of the extension kinds (registered in py2lean.TYPE_EXT)"""
        t = prune(t)
        k = t[0]
        if k.startswith('opaque:'):
            return k[7:], True
        if k.startswith('rec:'):
            ps = self.ordered(self.params_of_type(t))
            return ' '.join([self.lean_names[k[4:]]] + ps), not ps
        if k == 'pow10':
            return 'Py.Pow10', True
        if k == 'descr':
            return 'Descr', True
        if k == 'dtag':
            return 'Descr.Tag', True
        if k in ('opt', 'nextfn'):
            inner = P.lean_type(t[1], False)
            if k == 'nextfn':
                return 'Option (List %s)' % inner, False
            return 'Option %s' % inner, False
        raise ValueError(t)


_CURRENT = {'st': None}


def _type_ext(t):
    return _CURRENT['st'].lean_type(t)


def _default_ext(t):
    k = prune(t)[0]
    if k in ('opt', 'nextfn', 'none'):
        return 'none'
    if k == 'pow10':
        return '(Py.pow10 0)'
    if k == 'descr':
        return '(Descr.OtherDescriptor 0)'
    if k == 'dtag':
        return 'Descr.Tag.OtherDescriptor'
    return None


# ---------------------------------------------------------------------------------------------
class ProcCompiler(P.FuncCompiler):
    """one method: a procedure over a record of locals in which object parameters are records"""

    def __init__(self, mod, gen, node, lean_name, st, ms, cls):
        self.st = st
        self.ms = ms
        self.cls = cls
        self.recv = ms.get('self')            # 'rec:Class' | 'callbacks'
        params = {}
        self.py_argnames = ['self'] + list(ms.get('params', {}))
        if self.recv != 'callbacks':
            params['self'] = parse_type(self.recv)
        for p, t in ms.get('params', {}).items():
            params[p] = parse_type(t)
        P.FuncCompiler.__init__(self, mod, gen, node, lean_name, params)
        self.self_attrs = None
        self.mutates = list(ms.get('mutates', []))
        self.callbacks = {k: {'args': [parse_type(a) for a in v['args']], 'mutates': list(v.get('mutates', [])),
                              'returns': parse_type(v['returns']) if v.get('returns') else None}
                          for k, v in ms.get('callbacks', {}).items()}
        self.value_ret = None       # type of the value of a trailing `return e`
        self.used_callbacks = []

    # -- types ----------------------------------------------------------------------------------
    def is_obj(self, name):
        t = self.params.get(name)
        return t is not None and prune(t)[0].startswith(('rec:', 'opaque:'))

    def rec_attrs(self, ty, node):
        k = prune(ty)[0]
        if not k.startswith('rec:'):
            self.bad(node, 'attribute access on a value that is not a record (%s)' % self.show(ty))
        return self.st.records[k[4:]]

    def coerce(self, ex, ty, node):
        ty = prune(ty)
        et = prune(ex.ty)
        if not isinstance(et, TV) and et == NONE:
            if isinstance(ty, TV) or ty[0] not in ('opt', 'nextfn'):
                self.bad(node, '`None` stored where the declared type is not optional (%s)' % self.show(ty))
            return Ex('none', ty)
        if not isinstance(ty, TV) and ty[0] == 'opt' and not isinstance(et, TV) and et[0] not in ('opt', 'none'):
            inner = P.FuncCompiler.coerce(self, ex, ty[1], node)
            return self.lift([inner], lambda c: '(some %s)' % c[0], ty)
        return P.FuncCompiler.coerce(self, ex, ty, node)

    def as_bool(self, ex, node):
        """truth value of a non-bool: int -> != 0; list / str / dict -> non-empty; None-or-list -> neither"""
        k = self.kind(ex, node)
        if k == 'bool':
            return ex
        if k == 'truth':
            return Ex(ex.code, BOOL, ex.raises)
        if k in ('int', 'nat'):
            return self.lift([ex], lambda c: '(!decide (%s = 0))' % c[0], BOOL)
        if k in ('list', 'str', 'bytes', 'dict'):
            return self.lift([ex], lambda c: '(!List.isEmpty %s)' % c[0], BOOL)
        if k == 'opt' and prune(ex.ty)[1][0] in ('list', 'str', 'bytes', 'dict'):
            return self.lift([ex], lambda c: '(Py.truthyOptList %s)' % c[0], BOOL)
        self.bad(node, 'truth value of a %s' % k)

    # -- expressions ------------------------------------------------------------------------------
    def e_UnaryOp(self, e):
        if isinstance(e.op, ast.Not):
            a = self.as_bool(self.expr(e.operand), e)
            return self.lift([a], lambda c: '(!%s)' % c[0], BOOL)
        return P.FuncCompiler.e_UnaryOp(self, e)

    def e_BoolOp(self, e):
        # `a and b` on non-bool operands yields an operand, not a bool: only its truth value is translated
        # (type `truth`, accepted by tests only: assigning or comparing it is a type mismatch)
        save = self.tmp
        nonbool = any(self.kind(self.expr(x), x) != 'bool' for x in e.values)
        self.tmp = save
        r = P.FuncCompiler.e_BoolOp(self, e)
        return Ex(r.code, ('truth',), r.raises) if nonbool else r

    def e_Constant(self, e):
        if e.value is None:
            return Ex('none', NONE)
        return P.FuncCompiler.e_Constant(self, e)

    def e_Name(self, e):
        if e.id == 'self' and self.recv == 'callbacks':
            self.bad(e, 'the receiver of this method is only used to call other methods')
        return P.FuncCompiler.e_Name(self, e)

    def e_Compare(self, e):
        if len(e.ops) == 1 and isinstance(e.ops[0], (ast.Is, ast.IsNot)):
            a = self.expr(e.left)
            c = e.comparators[0]
            if (self.kind(a, e) == 'dtag' and isinstance(c, ast.Name) and c.id not in self.names
                    and c.id in self.st.descr_classes):
                neg = '!' if isinstance(e.ops[0], ast.IsNot) else ''
                return self.lift([a], lambda k: '(%sdecide (%s = Descr.Tag.%s))' % (neg, k[0], c.id), BOOL)
            self.bad(e, '`is` other than <type(x)> is <descriptor class>')
        if len(e.ops) == 2 and all(isinstance(o, (ast.Lt, ast.LtE, ast.Gt, ast.GtE)) for o in e.ops):
            # a <= b <= c: (a <= b) and (b <= c), b evaluated once (it must be a plain name or literal)
            mid = e.comparators[0]
            if not isinstance(mid, (ast.Name, ast.Constant)):
                self.bad(e, 'chained comparison whose middle operand is not a name or literal')
            c1 = ast.Compare(left=e.left, ops=[e.ops[0]], comparators=[mid])
            c2 = ast.Compare(left=mid, ops=[e.ops[1]], comparators=[e.comparators[1]])
            both = ast.BoolOp(op=ast.And(), values=[c1, c2])
            for n in (c1, c2, both):
                ast.copy_location(n, e)
            return P.FuncCompiler.e_BoolOp(self, both)
        return P.FuncCompiler.e_Compare(self, e)

    def e_Attribute(self, e):
        v = self.expr(e.value)
        if not isinstance(prune(v.ty), TV) and prune(v.ty)[0] == 'descr':
            if e.attr in self.st.descr_props:
                return self.lift([v], lambda c: '(Descr.%s %s)' % (lean_ident(e.attr), c[0]), self.st.descr_props[e.attr])
            self.bad(e, 'attribute .%s of a descriptor object is not in the translator specification' % e.attr)
        attrs = self.rec_attrs(v.ty, e)
        if e.attr not in attrs:
            self.bad(e, 'attribute .%s has no declared type in the translator specification' % e.attr)
        return self.lift([v], lambda c: '%s.%s' % (c[0], lean_ident(e.attr)), attrs[e.attr])

    def e_BinOp(self, e):
        if (isinstance(e.op, ast.Mult) and isinstance(e.left, ast.Constant) and isinstance(e.left.value, float)
                and e.left.value == 1.0 and isinstance(e.right, ast.BinOp) and isinstance(e.right.op, ast.Pow)
                and isinstance(e.right.left, ast.Constant) and e.right.left.value == 10
                and not isinstance(e.right.left.value, (bool, float))):
            # `1.0 * 10 ** e`: floats are not modelled; the value is the exact power of ten, held by its exponent
            x = self.expr(e.right.right)
            if self.kind(x, e) not in ('int', 'nat'):
                self.bad(e, '`1.0 * 10 ** e` with a non-int exponent')
            x = self.to_int(x)
            return self.lift([x], lambda c: '(Py.pow10 %s)' % c[0], ('pow10',))
        if isinstance(e.op, ast.Pow):
            a, b = self.expr(e.left), self.expr(e.right)
            if self.kind(a, e.left) in ('int', 'nat') and self.kind(b, e.right) == 'int':
                # an int exponent that is not known to be non-negative: a negative one would give a float
                a = self.to_int(a)
                return self.lift([a, b], lambda c: '(Py.powInt %s %s)' % (c[0], c[1]), INT, result_raises=True)
        return P.FuncCompiler.e_BinOp(self, e)

    def is_partial_next_iter(self, e):
        """functools.partial(next, iter(E))"""
        return (isinstance(e, ast.Call) and isinstance(e.func, ast.Attribute) and e.func.attr == 'partial'
                and isinstance(e.func.value, ast.Name) and e.func.value.id == 'functools' and 'functools' not in self.names
                and len(e.args) == 2 and not e.keywords
                and isinstance(e.args[0], ast.Name) and e.args[0].id == 'next' and 'next' not in self.names
                and isinstance(e.args[1], ast.Call) and isinstance(e.args[1].func, ast.Name)
                and e.args[1].func.id == 'iter' and 'iter' not in self.names
                and len(e.args[1].args) == 1 and not e.args[1].keywords)

    def e_Call(self, e):
        f = e.func
        if (isinstance(f, ast.Name) and f.id == 'type' and 'type' not in self.names and len(e.args) == 1 and not e.keywords):
            a = self.expr(e.args[0])
            if self.kind(a, e) == 'descr':
                return self.lift([a], lambda c: '(Descr.tag %s)' % c[0], ('dtag',))
            self.bad(e, 'type() of something that is not a descriptor object')
        if self.is_partial_next_iter(e):
            src = self.expr(e.args[1].args[0])
            k = self.kind(src, e)
            if k == 'list':
                return self.lift([src], lambda c: '(some %s)' % c[0], ('nextfn', prune(src.ty)[1]))
            if k == 'opt' and prune(src.ty)[1][0] == 'list':
                return self.lift([src], lambda c: '(Py.iterOpt %s)' % c[0], ('nextfn', prune(src.ty)[1][1]), result_raises=True)
            self.bad(e, 'iter() of a %s' % k)
        if isinstance(f, ast.Name) and f.id not in self.names and ('rec:' + f.id) in self.st.namedtuples:
            fields = self.st.records[f.id]
            if any(k.arg is None for k in e.keywords) or any(isinstance(a, ast.Starred) for a in e.args):
                self.bad(e, 'named tuple constructor with * / **')
            given = {}
            for nm, a in zip(fields, e.args):
                given[nm] = a
            for k in e.keywords:
                if k.arg in given or k.arg not in fields:
                    self.bad(e, 'named tuple constructor: bad field %s' % k.arg)
                given[k.arg] = k.value
            if len(e.args) > len(fields) or set(given) != set(fields):
                self.bad(e, 'named tuple constructor: fields %s expected' % list(fields))
            # Python evaluates positional arguments, then keyword arguments, in source order
            order = list(fields)[:len(e.args)] + [k.arg for k in e.keywords]
            parts = [self.coerce(self.to_int(self.expr(given[nm])), fields[nm], e) for nm in order]
            lname = self.st.lean_names[f.id]
            return self.lift(parts, lambda c: '({ %s } : %s)' % (
                ', '.join('%s := %s' % (lean_ident(nm), x) for nm, x in zip(order, c)), lname), ('rec:' + f.id,))
        return P.FuncCompiler.e_Call(self, e)

    def definite_other(self, s, assigned):
        if isinstance(s, ast.Continue):
            return set(self.local_types) | set(self.params)     # nothing after it is reached on this path
        return P.FuncCompiler.definite_other(self, s, assigned)

    # -- `continue`: the rest of the loop body after an `if` that contains a `continue` becomes a definition `cont_n`,
    # called at the end of every path of the `if` that does not end in `continue`
    def flow(self, stmts, k=None):
        """`k`: the compiled continuation (a call of a definition `cont_n`) appended where the list falls through"""
        for i, st in enumerate(stmts):
            if isinstance(st, ast.Continue):
                return self.seq([self.stmt(x) for x in stmts[:i]])
            if any(isinstance(n, ast.Continue) for n in ast.walk(st)):
                if not isinstance(st, ast.If):
                    self.bad(st, '`continue` inside a statement other than `if`')
                head = [self.stmt(x) for x in stmts[:i]]
                c = self.as_bool(self.expr(st.test), st.test)
                if c.raises:
                    self.bad(st, 'test of an `if` that contains `continue` may raise')
                rest = list(stmts[i + 1:])
                if rest:
                    rtext, rr = self.flow(rest, k)
                    name = 'cont_%d' % (len([a for a in self.aux if a[0].startswith('cont_')]) + 1)
                    self.aux.append((name, rtext, rr, rest[0], ''))
                    k2 = ('(%s %sv)' % (name, 'self ' if self.recv == 'callbacks' else ''), rr)
                else:
                    k2 = k
                a, ar = self.flow(list(st.body), k2)
                b, br = self.flow(list(st.orelse), k2)
                if ar or br:
                    if not ar:
                        a = '(pure %s)' % a
                    if not br:
                        b = '(pure %s)' % b
                item = ('(if %s then\n    %s\n  else\n    %s)' % (c.code, indent_rest(a, 4), indent_rest(b, 4)), ar or br)
                return self.seq(head + [item])
        return self.seq([self.stmt(x) for x in stmts] + ([k] if k else []))

    # -- statements -------------------------------------------------------------------------------
    def obj_attr_target(self, t):
        """`obj.attr` with obj an object parameter: (obj, attr, type) or None"""
        if (isinstance(t, ast.Attribute) and isinstance(t.value, ast.Name) and t.value.id in self.params
                and prune(self.params[t.value.id])[0].startswith('rec:')):
            attrs = self.rec_attrs(self.params[t.value.id], t)
            if t.attr not in attrs:
                self.bad(t, 'attribute .%s has no declared type in the translator specification' % t.attr)
            return t.value.id, t.attr, attrs[t.attr]
        return None

    def set_attr(self, obj, attr, ty, ex, node):
        if obj not in self.mutates:
            self.bad(node, 'assignment to an attribute of %s, which the specification does not list as mutated' % obj)
        ex = self.coerce(self.to_int(ex) if prune(ty) == INT else ex, ty, node)
        o, a = lean_ident(obj), lean_ident(attr)
        if ex.raises:
            t = self.fresh()
            return '(do let %s ← %s; pure { v with %s := { v.%s with %s := %s } })' % (t, ex.code, o, o, a, t), True
        return '{ v with %s := { v.%s with %s := %s } }' % (o, o, a, ex.code), False

    def set_obj(self, obj, code):
        return '{ v with %s := %s }' % (lean_ident(obj), code)

    def is_next_call(self, e):
        """`obj.attr()` where attr is a `functools.partial(next, it)` value (or None)"""
        if isinstance(e, ast.Call) and not e.args and not e.keywords:
            tgt = self.obj_attr_target(e.func)
            if tgt and prune(tgt[2])[0] == 'nextfn':
                return tgt
        return None

    def stmt(self, s):
        if isinstance(s, ast.Assign) and len(s.targets) == 1:
            t = s.targets[0]
            tgt = self.obj_attr_target(t)
            if tgt:
                return self.set_attr(tgt[0], tgt[1], tgt[2], self.expr(s.value), s)
            if isinstance(t, ast.Attribute):
                self.bad(s, 'attribute assignment other than <object parameter>.<attr> = value')
            if isinstance(t, ast.Tuple) and all(isinstance(x, ast.Name) for x in t.elts):
                names = [x.id for x in t.elts]
                if len(set(names)) != len(names):
                    self.bad(s, 'tuple assignment with a repeated target')
                if isinstance(s.value, ast.Tuple) and len(s.value.elts) == len(names):
                    # a, b = e1, e2: all of the right-hand side is evaluated first; equal to assigning one after
                    # the other when no e_i reads a target
                    for x in s.value.elts:
                        for n in self.reads(x):
                            if n.id in names:
                                self.bad(s, 'tuple assignment whose right-hand side reads a target')
                    return self.seq([self.set_local(nm, self.expr(x), s) for nm, x in zip(names, s.value.elts)])
                nx = self.is_next_call(s.value)
                if nx:
                    obj, attr, ty = nx
                    item = prune(ty)[1]
                    if prune(item)[0] != 'tuple' or len(prune(item)) - 1 != len(names):
                        self.bad(s, 'unpacking of a value that is not a tuple of %d elements' % len(names))
                    if obj not in self.mutates:
                        self.bad(s, 'call of the iterator of %s, which the specification does not list as mutated' % obj)
                    o, a = lean_ident(obj), lean_ident(attr)
                    if len(names) != 2:
                        self.bad(s, 'unpacking of other than two elements')
                    sets = []
                    for i, nm in enumerate(names):
                        if nm in self.dropped:
                            continue      # the throw-away target `_` (never read): not stored
                        text, r = self.set_local(nm, Ex('t.1.%d' % (i + 1), prune(item)[i + 1]), s)
                        sets.append(text)
                    body = 'let v : %s := { v with %s := { v.%s with %s := t.2 } }' % (self.locals_ty, o, o, a)
                    for x in sets:
                        body += '\n  let v : %s := %s' % (self.locals_ty, x)
                    return '(do\n  let t ← Py.callNext v.%s.%s\n  %s\n  pure v)' % (o, a, body), True
                self.bad(s, 'tuple assignment is only translated for `a, b = x, y` and `a, b = obj.next_fn()`')
            if isinstance(t, ast.Subscript) and not isinstance(t.slice, ast.Slice):
                tgt = self.obj_attr_target(t.value)
                if tgt and prune(tgt[2])[0] == 'dict':
                    td = prune(tgt[2])
                    d = self.expr(t.value)
                    val = self.coerce(self.to_int(self.expr(s.value)), td[2], s)
                    key = self.coerce(self.to_int(self.expr(t.slice)), td[1], s)
                    ex = self.lift([val, key], lambda c: '(Py.dictSetItem %s %s %s)' % (d.code, c[1], c[0]), d.ty)
                    return self.set_attr(tgt[0], tgt[1], tgt[2], ex, s)
        if isinstance(s, ast.AugAssign):
            tgt = self.obj_attr_target(s.target)
            if tgt:
                load = ast.Attribute(value=ast.Name(id=tgt[0], ctx=ast.Load()), attr=tgt[1], ctx=ast.Load())
                fake = ast.BinOp(left=load, op=s.op, right=s.value)
                for n in (load, load.value, fake):
                    ast.copy_location(n, s)
                return self.set_attr(tgt[0], tgt[1], tgt[2], self.expr(fake), s)
        if isinstance(s, ast.Expr) and isinstance(s.value, ast.Call) and isinstance(s.value.func, ast.Attribute):
            c = s.value
            f = c.func
            if self.is_log_call(c):
                return 'v', False      # logging: no effect on the translated state (arguments are not evaluated)
            # obj.attr.append(x) / obj.attr.pop()
            tgt = self.obj_attr_target(f.value)
            if tgt and prune(tgt[2])[0] == 'list' and not c.keywords:
                lst = self.expr(f.value)
                if f.attr == 'append' and len(c.args) == 1:
                    item = self.coerce(self.to_int(self.expr(c.args[0])), prune(tgt[2])[1], s)
                    ex = self.lift([item], lambda k: '(%s ++ [%s])' % (lst.code, k[0]), tgt[2])
                    return self.set_attr(tgt[0], tgt[1], tgt[2], ex, s)
                if f.attr == 'pop' and not c.args:
                    return self.set_attr(tgt[0], tgt[1], tgt[2], Ex('(Py.listPop %s)' % lst.code, tgt[2], True), s)
            if isinstance(f.value, ast.Name) and f.value.id in self.params:
                # obj.method(args): a translated method of the record's class
                k = prune(self.params[f.value.id])[0]
                info = self.st.method_info.get((k[4:], f.attr)) if k.startswith('rec:') else None
                if info is not None:
                    return self.call_translated(f.value.id, info, c, s)
            if isinstance(f.value, ast.Name) and f.value.id == 'self' and self.recv == 'callbacks':
                if f.attr in self.callbacks:
                    return self.call_callback(f.attr, c, s)
                self.bad(s, 'call of self.%s, which is neither translated nor declared as a callback' % f.attr)
        return P.FuncCompiler.stmt(self, s)

    def is_log_call(self, c):
        """`log.debug(...)` / `log.info(...)` … where `log = logging.getLogger(...)` at module level"""
        f = c.func
        if not (isinstance(f.value, ast.Name) and f.value.id == 'log' and 'log' not in self.names
                and f.attr in ('debug', 'info', 'warning', 'error')):
            return False
        nodes = self.mod.assigns.get('log', [])
        if len(nodes) != 1 or not isinstance(nodes[0], ast.Assign):
            return False
        v = nodes[0].value
        return (isinstance(v, ast.Call) and isinstance(v.func, ast.Attribute) and v.func.attr == 'getLogger'
                and isinstance(v.func.value, ast.Name) and v.func.value.id == 'logging')

    def call_translated(self, obj, info, c, node):
        if c.keywords or any(isinstance(a, ast.Starred) for a in c.args) or len(c.args) != len(info['params']):
            self.bad(node, 'call of a translated method with unexpected arguments')
        if obj not in self.mutates and info['mutates']:
            self.bad(node, 'call of a mutating method on %s, which the specification does not list as mutated' % obj)
        args = [self.coerce(self.to_int(self.expr(a)), t, node) for a, t in zip(c.args, info['params'].values())]
        o = lean_ident(obj)
        call = self.lift(args, lambda k: '(%s %s)' % (info['lean'], ' '.join(['v.%s' % o] + k)), TV(), result_raises=info['raises'])
        sel = '.1' if info['returns'] is not None else ''     # the value of a statement call is discarded
        if call.raises:
            t = self.fresh()
            return '(do let %s ← %s; pure %s)' % (t, call.code, self.set_obj(obj, t + sel)), True
        return self.set_obj(obj, call.code + sel), False

    def call_callback(self, name, c, node):
        cb = self.callbacks[name]
        if c.keywords or any(isinstance(a, ast.Starred) for a in c.args) or len(c.args) != len(cb['args']):
            self.bad(node, 'call of callback %s with unexpected arguments' % name)
        if name not in self.used_callbacks:
            self.used_callbacks.append(name)
        args, muts = [], []
        for i, (a, t) in enumerate(zip(c.args, cb['args'])):
            if i in cb['mutates']:
                if not (isinstance(a, ast.Name) and a.id in self.mutates and a.id in self.params):
                    self.bad(node, 'argument %d of %s may be mutated by the callee: it must be an object parameter listed as mutated' % (i, name))
                self.unify(self.params[a.id], t, node)
                muts.append(a.id)
                args.append(Ex('v.%s' % lean_ident(a.id), t))
            else:
                args.append(self.coerce(self.to_int(self.expr(a)), t, node))
        call = self.lift(args, lambda k: '(self.%s %s)' % (lean_ident(name), ' '.join(k)), TV(), result_raises=True)
        t = self.fresh()
        if len(muts) == 1:
            upd = '{ v with %s := %s }' % (lean_ident(muts[0]), t)
        else:
            projs = []
            for i, m in enumerate(muts):
                projs.append('%s := %s%s' % (lean_ident(m), t, ''.join('.2' for _ in range(i)) + ('.1' if i < len(muts) - 1 else '')))
            upd = '{ v with %s }' % ', '.join(projs)
        return '(do let %s ← %s; pure %s)' % (t, call.code, upd), True

    def seq(self, items):
        text, r = P.FuncCompiler.seq(self, items)
        return re.sub(r'let v : Locals (?=:=|←)', 'let v : %s ' % self.locals_ty, text), r

    # -- the procedure ----------------------------------------------------------------------------
    def result_code(self):
        if not self.mutates:
            return None
        if len(self.mutates) == 1:
            return 'v.%s' % lean_ident(self.mutates[0])
        return '(' + ', '.join('v.%s' % lean_ident(m) for m in self.mutates) + ')'

    def tail(self, stmts):
        ret = None
        if stmts and isinstance(stmts[-1], ast.Return) and stmts[-1].value is not None:
            ret = stmts[-1]
            stmts = stmts[:-1]
        for st in stmts:
            for n in ast.walk(st):
                if isinstance(n, ast.Return):
                    self.bad(n, '`return` that is not the last statement of the method')
        if self.ms.get('loop'):
            # the method is one `for x in <list parameter>:` loop: the body is a definition of its own (`body`), the
            # method is `Py.forIn` over the list (evaluated once, by value)
            if not stmts or not isinstance(stmts[-1], ast.For) or stmts[-1].orelse:
                self.bad(self.node, 'a method declared as a loop must end in one `for` statement')
            lp = stmts[-1]
            pre_items = [self.stmt(x) for x in stmts[:-1]]
            for n in ast.walk(lp):
                if isinstance(n, (ast.Break, ast.Return)) or (isinstance(n, (ast.For, ast.While)) and n is not lp):
                    self.bad(n, 'break / return / nested loop inside the loop of a loop method')
            selfarg = 'self ' if self.recv == 'callbacks' else ''
            it = lp.iter
            if (isinstance(lp.target, ast.Name) and isinstance(it, ast.Name) and it.id in self.params
                    and prune(self.params[it.id])[0] == 'list'):
                for n in ast.walk(lp):
                    if isinstance(n, ast.Name) and isinstance(n.ctx, ast.Store) and n.id == it.id:
                        self.bad(n, 'the loop body assigns the list it iterates over')
                ety = prune(self.params[it.id])[1]
                first = self.set_local(lp.target.id, Ex('x', ety), lp)
                btext, br = self.seq([first, self.flow(list(lp.body))])
                self.aux.append(('body', btext, br, lp, ' (x : %s)' % P.lean_type(ety)))
                call = '(body %sv x)' % selfarg
                if br:
                    loop = ('(Py.forIn v.%s v (fun x v => %s))' % (lean_ident(it.id), call), True)
                else:
                    loop = ('(Py.forInPure v.%s v (fun x v => %s))' % (lean_ident(it.id), call), False)
            elif (isinstance(lp.target, ast.Name) and lp.target.id in self.dropped and isinstance(it, ast.Call)
                  and isinstance(it.func, ast.Name) and it.func.id == 'range' and 'range' not in self.names
                  and len(it.args) == 1 and not it.keywords):
                # `for _ in range(n):` — n evaluated once; a negative n gives no iteration
                e = it.args[0]
                if (isinstance(e, ast.Call) and isinstance(e.func, ast.Attribute) and isinstance(e.func.value, ast.Name)
                        and e.func.value.id == 'self' and self.recv == 'callbacks' and e.func.attr in self.callbacks
                        and self.callbacks[e.func.attr].get('returns') is not None):
                    cb = self.callbacks[e.func.attr]
                    if cb['mutates'] or e.keywords or len(e.args) != len(cb['args']):
                        self.bad(e, 'value callback with unexpected arguments')
                    if e.func.attr not in self.used_callbacks:
                        self.used_callbacks.append(e.func.attr)
                    args = [self.coerce(self.to_int(self.expr(a)), t, e) for a, t in zip(e.args, cb['args'])]
                    nex = self.lift(args, lambda c: '(self.%s %s)' % (lean_ident(e.func.attr), ' '.join(c)), INT, result_raises=True)
                else:
                    nex = self.to_int(self.expr(e))
                    if self.kind(nex, e) != 'int':
                        self.bad(e, 'range() of a non-int')
                btext, br = self.flow(list(lp.body))
                if not br:
                    self.bad(lp, 'range loop whose body cannot raise (not needed so far)')
                self.aux.append(('body', btext, br, lp, ''))
                call = '(body %sv)' % selfarg
                if nex.raises:
                    loop = ('(do let n ← %s; Py.forIn (List.range (Int.toNat n)) v (fun _ v => %s))' % (nex.code, call), True)
                else:
                    loop = ('(Py.forIn (List.range (Int.toNat %s)) v (fun _ v => %s))' % (nex.code, call), True)
            else:
                self.bad(lp, 'loop that is neither `for name in <list parameter>` nor `for _ in range(n)`')
            head, hr = self.seq(pre_items + [loop])
        elif self.ms.get('split') and stmts:
            # every top-level statement becomes a definition of its own (`stmt_k : Locals → (Except Py.Exc) Locals`), the
            # method is their composition: lemmas about the generated code can then be stated statement by statement
            items = []
            for st in stmts:
                text, r = self.stmt(st)
                if text == 'v' and not r:
                    continue
                name = 'stmt_%d' % (len(self.aux) + 1)
                self.aux.append((name, text, r, st, ''))
                items.append(('(%s %sv)' % (name, 'self ' if self.recv == 'callbacks' else ''), r))
            head, hr = self.seq(items)
        else:
            head, hr = self.block(stmts) if stmts else ('v', False)
        res = self.result_code()
        if ret is not None:
            r = self.to_int(self.expr(ret.value))
            if r.raises:
                self.bad(ret, '`return` of an expression that may raise')
            self.value_ret = r.ty
            res = '(%s, %s)' % (res, r.code) if res else r.code
        if res is None:
            self.bad(self.node, 'method that neither mutates an object nor returns a value')
        if not hr:
            return '(let v : %s := %s\n %s)' % (self.locals_ty, indent_rest(head, 4), res), False
        return '(do\n  let v : %s ← %s\n  pure %s)' % (self.locals_ty, indent_rest(head, 4), res), True

    def run(self, local_names):
        self.aux = []
        self.tmp = 0
        self.nloops = 0
        self.assign_natness = {}
        self.may_raise = False
        self.names = {}
        for p, ty in self.params.items():
            self.names[p] = ('v.%s' % lean_ident(p), ty)
        for n in local_names:
            ty = self.local_types[n]
            if prune(ty) == INT and n in self.nat_locals:
                ty = NAT
            self.names[n] = ('v.%s' % lean_ident(n), ty)
        return self.tail(self.body_stmts())

    def compile(self):
        node = self.node
        a = node.args
        if a.vararg or a.kwarg or a.kwonlyargs or a.posonlyargs or a.defaults or node.decorator_list:
            self.bad(node, 'method signature with * / ** / keyword-only / defaults / decorators')
        if [x.arg for x in a.args] != self.py_argnames:
            self.bad(node, 'parameters %s differ from the translator specification %s' % ([x.arg for x in a.args], self.py_argnames))
        local_names = self.collect_locals()
        for n in local_names:
            if n == 'self':
                self.bad(node, 'assignment to self')
        self.dropped = set()
        if '_' in local_names and not any(isinstance(n, ast.Name) and n.id == '_' and isinstance(n.ctx, ast.Load)
                                          for n in ast.walk(node)):
            local_names.remove('_')
            self.dropped.add('_')
        for n in ast.walk(node):
            if isinstance(n, ast.Name) and isinstance(n.ctx, (ast.Store, ast.Del)) and n.id in self.params and self.is_obj(n.id):
                self.bad(n, 'assignment to the object parameter %s' % n.id)
            if isinstance(n, (ast.While, ast.For)) and not self.ms.get('loop'):
                self.bad(n, 'loop inside a procedure on objects')
        self.local_types = {n: TV() for n in local_names}
        self.locals_ty = 'Locals'
        self.nat_locals = set()
        self.definite(self.body_stmts(), set(self.params) | {'self'})
        self.run(local_names)
        self.run(local_names)
        for n in local_names:
            if not P.resolved(self.local_types[n]):
                self.bad(node, 'cannot infer the type of local variable %s' % n)
        # no Nat refinement: every int local of a procedure is an `Int`
        fields = [(p, t) for p, t in self.params.items()] + [(n, self.local_types[n]) for n in local_names]
        tparams = set()
        for _, t in fields:
            tparams |= self.st.params_of_type(t)
        self.tparams = self.st.ordered(tparams)
        self.locals_ty = ' '.join(['Locals'] + self.tparams)
        text, raises = self.run(local_names)
        return local_names, fields, text, raises

    def render(self, doc):
        local_names, fields, text, raises = self.compile()
        st = self.st
        ns = self.lean_name
        tp = self.tparams
        out = ['namespace %s' % ns,
               '/-- the local variables of `%s` (parameters first) -/' % self.node.name,
               'structure Locals%s where' % (' (%s : Type)' % ' '.join(tp) if tp else '')]
        for n, t in fields:
            out.append('  %s : %s' % (lean_ident(n), P.lean_type(t)))
        out.append('')
        cb_ty = None
        if self.recv == 'callbacks':
            cparams = set(tp)
            for nm in self.used_callbacks:
                for t in self.callbacks[nm]['args']:
                    cparams |= st.params_of_type(t)
            cparams = st.ordered(cparams)
            out.append('/-- the methods `%s` calls that are not translated: each takes the objects it may mutate and returns them\n'
                       '    (anything it raises propagates) -/' % self.node.name)
            out.append('structure Callbacks%s where' % (' (%s : Type)' % ' '.join(cparams) if cparams else ''))
            for nm in self.used_callbacks:
                cb = self.callbacks[nm]
                res = [P.lean_type(cb['args'][i], False) for i in cb['mutates']]
                if cb.get('returns') is not None:
                    res.append(P.lean_type(cb['returns'], False))
                out.append('  %s : %s → Except Py.Exc (%s)' % (
                    lean_ident(nm), ' → '.join(P.lean_type(t, False) for t in cb['args']), ' × '.join(res)))
            out.append('')
            cb_ty = ' '.join(['%s.Callbacks' % ns] + cparams)
            all_tp = cparams
        else:
            all_tp = tp
        for name, atext, ar, st, extra in self.aux:
            a, b, _ = self.mod.src(st)
            asig = ''
            if all_tp:
                asig += ' {%s : Type}' % ' '.join(all_tp)
            if cb_ty:
                asig += ' (self : %s)' % cb_ty
            asig += ' (v : %s)%s' % (self.locals_ty, extra)
            out.append('/-- %s:%s  statement of `%s` -/' % (self.mod.relpath, a if a == b else '%d-%d' % (a, b), self.node.name))
            out.append('def %s%s : %s :=\n  %s' % (name, asig, 'Except Py.Exc (%s)' % self.locals_ty if ar else self.locals_ty, indent_rest(atext, 2)))
            out.append('')
        out.append('end %s' % ns)
        out.append('')
        out.append('open %s in' % ns)
        out.append(doc)
        sig = ''
        if all_tp:
            sig += ' {%s : Type}' % ' '.join(all_tp)
        if cb_ty:
            sig += ' (self : %s)' % cb_ty
        for p, t in self.params.items():
            sig += ' (%s : %s)' % (lean_ident(p), P.lean_type(t))
        res_types = [P.lean_type(self.params[m], False) for m in self.mutates]
        if self.value_ret is not None:
            res_types.append(P.lean_type(self.value_ret, False))
        rty = ' × '.join(res_types)
        if raises:
            rty = 'Except Py.Exc (%s)' % rty
        init = ', '.join('%s := %s' % (lean_ident(n), lean_ident(n) if n in self.params else P.default_value(t)) for n, t in fields)
        out.append('def %s%s : %s :=\n  let v : %s := { %s }\n  %s' % (ns, sig, rty, self.locals_ty, init, indent_rest(text, 2)))
        return '\n'.join(out), raises


# ---------------------------------------------------------------------------------------------
def namedtuple_fields(mod, name):
    """`Name = namedtuple('Name', ['a', 'b'])` at module level"""
    node = mod.const_node(name)
    v = node.value
    ok = (isinstance(v, ast.Call) and isinstance(v.func, ast.Name) and v.func.id == 'namedtuple' and len(v.args) == 2
          and not v.keywords and isinstance(v.args[0], ast.Constant) and v.args[0].value == name
          and isinstance(v.args[1], (ast.List, ast.Tuple))
          and all(isinstance(x, ast.Constant) and isinstance(x.value, str) for x in v.args[1].elts))
    if not ok:
        raise P.Py2LeanUnsupported(mod.relpath, node, 'named tuple %s is not defined as namedtuple(%r, [<field names>])' % (name, name))
    return node, [x.value for x in v.args[1].elts]


def render_descr(gen, st, ds):
    """the descriptor objects as ONE inductive type `Descr`, a constructor per class of `descriptors.py` the coder
    distinguishes (with the attributes it reads), plus `OtherDescriptor` for an object of any other class.  Checked
    against the source: every class exists, and every listed attribute is assigned (`<obj>.<attr> = …`) in the body of
    the class or of one of its base classes (by name, within the module)."""
    dmod = P.ModuleCtx(ds['file'])

    def class_node(name, at=0):
        nodes = dmod.classes.get(name, [])
        if len(nodes) != 1:
            raise P.Py2LeanUnsupported(dmod.relpath, at, 'class %s not found exactly once' % name)
        return nodes[0]

    def assigned_attrs(name, seen=()):
        node = class_node(name)
        out = set()
        for n in ast.walk(node):
            if isinstance(n, ast.Attribute) and isinstance(n.ctx, ast.Store):
                out.add(n.attr)
        for b in node.bases:
            if isinstance(b, ast.Name) and b.id in dmod.classes and b.id not in seen:
                out |= assigned_attrs(b.id, seen + (name,))
        return out

    lines = ['/-- %s: descriptor objects as the coder sees them — one constructor per class it distinguishes by\n'
             '    `type(x) is C`, with the attributes it reads (checked against the class declarations: git blob %s);\n'
             '    `OtherDescriptor`: an object of any other class -/' % (dmod.relpath, dmod.blob), 'inductive Descr where']
    for cname, attrs in ds['classes']:
        node = class_node(cname)
        have = assigned_attrs(cname)
        for a in attrs:
            if a not in have:
                raise P.Py2LeanUnsupported(dmod.relpath, node, 'class %s: attribute %s is not assigned in the class or its bases' % (cname, a))
        a0, b0, _ = dmod.src(node)
        fields = ' '.join('(%s : %s)' % (lean_ident(a), P.lean_type(parse_type(t))) for a, t in attrs.items())
        lines.append('  | %s %s    -- %s:%d-%d' % (cname, fields, dmod.relpath, a0, b0))
        st.descr_classes[cname] = {a: parse_type(t) for a, t in attrs.items()}
        gen.items.append({'kind': 'class', 'name': cname, 'lines': [a0, b0], 'file': dmod.relpath, 'blob': dmod.blob})
    lines.append('  | OtherDescriptor (id : Int)')
    names = [c for c, _ in ds['classes']] + ['OtherDescriptor']
    lines += ['', '/-- `type(x)` of a descriptor object -/', 'inductive Descr.Tag where',
              '  ' + ' '.join('| %s' % n for n in names), '  deriving DecidableEq, Repr', '',
              '/-- `type(x)` -/', 'def Descr.tag : Descr → Descr.Tag']
    for n in names:
        lines.append('  | .%s .. => .%s' % (n, n))
    lines += ['', '/-- `x.id` (every descriptor class has it: `Descriptor.__init__`) -/', 'def Descr.id : Descr → Int']
    for cname, attrs in ds['classes']:
        if list(attrs)[0] != 'id':
            raise P.Py2LeanUnsupported(dmod.relpath, 0, 'the first attribute of %s in the specification must be id' % cname)
        lines.append('  | .%s id .. => id' % cname)
    lines.append('  | .OtherDescriptor id => id')
    lines += ['', '/-- `x.X`: the property `Descriptor.X` as translated in Gen/PyDescriptors.lean -/',
              'def Descr.X (d : Descr) : Int := PyGen.descriptors.Descriptor.X { id := Descr.id d }']
    if not hasattr(gen, 'opened'):
        gen.opened = {}
    gen.opened.setdefault('descriptors', ('BufrModel.Gen.PyDescriptors', []))
    st.descr_props = {'id': INT, 'X': INT}
    return '\n'.join(lines)


def render_state(gen, sspec):
    """called by ModuleGen.render: the texts of the records and procedures of the `'state'` part of a module spec"""
    mod = gen.mod
    st = StateSpec(sspec)
    _CURRENT['st'] = st
    P.TYPE_EXT['rec'] = P.TYPE_EXT['opaque'] = P.TYPE_EXT['opt'] = P.TYPE_EXT['nextfn'] = P.TYPE_EXT['pow10'] = _type_ext
    P.TYPE_EXT['descr'] = P.TYPE_EXT['dtag'] = _type_ext
    P.DEFAULT_EXT['opt'] = P.DEFAULT_EXT['nextfn'] = P.DEFAULT_EXT['pow10'] = _default_ext
    P.DEFAULT_EXT['descr'] = P.DEFAULT_EXT['dtag'] = _default_ext
    texts = []
    st.namedtuples = set()
    for name, ftypes in sspec.get('namedtuples', {}).items():
        node, fields = namedtuple_fields(mod, name)
        if list(ftypes) != fields:
            raise P.Py2LeanUnsupported(mod.relpath, node, 'fields of named tuple %s are %s, the translator specification says %s' % (name, fields, list(ftypes)))
        st.records[name] = {f: parse_type(t) for f, t in ftypes.items()}
        st.lean_names[name] = lean_ident(name)
        st.namedtuples.add('rec:' + name)
        a, b, src = mod.src(node)
        lines = ['/-- %s:%s  `%s` -/' % (mod.relpath, a if a == b else '%d-%d' % (a, b), src.replace('-/', '- /').replace('\n', ' ⏎ ')),
                 'structure %s where' % lean_ident(name)]
        for f in fields:
            lines.append('  %s : %s' % (lean_ident(f), P.lean_type(st.records[name][f])))
        lines.append('  deriving DecidableEq')
        texts.append('\n'.join(lines))
        gen.items.append({'kind': 'namedtuple', 'name': name, 'lines': [a, b]})
    st.descr_classes, st.descr_props = {}, {}
    if sspec.get('descr'):
        texts.append(render_descr(gen, st, sspec['descr']))
    for name, rs in sspec.get('records', {}).items():
        st.records[name] = {f: parse_type(t) for f, t in rs['attrs'].items()}
        st.lean_names[name] = '%s.Self' % name
    for name, rs in sspec.get('records', {}).items():
        ps = st.ordered(st.params_of_type(('rec:' + name,)))
        lines = ['/-- the attributes of a `%s` instance that the translated methods read or assign%s -/' % (
            name, ' (declared in the translator specification: %s)' % rs['doc'] if rs.get('doc') else ''),
            'structure %s.Self%s where' % (name, ' (%s : Type)' % ' '.join(ps) if ps else '')]
        for f, t in st.records[name].items():
            lines.append('  %s : %s' % (lean_ident(f), P.lean_type(t)))
        texts.append('\n'.join(lines))
    for cname, mname, ms in sspec.get('methods', []):
        cnodes = mod.classes.get(cname, [])
        if len(cnodes) != 1:
            raise P.Py2LeanUnsupported(mod.relpath, 0, 'class %s not found exactly once' % cname)
        nodes = [n for n in cnodes[0].body if isinstance(n, ast.FunctionDef) and n.name == mname]
        if len(nodes) != 1:
            raise P.Py2LeanUnsupported(mod.relpath, cnodes[0], 'method %s.%s not found exactly once' % (cname, mname))
        node = nodes[0]
        pc = ProcCompiler(mod, gen, node, '%s.%s' % (cname, lean_ident(mname)), st, ms, cname)
        a, b, _ = mod.src(node)
        doc = '/-- %s:%d-%d  `%s.%s` -/' % (mod.relpath, a, b, cname, mname)
        text, raises = pc.render(doc)
        texts.append(text)
        st.method_info[(cname, mname)] = {
            'lean': '%s.%s' % (cname, lean_ident(mname)), 'raises': raises, 'returns': pc.value_ret,
            'params': {p: t for p, t in pc.params.items() if p != 'self'}, 'mutates': pc.mutates}
        gen.items.append({'kind': 'method', 'name': '%s.%s' % (cname, mname), 'lines': [a, b], 'may_raise': raises})
    return texts


# ---------------------------------------------------------------------------------------------
# What is translated from pybufrkit/coder.py (part of the trusted base: the declared attribute types, which
# objects a method may mutate, which callee may mutate which argument).
_CODER_STATE_ATTRS = {
    'is_compressed': 'bool', 'n_subsets': 'int', 'idx_subset': 'int',
    'decoded_descriptors_all_subsets': 'list[list[opaque:Descriptor]]',
    'bitmap_links_all_subsets': 'list[dict[int,int]]',
    'decoded_values_all_subsets': 'list[list[opaque:Value]]',
    'decoded_descriptors': 'list[opaque:Descriptor]',
    'bitmap_links': 'dict[int,int]',
    'decoded_values': 'list[opaque:Value]',
    'idx_value': 'int',
    'nbits_offset': 'int', 'scale_offset': 'int',
    'nbits_of_new_refval': 'int', 'new_refvals': 'dict[int,int]',
    'nbits_of_associated': 'list[int]',
    'nbits_of_skipped_local_descriptor': 'int',
    'bsr_modifier': 'rec:BSRModifier',
    'new_nbytes': 'int',
    'data_not_present_count': 'int',
    'status_qa_info_follows': 'int',
    'bitmap': 'opt[list[opaque:Value]]',
    'bitmapped_descriptors': 'opt[list[tuple[int,opaque:Descriptor]]]',
    'bitmap_definition_state': 'int',
    'most_recent_bitmap_is_for_reuse': 'bool',
    'n_031031': 'int',
    'next_bitmapped_descriptor': 'nextfn[tuple[int,opaque:Descriptor]]',
    'back_reference_boundary': 'int',
    'back_referenced_descriptors': 'opt[list[tuple[int,opaque:Descriptor]]]',
}

_OPD_ARGS = ['rec:CoderState', 'opaque:BitOperator', 'rec:OperatorDescriptor']
_ELT_ARGS = ['rec:CoderState', 'opaque:BitOperator', 'rec:ElementDescriptor']
_MEM_ARGS = ['rec:CoderState', 'opaque:BitOperator', 'descr']
_MEM_CB = {'args': _MEM_ARGS, 'mutates': [0, 1]}
_WALK_CB = {'args': ['rec:CoderState', 'opaque:BitOperator', 'list[descr]'], 'mutates': [0, 1]}

STATE_SPECS = {
    'coder': {
        'opaque': ['Descriptor', 'Value', 'BitOperator'],
        'descr': {'file': 'pybufrkit/descriptors.py', 'classes': [
            ('ElementDescriptor', {'id': 'int', 'unit': 'str', 'scale': 'int', 'refval': 'int', 'nbits': 'int'}),
            ('MarkerDescriptor', {'id': 'int', 'unit': 'str', 'scale': 'int', 'refval': 'int', 'nbits': 'int', 'marker_id': 'int'}),
            ('AssociatedDescriptor', {'id': 'int', 'nbits': 'int'}),
            ('SkippedLocalDescriptor', {'id': 'int', 'nbits': 'int'}),
            ('OperatorDescriptor', {'id': 'int'}),
            ('FixedReplicationDescriptor', {'id': 'int', 'members': 'list[descr]'}),
            ('DelayedReplicationDescriptor', {'id': 'int', 'members': 'list[descr]', 'factor': 'descr'}),
            ('SequenceDescriptor', {'id': 'int', 'members': 'list[descr]'}),
        ]},
        'namedtuples': {'BSRModifier': {'nbits_increment': 'int', 'scale_increment': 'int', 'refval_factor': 'int'}},
        'records': {
            'CoderState': {'attrs': _CODER_STATE_ATTRS},
            # an OperatorDescriptor as `process_operator_descriptor` sees it: the two properties are translated in
            # Gen/PyDescriptors.lean (theorems C01_src_operator_code / C01_src_operand_value); here they are fields
            'OperatorDescriptor': {'attrs': {'id': 'int', 'operator_code': 'int', 'operand_value': 'int'},
                                   'doc': 'operator_code / operand_value are the properties translated in Gen/PyDescriptors.lean'},
            # an ElementDescriptor (or MarkerDescriptor) as `process_element_descriptor` sees it; `X` is the property
            # translated in Gen/PyDescriptors.lean
            'ElementDescriptor': {'attrs': {'id': 'int', 'X': 'int', 'unit': 'str', 'nbits': 'int', 'scale': 'int', 'refval': 'int'},
                                  'doc': 'X is the property translated in Gen/PyDescriptors.lean'},
            # the composite descriptors as their `process_*` methods see them (`n_repeats` is the property translated in
            # Gen/PyDescriptors.lean)
            'FixedReplicationDescriptor': {'attrs': {'id': 'int', 'n_repeats': 'int', 'members': 'list[descr]'}},
            'DelayedReplicationDescriptor': {'attrs': {'id': 'int', 'members': 'list[descr]', 'factor': 'descr'}},
            'SequenceDescriptor': {'attrs': {'id': 'int', 'members': 'list[descr]'}},
            # any descriptor, as `process_bitmap_definition` sees it
            'AnyDescriptor': {'attrs': {'id': 'int'}},
        },
        'methods': [
            ('CoderState', 'reset_template_state', {'self': 'rec:CoderState', 'mutates': ['self']}),
            ('CoderState', 'switch_subset_context', {'self': 'rec:CoderState', 'params': {'idx_subset': 'int'}, 'mutates': ['self']}),
            ('CoderState', 'mark_back_reference_boundary', {'self': 'rec:CoderState', 'mutates': ['self']}),
            ('CoderState', 'recall_bitmap', {'self': 'rec:CoderState', 'mutates': ['self']}),
            ('CoderState', 'cancel_bitmap', {'self': 'rec:CoderState', 'mutates': ['self']}),
            ('CoderState', 'cancel_all_back_references', {'self': 'rec:CoderState', 'mutates': ['self']}),
            ('CoderState', 'cancel_new_refvals', {'self': 'rec:CoderState', 'mutates': ['self']}),
            ('CoderState', 'add_bitmap_link', {'self': 'rec:CoderState', 'mutates': ['self']}),
            ('Coder', 'process_operator_descriptor', {
                'self': 'callbacks',
                'params': {'state': 'rec:CoderState', 'bit_operator': 'opaque:BitOperator', 'descriptor': 'rec:OperatorDescriptor'},
                'mutates': ['state', 'bit_operator'],
                'callbacks': {
                    'process_string': {'args': _OPD_ARGS + ['int'], 'mutates': [0, 1]},
                    'process_constant': {'args': _OPD_ARGS + ['int'], 'mutates': [0, 1]},
                    'process_marker_operator_descriptor': {'args': _OPD_ARGS, 'mutates': [0, 1]},
                }}),
            ('Coder', 'process_bitmap_definition', {
                'self': 'callbacks',
                'params': {'state': 'rec:CoderState', 'bit_operator': 'opaque:BitOperator', 'descriptor': 'rec:AnyDescriptor'},
                'mutates': ['state'],
                'callbacks': {'define_bitmap': {'args': ['rec:CoderState', 'bool'], 'mutates': [0]}}}),
            ('Coder', 'process_element_descriptor', {
                'self': 'callbacks', 'split': True,
                'params': {'state': 'rec:CoderState', 'bit_operator': 'opaque:BitOperator', 'descriptor': 'rec:ElementDescriptor'},
                'mutates': ['state', 'bit_operator'],
                'callbacks': {
                    'process_associated_field': {'args': _ELT_ARGS, 'mutates': [0, 1]},
                    'process_string': {'args': _ELT_ARGS + ['int'], 'mutates': [0, 1]},
                    'process_codeflag': {'args': _ELT_ARGS + ['int'], 'mutates': [0, 1]},
                    'process_numeric': {'args': _ELT_ARGS + ['int', 'pow10', 'int'], 'mutates': [0, 1]},
                    'process_numeric_of_new_refval': {'args': _ELT_ARGS + ['int', 'pow10', 'int'], 'mutates': [0, 1]},
                }}),
            # the composite descriptors: the recursive call of `process_members` is a callback (the loop theorem is the
            # hypothesis of their theorems)
            ('Coder', 'process_fixed_replication_descriptor', {
                'self': 'callbacks', 'loop': True,
                'params': {'state': 'rec:CoderState', 'bit_operator': 'opaque:BitOperator', 'descriptor': 'rec:FixedReplicationDescriptor'},
                'mutates': ['state', 'bit_operator'], 'callbacks': {'process_members': _WALK_CB}}),
            ('Coder', 'process_delayed_replication_descriptor', {
                'self': 'callbacks', 'loop': True,
                'params': {'state': 'rec:CoderState', 'bit_operator': 'opaque:BitOperator', 'descriptor': 'rec:DelayedReplicationDescriptor'},
                'mutates': ['state', 'bit_operator'],
                'callbacks': {'process_members': _WALK_CB, 'process_element_descriptor': _MEM_CB,
                              'get_value_for_delayed_replication_factor': {'args': ['rec:CoderState'], 'mutates': [], 'returns': 'int'}}}),
            ('Coder', 'process_sequence_descriptor', {
                'self': 'callbacks',
                'params': {'state': 'rec:CoderState', 'bit_operator': 'opaque:BitOperator', 'descriptor': 'rec:SequenceDescriptor'},
                'mutates': ['state', 'bit_operator'], 'callbacks': {'process_members': _WALK_CB}}),
            # the member loop: the methods it dispatches to are callbacks here (the translated ones satisfy the
            # correspondences the theorems ask of these callbacks: C01_src_process_element_descriptor, …)
            ('Coder', 'process_members', {
                'self': 'callbacks', 'loop': True,
                'params': {'state': 'rec:CoderState', 'bit_operator': 'opaque:BitOperator', 'members': 'list[descr]'},
                'mutates': ['state', 'bit_operator'],
                'callbacks': {k: _MEM_CB for k in (
                    'process_define_new_refval', 'process_skipped_local_descriptor', 'process_bitmap_definition',
                    'process_element_descriptor', 'process_fixed_replication_descriptor',
                    'process_delayed_replication_descriptor', 'process_operator_descriptor',
                    'process_sequence_descriptor')}}),
        ],
    },
}
