"""
Layout-varying bitmap templates for C06 (subsets of an uncompressed message are independent).

What the older families of harness/props/c06.py never produced: two subsets of one message whose flat
descriptor lists have the SAME length up to the bitmap operator (same back reference boundary) and a bitmap
of the SAME length, but a DIFFERENT arrangement of descriptors below the boundary.  `f4` has one delayed
replication in front of the bitmap (equal count <=> equal arrangement), the grammar of C01 imposes the same
bitmap on every subset and puts a run of plain elements directly in front of it (the backward scan never
reaches the variable part).  Anything that is remembered per message and keyed by positions / lengths only
(a memoised backward scan, cached bitmapped descriptors, cached marker descriptors, nodes shared between
subsets of equal length ...) goes unnoticed there.

This generator builds

  PRE        2..4 blocks in front of the first bitmap operator: delayed replications (031000 / 031001 / 031002)
             of DIFFERENT elements (pairwise different widths, so that a mix-up moves every following bit),
             nested delayed replication, fixed replication, Table D sequences, and items that are NOT element
             descriptors and therefore shift positions without being back-referenced: 205YYY character data,
             206YYY + local descriptor, associated fields (204YYY .. 204000, closed before the operator);
  SECTIONS   1..3 bitmap constructs: 222000 (class 33 attributes) and 223/224/225/232 (marker operators), bitmap
             by delayed (031002) or fixed replication of 031031, 236000, re-use by 237000, 237255, 235000 followed
             by a new definition that counts back afresh, a new definition WITHOUT 235000 (the back references
             of the first definition are kept: same length required), attribute runs by delayed or fixed
             replication, more variable blocks between the constructs;
  TAIL       nothing / plain elements / 235000.

Per subset the replication factors of PRE are chosen from a sample of walks of PRE grouped by flat length:
most cases take at least two DIFFERENT arrangements of the same length (factors that compensate each other,
e.g. (1, 2) and (2, 1)), the remaining subsets are drawn from the same group, from other groups or repeat an
earlier subset, and the order is shuffled, so that equal layouts are adjacent in some messages and separated
by another layout in others.  Bitmap lengths are equal for all subsets or differ; the bits are random,
all zero, identical for all subsets, or permutations of one pattern (equal number of zero bits at other
positions: equal descriptor lists, different links).

The walk below mirrors `Coder.process_members` only as far as the LAYOUT is concerned (which entries of the
flat descriptor list are plain element descriptors); the values come from the model's generate mode with the
structural values (factors, bitmap bits) imposed, and the model refuses an inconsistent case (counted as
`values-not-generated`).
"""
from harness import coder_io as C
from harness import coderprops as P

LOCAL_IDS = (63255, 48001, 63001)
MARKER_OPS = (223, 224, 225, 232)


def parse_ids(ids):
    """ids of a Table D sequence without operators / delayed replication -> nodes"""
    out, i = [], 0
    while i < len(ids):
        m = ids[i]
        f = m // 100000
        if f == 0:
            out.append(('el', m))
            i += 1
        elif f == 3:
            out.append(('seq', m))
            i += 1
        elif f == 1 and m % 1000:
            x = (m // 1000) % 100
            out.append(('fix', m % 1000, parse_ids(ids[i + 1:i + 1 + x])))
            i += 1 + x
        else:
            raise ValueError(m)
    return out


def ids_of(nodes):
    out = []
    for nd in nodes:
        k = nd[0]
        if k in ('el', 'seq', 'op'):
            out.append(nd[1])
        elif k == 'c205':
            out.append(205000 + nd[1])
        elif k == 'l206':
            out += [206000 + nd[1], nd[2]]
        elif k == 'a204':
            out += [204000 + nd[1], 31021] + list(nd[2]) + [204000]
        elif k == 'fix':
            m = ids_of(nd[2])
            out += [100000 + len(m) * 1000 + nd[1]] + m
        elif k == 'del':
            m = ids_of(nd[2])
            out += [100000 + len(m) * 1000, nd[1]] + m
        elif k == 'bm':
            _, op, with236, form, nbfixed, _ = nd
            out.append(op * 1000)
            if with236:
                out.append(236000)
            out += [101000, 31002, 31031] if form == 'delayed' else [101000 + nbfixed, 31031]
        elif k == 're':
            out += [nd[1] * 1000, 237000]
        else:
            raise AssertionError(k)
    return out


class Plan(object):
    """subset-independent choices of one case"""

    def __init__(self, rng, nb_mode, bits_mode, nbs):
        self.rng = rng
        self.nb_mode = nb_mode        # 'same' | 'different'
        self.bits_mode = bits_mode    # 'random' | 'all-zero' | 'identical' | 'same-multiset'
        self.nbs = nbs                # nb per bitmap index ('same' mode)
        self._bits = {}

    def pattern(self, k, nb):
        key = (k, nb)
        if key not in self._bits:
            bits = [self.rng.randint(0, 1) for _ in range(nb)]
            if nb >= 2 and len(set(bits)) == 1:
                bits[self.rng.randrange(nb)] ^= 1
            self._bits[key] = bits
        return list(self._bits[key])


class Walk(object):
    """layout of ONE subset: flat entries ('E', id) = plain element descriptor, ('X', label) = anything else"""

    def __init__(self, gen, rng, pre_factors=None, plan=None):
        self.gen = gen
        self.rng = rng
        self.flat = []
        self.forced = {}
        self.assoc = 0
        self.backrefs = None       # number of back referenced descriptors kept (None = none)
        self.zeros = None          # number of bitmapped descriptors of the current bitmap (None = no bitmap)
        self.pre_in = list(pre_factors) if pre_factors is not None else None
        self.pre_out = []
        self.plan = plan
        self.bm_info = []          # (boundary, nb, bits) per definition
        self.ok = True

    def n_elements(self, upto=None):
        fl = self.flat if upto is None else self.flat[:upto]
        return sum(1 for k, _ in fl if k == 'E')

    def element(self, i):
        if self.assoc and i // 1000 != 31:
            self.flat.append(('X', 'A%05d' % i))
        self.flat.append(('E', i))

    def factor(self, fid, role):
        if role == 'pre':
            if self.pre_in is not None:
                f = self.pre_in.pop(0) if self.pre_in else 0
            else:
                f = self.rng.randint(0, 1) if fid == 31000 else self.rng.choice([0, 1, 1, 2, 2, 3])
            self.pre_out.append(f)
        elif role == 'zeros':
            f = self.zeros or 0
        else:   # 'free'
            f = self.rng.randint(0, 1) if fid == 31000 else self.rng.randint(0, 2)
        self.forced.setdefault(fid, []).append(f)
        return f

    def run(self, nodes):
        for nd in nodes:
            k = nd[0]
            if k == 'el':
                self.element(nd[1])
            elif k == 'seq':
                self.run(self.gen.seq_nodes(nd[1]))
            elif k == 'c205':
                self.flat.append(('X', '205'))
            elif k == 'l206':
                self.flat.append(('X', 'S'))
            elif k == 'a204':
                self.assoc += 1
                self.element(31021)
                for i in nd[2]:
                    self.element(i)
                self.assoc -= 1
            elif k == 'fix':
                for _ in range(nd[1]):
                    self.run(nd[2])
            elif k == 'del':
                self.element(nd[1])
                for _ in range(self.factor(nd[1], nd[3])):
                    self.run(nd[2])
            elif k == 'op':
                if nd[1] == 235000:
                    self.backrefs = None
                    self.zeros = None
                else:
                    self.flat.append(('X', str(nd[1])))
            elif k == 're':
                self.flat.append(('X', str(nd[1] * 1000)))
                self.flat.append(('X', '237000'))
                if self.zeros is None:
                    self.ok = False
            elif k == 'bm':
                self.bitmap(nd)
            else:
                raise AssertionError(k)

    def bitmap(self, nd):
        _, op, with236, form, nbfixed, index = nd
        boundary = len(self.flat)
        avail = self.n_elements()
        self.flat.append(('X', str(op * 1000)))
        if with236:
            self.flat.append(('X', '236000'))
        plan = self.plan
        if self.backrefs is not None:
            nb = self.backrefs                 # the kept back references have to match the new bitmap
        elif form == 'fixed':
            nb = nbfixed
        elif plan.nb_mode == 'same':
            nb = plan.nbs[index]
        else:
            nb = self.rng.randint(1, max(1, min(avail, 10)))
        if nb > avail or nb < 1 or (form == 'fixed' and nb != nbfixed):
            self.ok = False
            nb = max(1, min(nb, avail))
        if form == 'delayed':
            self.flat.append(('E', 31002))
            self.forced.setdefault(31002, []).append(nb)
        mode = plan.bits_mode
        if mode == 'all-zero':
            bits = [0] * nb
        elif mode == 'identical':
            bits = plan.pattern(index, nb)
        elif mode == 'same-multiset':
            bits = plan.pattern(index, nb)
            self.rng.shuffle(bits)
        else:
            bits = [self.rng.randint(0, 1) for _ in range(nb)]
        for b in bits:
            self.flat.append(('E', 31031))
        self.forced.setdefault(31031, []).extend(bits)
        self.backrefs = nb
        self.zeros = bits.count(0)
        self.bm_info.append((boundary, nb, tuple(bits)))


class LayoutGen(object):
    def __init__(self, rng, tg=None):
        self.rng = rng
        self.tg = tg or C.TemplateGen(rng, level=0)
        b = self.tg.b
        cand = [i for i in self.tg.numeric if i // 1000 != 33] + self.tg.codeflag + \
               [i for i in self.tg.string if b[i][4] <= 64]
        self.cand = sorted(set(cand))
        self.q33 = sorted(set(self.tg.class33) | ({33007} if 33007 in b else set()))
        self._seq = {}
        self.seqs = [s for s in self.tg.small_seq if self._seq_ok(s)]

    # -- tables ---------------------------------------------------------------------------------
    def seq_nodes(self, sid):
        if sid not in self._seq:
            self._seq[sid] = parse_ids([int(m) for m in self.tg.d[sid][1]])
        return self._seq[sid]

    def _seq_ok(self, sid, depth=0):
        """only plain elements (no class 31 / 33), sequences and fixed replication inside, at most 8 flat entries"""
        try:
            w = Walk(self, self.rng)
            w.run([('seq', sid)])
        except (ValueError, KeyError, RecursionError):
            return False
        return 1 <= len(w.flat) <= 8 and all(i in self.tg.b and i // 1000 not in (31, 33) for _, i in w.flat)

    def pool(self, size=9):
        """elements of pairwise different widths"""
        rng = self.rng
        out, seen = [], set()
        for _ in range(200):
            e = rng.choice(self.cand)
            nb = self.tg.b[e][4]
            if nb in seen:
                continue
            seen.add(nb)
            out.append(e)
            if len(out) == size:
                break
        return out

    # -- PRE ------------------------------------------------------------------------------------
    def take(self, pool):
        if not pool:
            pool.extend(self.pool())
        return pool.pop()

    def non_element(self):
        rng = self.rng
        r = rng.random()
        if r < 0.45:
            return ('c205', rng.randint(1, 5))
        if r < 0.8:
            return ('l206', rng.randint(1, 24), rng.choice(LOCAL_IDS))
        return ('a204', rng.randint(1, 8), [self.rng.choice(self.cand) for _ in range(rng.randint(1, 2))])

    def member(self, pool, depth, role='pre'):
        rng = self.rng
        r = rng.random()
        if r < 0.62:
            return ('el', self.take(pool))
        if r < 0.78:
            return self.non_element()
        if r < 0.88 and depth < 2:
            return self.delayed(pool, depth + 1, role)
        if r < 0.94:
            return ('fix', rng.randint(1, 2), [('el', self.take(pool)) for _ in range(rng.randint(1, 2))])
        if self.seqs:
            return ('seq', rng.choice(self.seqs))
        return ('el', self.take(pool))

    def delayed(self, pool, depth, role):
        rng = self.rng
        k = rng.choice([1, 1, 1, 2, 2, 3]) if depth == 0 else rng.choice([1, 1, 2])
        members = [self.member(pool, depth, role) for _ in range(k)]
        if not any(m[0] in ('el', 'fix', 'seq', 'del') for m in members):
            members.append(('el', self.take(pool)))
        fid = rng.choice([31001, 31001, 31001, 31002, 31000])
        return ('del', fid, members, role)

    def pre(self, pool):
        rng = self.rng
        nodes = []
        for _ in range(rng.choice([0, 0, 1, 2])):
            nodes.append(('el', self.take(pool)))
        n_var = rng.choice([1, 2, 2, 2, 2, 3, 3])
        for j in range(n_var):
            nodes.append(self.delayed(pool, 0, 'pre'))
            if j + 1 < n_var and rng.random() < 0.3:
                nodes.append(self.member(pool, 2) if rng.random() < 0.6 else self.non_element())
        if n_var == 1 and nodes[-1][0] == 'del' and not any(m[0] == 'del' for m in nodes[-1][2]):
            # a single replication cannot compensate itself: give it a nested one
            nodes[-1][2].append(self.delayed(pool, 1, 'pre'))
        r = rng.random()
        if r < 0.2:
            nodes.append(('el', self.take(pool)))
        elif r < 0.3:
            nodes.append(self.non_element())
        return nodes

    # -- bitmap constructs ----------------------------------------------------------------------
    def attributes(self, op, fixed_zeros=None):
        """the run of attributes that follows a bitmap (definition or recall) of operator `op`"""
        rng = self.rng
        nodes = []
        if op == 222:
            if rng.random() < 0.3:
                nodes += [('el', 1031), ('el', 1032)]
            member = ('el', rng.choice(self.q33))
        else:
            if op == 224:
                nodes.append(('el', 8023))
            elif op == 225:
                nodes.append(('el', 8024))
            member = ('op', op * 1000 + 255)
        if fixed_zeros:
            nodes.append(('fix', fixed_zeros, [member]))
        else:
            nodes.append(('del', rng.choice([31001, 31002, 31002]), [member], 'zeros'))
        return nodes

    def sections(self, pool, plan, fixed_nb, fixed_zeros):
        """-> nodes ; the first definition may use fixed replication (counts known for all subsets)"""
        rng = self.rng
        nodes = []
        index = 0
        op = rng.choice([222, 222] + list(MARKER_OPS) * 2)
        with236 = rng.random() < 0.4
        form = 'fixed' if fixed_nb and rng.random() < 0.4 else 'delayed'
        nodes.append(('bm', op, with236, form, fixed_nb if form == 'fixed' else 0, index))
        nodes += self.attributes(op, fixed_zeros if (fixed_zeros and rng.random() < 0.4) else None)
        have_bitmap, kept = True, True
        for _ in range(rng.choice([0, 0, 1, 1, 2])):
            r = rng.random()
            if r < 0.3 and have_bitmap:
                op2 = rng.choice([222] + list(MARKER_OPS) * 2)
                nodes.append(('re', op2))
                nodes += self.attributes(op2)
                if rng.random() < 0.4:
                    nodes.append(('op', 237255))
            elif r < 0.6:
                nodes.append(('op', 235000))
                have_bitmap, kept = False, False
                for _ in range(rng.choice([0, 0, 1, 1, 2])):
                    if rng.random() < 0.5:
                        nodes.append(self.delayed(pool, 1, 'free'))
                    else:
                        nodes.append(('el', self.take(pool)))
                index += 1
                op2 = rng.choice([222] + list(MARKER_OPS) * 2)
                nodes.append(('bm', op2, rng.random() < 0.4, 'delayed', 0, index))
                nodes += self.attributes(op2)
                have_bitmap, kept = True, True
            elif r < 0.8 and kept:
                # a new definition without 235000: the back references of the previous definition are kept
                if rng.random() < 0.4:
                    nodes.append(('op', 237255))
                index += 1
                op2 = rng.choice([222] + list(MARKER_OPS) * 2)
                nodes.append(('bm', op2, rng.random() < 0.4, 'delayed', 0, index))
                nodes += self.attributes(op2)
            else:
                if rng.random() < 0.5:
                    nodes.append(self.delayed(pool, 1, 'free'))
                else:
                    nodes.append(('el', self.take(pool)))
        r = rng.random()
        if r < 0.3:
            nodes.append(('el', self.take(pool)))
        elif r < 0.4:
            nodes.append(('op', 235000))
        elif r < 0.5:
            nodes += [('op', 235000), ('el', self.take(pool))]
        return nodes

    # -- a case ---------------------------------------------------------------------------------
    def make(self, idx):
        rng = self.rng
        pool = self.pool()
        pre = self.pre(pool)
        # sample walks of PRE, group by flat length
        samples, seen = [], set()
        for _ in range(28):
            w = Walk(self, rng)
            w.run(pre)
            sig = tuple(w.flat)
            if sig in seen:
                continue
            seen.add(sig)
            samples.append((len(w.flat), w.n_elements(), w.pre_out, sig))
        groups = {}
        for s in samples:
            groups.setdefault(s[0], []).append(s)
        multi = sorted(L for L, g in groups.items() if len(g) >= 2)
        n = rng.randint(2, 5)
        chosen = []
        if multi and rng.random() < 0.85:
            g = groups[rng.choice(multi)]
            chosen = rng.sample(g, 2)
            while len(chosen) < n:
                r = rng.random()
                chosen.append(rng.choice(g) if r < 0.45 else rng.choice(chosen) if r < 0.65 else rng.choice(samples))
        else:
            chosen = [rng.choice(samples) for _ in range(n)]
        rng.shuffle(chosen)
        min_e = min(s[1] for s in chosen)
        # plan
        nb_mode = 'same' if rng.random() < 0.65 else 'different'
        if nb_mode == 'same':
            bits_mode = rng.choice(['random', 'random', 'all-zero', 'identical', 'same-multiset', 'same-multiset'])
        else:
            bits_mode = rng.choice(['random', 'random', 'all-zero'])
        m = max(1, min(min_e, 10))
        nbs = [rng.randint((m + 1) // 2, m) if rng.random() < 0.7 else rng.randint(1, m) for _ in range(4)]
        plan = Plan(rng, nb_mode, bits_mode, nbs)
        fixed_nb = nbs[0] if nb_mode == 'same' else 0
        fixed_zeros = 0
        if nb_mode == 'same' and bits_mode in ('identical', 'same-multiset'):
            fixed_zeros = plan.pattern(0, nbs[0]).count(0)
        elif nb_mode == 'same' and bits_mode == 'all-zero':
            fixed_zeros = nbs[0]
        nodes = pre + self.sections(pool, plan, fixed_nb, fixed_zeros)
        ids = ids_of(nodes)
        fps, walks, ok = [], [], True
        for s in chosen:
            w = Walk(self, rng, pre_factors=s[2], plan=plan)
            w.run(nodes)
            ok = ok and w.ok
            fps.append(w.forced)
            walks.append(w)
        c = P.Case([ids], [], n, False, rng.choice([4, 4, 3]), idx)
        # the class the older generators missed: equal boundary and bitmap length, different arrangement below
        first = [(w.bm_info[0][0], w.bm_info[0][1]) for w in walks]
        below = [tuple(w.flat[:w.bm_info[0][0]]) for w in walks]
        comp = any(first[i] == first[j] and below[i] != below[j] for i in range(n) for j in range(i + 1, n))
        comp_sel = False
        for i in range(n):
            for j in range(n):
                if i != j and first[i] == first[j] and below[i] != below[j]:
                    ei = [x for x in below[i] if x[0] == 'E'][-first[i][1]:]
                    ej = [x for x in below[j] if x[0] == 'E'][-first[j][1]:]
                    bits = walks[j].bm_info[0][2]
                    if any(b == 0 and p != q for b, p, q in zip(bits, ei, ej)):
                        comp_sel = True
        same_desc = False
        flats = [tuple(w.flat) for w in walks]
        for i in range(n):
            for j in range(i + 1, n):
                if flats[i] == flats[j] and [x[2] for x in walks[i].bm_info] != [x[2] for x in walks[j].bm_info]:
                    same_desc = True
        tags = ['layout', 'nb-' + nb_mode, 'bits-' + bits_mode]
        if comp:
            tags.append('compensating')
        if comp_sel:
            tags.append('compensating-selected')
        if same_desc:
            tags.append('equal-descriptors-other-bits')
        if not ok:
            tags.append('inconsistent')
        if len(walks[0].bm_info) > 1:
            tags.append('bitmaps-%d' % len(walks[0].bm_info))
        if any(x in ids for x in (237000,)):
            tags.append('recall')
        if 235000 in ids:
            tags.append('cancel')
        c.note = ' '.join(tags)
        return c, fps
