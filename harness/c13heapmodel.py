"""
C13: correspondence of the HEAP model (lean/BufrModel/Msg/Heap.lean, driver op `heap`, which executes Heap.hStep - the
function the theorems of Props/C13Heap.lean are about - next to Cache.step) with the implementation, on EVERY history of
the oracle:

  * outcome class of every operation (ok / error);
  * the IDENTITY PATTERN of the per-subset descriptor lists and link dicts of the message a decode / encode creates:
    the model's message object holds n references to ONE list ("shared") for compressed data and n lists ("separate")
    otherwise; the implementation side is what the instrumented CoderState.__init__ / TemplateData.__init__ saw (`is`);
  * `stable`: in the model no cell reachable from a cache changes during an operation (only the Table C memo, which no
    reader sees); the implementation side of that statement is the digest audit of harness/c13heap.py (its violations are
    reported by c13.py as failures of the model's hypothesis Sep);
  * the model's own checks on this history: outputs of the heap model = outputs of the value model (`refines`), the
    allocation bound of Sep (`sep`).
The number of subsets and the compression flag of every input are taken from the implementation (the coder is abstract
in the model); what is compared is the sharing the model derives from them.
"""
import json


def shapes_of(hists, results, fresh_heaps):
    """(src, m) -> (compressed, n) as the implementation's CoderState saw it"""
    shape = {}

    def feed(op, recs):
        if op.get('k') not in ('proc', 'wire', 'view') or not recs:
            return
        r = [x for x in recs if x.get('n', -1) >= 0]
        if r:
            shape.setdefault((op['src'], op['m']), (bool(r[-1]['compressed']), int(r[-1]['n'])))
    for (limit, ops), res in zip(hists, results):
        hp = (res.get('heap') or {}).get('pat') or []
        for op, recs in zip(ops, hp):
            feed(op, recs)
    for op, h in fresh_heaps:
        hp = (h or {}).get('pat') or []
        if hp:
            feed(op, hp[0])
    return shape


def heap_correspondence(ctx, c13, hists, results, distinct, refs, refev, fresh_heaps):
    facts = c13.build_facts(distinct, refs, refev)
    shape = shapes_of(hists, results, fresh_heaps)
    reqs, metas = [], []
    for hi, ((limit, ops), res) in enumerate(zip(hists, results)):
        if not res.get('heap'):
            continue
        sr = c13.session_request(limit, ops, res, facts)
        if sr is None:
            ctx.count('heap-model:histories not expressible in the model')
            continue
        req, last, names = sr
        inv = {i: k for k, i in names['inputs'].items()}
        sh = []
        for i in range(len(req['inputs'])):
            c, n = shape.get(inv.get(i), (False, 1))
            sh.append([c, n])
        reqs.append(dict(req, op='heap', shape=sh))
        metas.append((hi, last))
    if not reqs:
        return
    for (hi, last), m in zip(metas, ctx.driver.batch(reqs)):
        limit, ops = hists[hi]
        res = results[hi]
        ctx.traces += 1
        ctx.count('heap-model:histories executed on the heap model')
        ctx.count('heap-model:operations', len(m['out']))
        ctx.count('heap-model:cells allocated', m.get('cells', 0))
        why = None
        if not m.get('refines', False):
            why = ('model', 'the heap model and the value model disagree on an output of this history (C13_heap_refines_value_model)')
        elif not all(m['stable']):
            why = ('model', 'a cached cell of the heap model changed during operation %d' % m['stable'].index(False))
        elif not all(m['sep']):
            why = ('model', 'the allocation bound of Sep fails after operation %d' % m['sep'].index(False))
        hp = res['heap'].get('pat') or []
        for i, (op, o) in enumerate(zip(ops, res['out'])):
            if why or i >= len(last):
                break
            k, idx = last[i]
            if k not in ('proc', 'wire', 'view'):
                continue
            impl_err = isinstance(o, str) and o.startswith('err')
            mod_err = m['out'][idx] == 'err'
            if impl_err != mod_err:
                why = ('outcome', 'operation %d (%s on %s): implementation %s, heap model %s'
                       % (i, c13.kind_str(op), op.get('m'), 'fails' if impl_err else 'succeeds', m['out'][idx]))
                break
            recs = [r for r in (hp[i] if i < len(hp) else []) if r.get('n', -1) >= 0]
            if impl_err or not recs or m['pat'][idx] is None:
                continue
            r = recs[-1]
            ctx.count('heap-model:identity patterns compared:%s' % ('compressed' if r['compressed'] else 'uncompressed'))
            ctx.count('heap-model:identity pattern:%s/%s' % (r['desc'], r['links']))
            if [r['desc'], r['links']] != m['pat'][idx]:
                why = ('identity', 'operation %d (%s on %s, %s, %d subsets): the per-subset descriptor lists / link dicts of the '
                       'implementation are %s / %s, of the heap model %s / %s'
                       % (i, c13.kind_str(op), op.get('m'), 'compressed' if r['compressed'] else 'uncompressed', r['n'],
                          r['desc'], r['links'], m['pat'][idx][0], m['pat'][idx][1]))
                break
        if why:
            ctx.violation('heap model: history %d: %s' % (hi, why[1]), {'mode': 'history', 'limit': limit, 'ops': ops},
                          signature={'kind': 'heap-model-correspondence', 'what': why[0]}, no_failing_input=True)
