"""
Whole-message helpers shared by the framing checks (C04, C17, ...):

  * generation of encoder inputs (pybufrkit JSON: one value list per section) from the section layouts
    found in /repo/pybufrkit/definitions, with a data section of k one-bit elements (031031 repeated);
  * running pybufrkit's Encoder / Decoder and canonicalising what they return;
  * the same requests for the model driver (ops `msg-encode`, `msg-decode`, `mdquery`);
  * an independent structural parser of a produced message (the oracle of C04).
"""
import os

from harness import core, gen_layouts
from harness import objs

ONE_BIT = 31031  # DATA PRESENT INDICATOR, flag table, 1 bit

_LAYOUTS = None


def layouts():
    """{(index, edition_key): json layout} as SectionConfigurer loads them"""
    global _LAYOUTS
    if _LAYOUTS is None:
        _LAYOUTS = {}
        for index, edition, data, fname in gen_layouts.load_definitions():
            _LAYOUTS[(index, edition)] = data
    return _LAYOUTS


def layout_for(index, edition):
    L = layouts()
    return L.get((index, edition), L[(index, 0)])


def rand_bits(rng, n):
    return ''.join(rng.choice('01') for _ in range(n))


def make_message(rng, edition, k, sec2=None, n_subsets=1, declared=None, randomize=True):
    """Encoder input with k one-bit elements per subset.
    sec2: None (absent) or a bit string (local bits).  declared: {section index: section_length, 'total': length}
    Returns (json_sections, payload_bits)."""
    declared = declared or {}
    payload = rand_bits(rng, k * n_subsets)
    subsets = [[int(c) for c in payload[i * k:(i + 1) * k]] for i in range(n_subsets)]
    out = []
    for index in range(6):
        if index == 2 and sec2 is None:
            continue
        lay = layout_for(index, edition if index else 0)
        vals = []
        for p in lay['parameters']:
            name, nbits, ty = p['name'], p['nbits'], p['type']
            if p.get('expected') is not None:
                v = p['expected']
            elif name == 'section_length':
                v = declared.get(index, 0)
            elif name == 'length':
                v = declared.get('total', 0)
            elif name == 'edition':
                v = edition
            elif name == 'is_section2_presents':
                v = sec2 is not None
            elif name == 'n_subsets':
                v = n_subsets
            elif name == 'is_compressed':
                v = False
            elif name == 'master_table_number':
                v = 0
            elif name == 'master_table_version':
                v = 29 if edition >= 3 else 13
            elif name == 'local_table_version':
                v = 0
            elif name in ('originating_centre', 'originating_subcentre'):
                v = rng.choice([0, 98, 7, 254]) if randomize else 98
            elif ty == 'unexpanded_descriptors':
                v = [ONE_BIT] * k
            elif ty == 'template_data':
                v = subsets
            elif ty == 'uint':
                v = rng.randrange(2 ** nbits) if randomize else 1
            elif ty == 'int':
                v = rng.randrange(-(2 ** (nbits - 1)) + 1, 2 ** (nbits - 1)) if randomize else 1
            elif ty == 'bool':
                v = bool(rng.getrandbits(1)) if randomize else True
            elif ty == 'bin':
                if nbits == 0:
                    v = sec2 if index == 2 else ''
                else:
                    v = rand_bits(rng, nbits) if randomize else '0' * nbits
            elif ty == 'bytes':
                v = ''.join(chr(rng.randrange(32, 127)) for _ in range(nbits // 8))
            else:
                raise core.MachineryError('unknown parameter type %r' % ty)
            vals.append(v)
        out.append(vals)
    return out, payload


# ---------------------------------------------------------------------------------------------
# values <-> the driver's tagged form
def tag_value(ty, v):
    if ty in ('uint', 'int'):
        return ['i', int(v)]
    if ty == 'bool':
        return ['b', bool(v)]
    if ty == 'bin':
        return ['bin', v]
    if ty == 'bytes':
        if isinstance(v, str):
            v = v.encode('latin-1')
        return ['hex', v.hex()]
    if ty == 'unexpanded_descriptors':
        return ['d', [int(x) for x in v]]
    if ty == 'template_data':
        return ['data']
    raise core.MachineryError('unknown parameter type %r' % ty)


def model_sections(json_sections, edition):
    """tag the values of an encoder input using the layouts the encoder will pick"""
    res = []
    present = [0, 1] + ([2] if len(json_sections) == 6 else []) + [3, 4, 5]
    for index, vals in zip(present, json_sections):
        lay = layout_for(index, edition if index else 0)
        res.append([tag_value(p['type'], v) for p, v in zip(lay['parameters'], vals)])
    return res


def encode_req(json_sections, edition, payload, ignore_declared=True):
    return {'op': 'msg-encode', 'sections': model_sections(json_sections, edition), 'payload': payload,
            'ignore_declared': ignore_declared}


def decode_req(b, data_bits, info_only=False, ignore_expect=False):
    return {'op': 'msg-decode', 'hex': b.hex(), 'data_bits': data_bits, 'info_only': info_only,
            'ignore_expect': ignore_expect}


# ---------------------------------------------------------------------------------------------
# implementation side
def _bitpos_start(section):
    from pybufrkit.constants import BITPOS_START
    return section.get_metadata(BITPOS_START)


def impl_encode(json_sections, ignore_declared=True):
    """-> {'hex':..., 'trace': [[index, nbits]...], 'lengths': {...}} or {'err': tag}"""
    from pybufrkit.encoder import Encoder
    try:
        m = objs.encoder(ignore_declared_length=ignore_declared).process(json_sections, wire_template_data=False)
    except Exception as e:  # noqa
        return {'err': core.err_tag(e)}
    b = m.serialized_bytes
    starts = [_bitpos_start(s) for s in m.sections] + [len(b) * 8]
    trace = [[s.get_metadata('index'), starts[i + 1] - starts[i]] for i, s in enumerate(m.sections)]
    lengths = {'total': m.length.value}
    for s in m.sections:
        if 'section_length' in s:
            lengths[s.get_metadata('index')] = s.section_length.value
    return {'hex': b.hex(), 'trace': trace, 'lengths': lengths}


def canon_section(s):
    return [[p.name, tag_value(p.type, p.value)] for p in s]


def impl_decode(b, info_only=False, ignore_expect=False):
    from pybufrkit.decoder import Decoder
    try:
        m = objs.decoder().process(b, info_only=info_only, ignore_value_expectation=ignore_expect,
                              wire_template_data=False)
    except Exception as e:  # noqa
        return {'err': core.err_tag(e)}
    ser = m.serialized_bytes
    starts = [_bitpos_start(s) for s in m.sections]
    total = sum_bits = None
    secs = []
    for i, s in enumerate(m.sections):
        secs.append({'index': s.get_metadata('index'), 'params': canon_section(s)})
    data = None
    if not info_only:
        td = m.template_data.value
        try:
            data = ''.join(str(int(v)) for subset in td.decoded_values_all_subsets for v in subset)
        except (TypeError, ValueError):
            data = 'opaque'  # a real template (sample files): the values are not one-bit elements
    return {'sections': secs, 'starts': starts, 'data': data, 'serialized': ser.hex(), '_msg': m}


def strip_model_decode(o):
    """model response -> the comparable part, same shape as impl_decode (minus _msg)"""
    if 'err' in o:
        return o
    starts, pos = [], 0
    for s in o['sections']:
        starts.append(pos)
        pos += s['nbits']
    return {'sections': [{'index': s['index'], 'params': s['params']} for s in o['sections']],
            'starts': starts, 'data': o['data'], 'serialized': o['serialized']}


def comparable(o):
    return {k: v for k, v in o.items() if not k.startswith('_') and k != 'lengths'}


# ---------------------------------------------------------------------------------------------
# independent structural parser (oracle): recompute every length field from the bytes
def parse_frame(b):
    """Split a message by its own length fields.  Returns dict with total, edition, sections
    [(index, offset, declared_len)], or raises ValueError."""
    if b[:4] != b'BUFR':
        raise ValueError('no BUFR')
    total = int.from_bytes(b[4:7], 'big')
    ed = b[7]
    pos = 8
    secs = [(0, 0, 8)]
    n1 = int.from_bytes(b[pos:pos + 3], 'big')
    flag_off = {2: 7, 3: 7}.get(ed, 9)
    has2 = bool(b[pos + flag_off] & 0x80)
    secs.append((1, pos, n1))
    pos += n1
    if has2:
        n2 = int.from_bytes(b[pos:pos + 3], 'big')
        secs.append((2, pos, n2))
        pos += n2
    for i in (3, 4):
        n = int.from_bytes(b[pos:pos + 3], 'big')
        secs.append((i, pos, n))
        pos += n
    secs.append((5, pos, 4))
    return {'total': total, 'edition': ed, 'sections': secs, 'end': pos + 4}
