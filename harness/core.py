"""
Core of the verification harness (see DESIGN.md section 3).

  * builds the Lean project (model + theorems + driver) from /verif/lean,
  * audits the theorems of a property (`#print axioms`, forbidden-token grep),
  * talks to the compiled model driver `bufrdrv` (JSON lines),
  * canonicalises implementation errors,
  * reports violations / known findings and writes the evidence file.

Exit codes of a check: 0 = property held on everything explored, 1 = violation (a VIOLATION line
was printed), 2 = machinery error (no VIOLATION line).
"""
from __future__ import annotations

import hashlib
import json
import os
import random
import re
import subprocess
import sys
import time

VERIF = os.path.dirname(os.path.dirname(os.path.abspath(__file__)))
LEAN = os.path.join(VERIF, 'lean')
REPO = os.environ.get('VERIF_REPO', '/repo')
DRIVER = os.path.join(LEAN, '.lake', 'build', 'bin', 'bufrdrv')
GUARD = 'PYBUFRKIT_VERIF'

os.environ.setdefault(GUARD, '1')
import logging  # noqa: E402
logging.basicConfig(level=logging.ERROR)   # pybufrkit logs table fall-backs as warnings
if REPO not in sys.path:
    sys.path.insert(0, REPO)

ALLOWED_AXIOMS = {'propext', 'Classical.choice', 'Quot.sound'}
FORBIDDEN = re.compile(r'\b(sorry|admit|native_decide|bv_decide|implemented_by|unsafe)\b|^\s*axiom\s|maxHeartbeats\s+0\b')


class MachineryError(Exception):
    pass


# --------------------------------------------------------------------------------------------
# errors of the implementation -> families
def err_tag(e):
    from pybufrkit import errors as E
    if isinstance(e, E.BitReadError):
        return 'err:lib:bitread'
    if isinstance(e, E.UnknownDescriptor):
        return 'err:lib:unknown-descriptor'
    if isinstance(e, E.PathExprParsingError):
        return 'err:lib:path'
    if isinstance(e, E.MetadataExprParsingError):
        return 'err:lib:mdexpr'
    if isinstance(e, E.QueryError):
        return 'err:lib:query'
    if isinstance(e, E.PyBufrKitError):
        return 'err:lib'
    return 'err:other'


def is_lib(tag):
    return isinstance(tag, str) and tag.startswith('err:lib')


# --------------------------------------------------------------------------------------------
# Lean side
def run(cmd, cwd=None, timeout=3600, env=None):
    p = subprocess.run(cmd, cwd=cwd, stdout=subprocess.PIPE, stderr=subprocess.STDOUT,
                       timeout=timeout, env=env, text=True)
    return p.returncode, p.stdout


def lean_sources():
    out = []
    for root, dirs, files in os.walk(LEAN):
        dirs[:] = [d for d in dirs if d not in ('.lake',)]
        for f in sorted(files):
            if f.endswith('.lean') and f != 'Audit.lean':
                out.append(os.path.join(root, f))
    return sorted(out)


def sources_hash():
    h = hashlib.sha256()
    for p in lean_sources():
        h.update(p.encode())
        with open(p, 'rb') as f:
            h.update(f.read())
    return h.hexdigest()


def regenerate():
    """Regenerate the model files that are translated from /repo on every run."""
    from harness import gen_layouts, py2lean
    a = gen_layouts.regenerate()
    # the self-contained pure parts of the Python source -> Gen/Py*.lean (notes/Tie.md); a construct outside
    # the translated subset yields a file that does not compile (a broken tie), never stale output
    b = py2lean.regenerate()
    return a or b


def build():
    """Regenerate + lake build.  Returns (ok, log, regenerated_changed)."""
    changed = regenerate()
    rc, out = run(['lake', 'build', 'BufrModel', 'bufrdrv'], cwd=LEAN, timeout=7200)
    return rc == 0, out, changed


def prop_modules(prop):
    """Props/<prop>.lean and Props/<prop><Suffix>.lean (e.g. C03Walk.lean): module names"""
    d = os.path.join(LEAN, 'BufrModel', 'Props')
    out = []
    for f in sorted(os.listdir(d)):
        if re.match(r'%s[A-Za-z]*\.lean$' % prop, f):
            out.append('BufrModel.Props.' + f[:-5])
    return out


def theorems_of(prop):
    """Names of the theorems in Props/<prop>*.lean (the proof obligations of the property)."""
    names = []
    for mod in prop_modules(prop):
        path = os.path.join(LEAN, *mod.split('.')) + '.lean'
        with open(path) as f:
            for line in strip_comments(f.read()).split('\n'):
                m = re.match(r'\s*theorem\s+([A-Za-z0-9_\.]+)', line)
                if m and m.group(1).startswith(prop):
                    names.append(m.group(1))
    return names


def all_props_with_files():
    d = os.path.join(LEAN, 'BufrModel', 'Props')
    return sorted(f[:-5] for f in os.listdir(d) if re.match(r'C\d\d\.lean$', f))


def strip_comments(text):
    # remove /- ... -/ (nested) and -- comments
    out = []
    i = 0
    depth = 0
    n = len(text)
    while i < n:
        if text.startswith('/-', i):
            depth += 1
            i += 2
        elif depth and text.startswith('-/', i):
            depth -= 1
            i += 2
        elif depth:
            i += 1
        elif text.startswith('--', i):
            while i < n and text[i] != '\n':
                i += 1
        else:
            out.append(text[i])
            i += 1
    return ''.join(out)


def import_closure(prop):
    """Lean source files in the import closure of Props/<prop>.lean (project files only)."""
    seen = {}
    todo = list(prop_modules(prop))
    while todo:
        m = todo.pop()
        if m in seen:
            continue
        path = os.path.join(LEAN, *m.split('.')) + '.lean'
        if not os.path.exists(path):
            continue
        seen[m] = path
        with open(path) as f:
            for line in f:
                mm = re.match(r'\s*import\s+(BufrModel\.[A-Za-z0-9_.]+)', line)
                if mm:
                    todo.append(mm.group(1))
    return sorted(seen.values())


def closure_modules(prop):
    """module names of the project files in the import closure of the property's theorem files"""
    out = []
    for path in import_closure(prop):
        rel = os.path.relpath(path, LEAN)
        out.append(rel[:-5].replace(os.sep, '.'))
    return sorted(out)


def forbidden_tokens(prop=None):
    """Forbidden constructs outside comments, per file (files in the import closure of the property's theorems)."""
    hits = []
    for p in (import_closure(prop) if prop else lean_sources()):
        with open(p) as f:
            code = strip_comments(f.read())
        for ln, line in enumerate(code.split('\n'), 1):
            # string literals may legitimately contain words; drop them
            line_ns = re.sub(r'"(\\.|[^"\\])*"', '""', line)
            if FORBIDDEN.search(line_ns):
                hits.append('%s: %s' % (os.path.relpath(p, LEAN), line.strip()[:120]))
    return hits


def audit(prop):
    """Run `#print axioms` for every theorem of Props/<prop>.lean; cached by source hash.
    Returns (dict theorem -> list of axioms, raw text)."""
    h = sources_hash()
    cdir = os.path.join(VERIF, '.cache')
    os.makedirs(cdir, exist_ok=True)
    cache = os.path.join(cdir, 'audit_%s.txt' % prop)
    cache_h = os.path.join(cdir, 'audit_%s.hash' % prop)
    if os.path.exists(cache) and os.path.exists(cache_h) and open(cache_h).read().strip() == h:
        text = open(cache).read()
    else:
        names = theorems_of(prop)
        ptxt = ''.join(open(os.path.join(LEAN, *m.split('.')) + '.lean').read() for m in prop_modules(prop))
        spaces = sorted(set(re.findall(r'^namespace\s+(\S+)', ptxt, re.M)) | {'Bufr'})
        src = ''.join('import %s\n' % m for m in prop_modules(prop)) + ''.join('open %s\n' % ns for ns in spaces) + ''.join('#print axioms %s\n' % n for n in names)
        apath = os.path.join(cdir, 'Audit_%s.lean' % prop)
        with open(apath, 'w') as f:
            f.write(src)
        rc, text = run(['lake', 'env', 'lean', apath], cwd=LEAN, timeout=3600)
        with open(cache, 'w') as f:
            f.write(text)
        with open(cache_h, 'w') as f:
            f.write(h)
    res = {}
    for m in re.finditer(r"'([^']+)' depends on axioms: \[([^\]]*)\]", text):
        res[m.group(1).split('.')[-1]] = [a.strip() for a in m.group(2).replace('\n', ' ').split(',') if a.strip()]
    for m in re.finditer(r"'([^']+)' does not depend on any axioms", text):
        res[m.group(1).split('.')[-1]] = []
    return res, text


class Driver(object):
    """Batch interface to the compiled model driver."""

    def __init__(self):
        if not os.path.exists(DRIVER):
            raise MachineryError('model driver not built: ' + DRIVER)

    def batch(self, requests, timeout=3600):
        if not requests:
            return []
        data = ''.join(json.dumps(r, separators=(',', ':')) + '\n' for r in requests)
        p = subprocess.run([DRIVER], input=data, stdout=subprocess.PIPE, stderr=subprocess.PIPE,
                           text=True, timeout=timeout)
        lines = p.stdout.split('\n')
        if lines and lines[-1] == '':
            lines.pop()
        if p.returncode != 0 or len(lines) != len(requests):
            raise MachineryError('driver failed rc=%s, %d responses for %d requests: %s' % (
                p.returncode, len(lines), len(requests), p.stderr[-2000:]))
        out = [json.loads(l) for l in lines]
        for req, o in zip(requests, out):
            if isinstance(o, dict) and 'driver_error' in o:
                raise MachineryError('driver error %r on request %s' % (o['driver_error'], json.dumps(req)[:500]))
        return out


# --------------------------------------------------------------------------------------------
def rng_for(prop, seed, stream):
    return random.Random('%s:%s:%s' % (prop, seed, stream))


def chash(obj):
    return hashlib.sha256(json.dumps(obj, sort_keys=True, default=repr).encode()).hexdigest()[:16]


def repo_identity():
    try:
        head = subprocess.run(['git', '-C', REPO, 'rev-parse', 'HEAD'], stdout=subprocess.PIPE, text=True).stdout.strip()
        diff = subprocess.run(['git', '-C', REPO, 'diff', 'HEAD'], stdout=subprocess.PIPE).stdout
        return {'head': head, 'worktree_diff_sha': hashlib.sha256(diff).hexdigest()[:16], 'dirty': bool(diff)}
    except Exception as e:  # pragma: no cover
        return {'error': repr(e)}


class Context(object):
    """Everything a property check needs: seed, tier, driver, reporting, evidence."""

    def __init__(self, prop, tier, seed):
        self.prop = prop
        self.tier = tier
        self.seed = seed
        self.t0 = time.time()
        self.violations = 0
        self.known_hits = []
        self.evaluations = 0
        self.nontrivial = set()
        self.samples = []
        self.dist = {}
        self.notes = []
        self.traces = 0
        self.exhaustive = None
        self.rule = ''
        self.assumptions = []
        self.driver = None
        self.theorems = []
        self.axioms = {}
        self.discharged = []
        self.undischarged = []
        self.findings = load_known_findings()
        self._seen_viol = set()
        self.violation_count_by_sig = {}
        self.extra_nontrivial = 0  # distinct non-trivial cases counted in bulk (enumerations)

    # -- bookkeeping -----------------------------------------------------------------
    def rng(self, stream):
        return rng_for(self.prop, self.seed, stream)

    def count(self, key, n=1):
        self.dist[key] = self.dist.get(key, 0) + n

    def case(self, obj, nontrivial=True, sample=False):
        self.evaluations += 1
        if nontrivial:
            self.nontrivial.add(chash(obj))
        if sample and len(self.samples) < 6:
            self.samples.append(obj)

    # -- reporting -------------------------------------------------------------------
    def violation(self, what, replay, signature=None, no_failing_input=False):
        """Report a violation unless it matches an open known finding."""
        signature = signature or {}
        for kf in self.findings:
            if kf.get('status') == 'open' and kf.get('property') == self.prop and finding_matches(kf, signature):
                key = ('kf', kf.get('id'))
                if key not in self._seen_viol:
                    self._seen_viol.add(key)
                    print('KNOWN-FINDING: property=%s %s' % (self.prop, kf.get('what', kf.get('id'))))
                    self.known_hits.append(kf.get('id'))
                return False
        key = chash(signature) if signature else chash(what)
        self.violation_count_by_sig[key] = self.violation_count_by_sig.get(key, 0) + 1
        if key in self._seen_viol:
            return True
        self._seen_viol.add(key)
        self.violations += 1
        d = os.path.join(VERIF, 'replays', self.prop)
        os.makedirs(d, exist_ok=True)
        rid = chash(replay)
        path = os.path.join('replays', self.prop, '%s.json' % rid)
        body = {'property': self.prop, 'what': what, 'signature': signature, 'seed': self.seed,
                'tier': self.tier, 'replay': replay,
                'rerun': './check %s --replay %s' % (self.prop, path)}
        if no_failing_input:
            body['no_failing_input_found'] = True
        with open(os.path.join(VERIF, path), 'w') as f:
            json.dump(body, f, indent=1, default=repr)
        if self.violations <= 20:
            print('VIOLATION property=%s replay=%s%s' % (self.prop, path, ' no-failing-input-found' if no_failing_input else ''))
            print('  ' + what[:300])
        sys.stdout.flush()
        return True

    # -- evidence --------------------------------------------------------------------
    def write_evidence(self):
        cov = {
            'obligations': len(self.theorems),
            'discharged': len(self.discharged),
            'checker_cmd': 'cd lean && lake build bufrdrv %s && lake env lean ../.cache/Audit_%s.lean  (generated per run: `#print axioms` for every theorem of Props/%s*.lean; kernel-checked; forbidden-token grep over the import closure)' % (' '.join(prop_modules(self.prop)), self.prop, self.prop),
            'trusted_base': [
                'Lean 4.33.0 kernel/elaborator; axioms used per theorem listed under theorem_axioms (allowed: propext, Classical.choice, Quot.sound)',
                'compiled driver bufrdrv (Lean code generator + C toolchain) executing the model definitions',
                'correspondence harness (harness/*.py): generators, canonicalisation, comparison',
                'hand-written Lean model of the code paths named in DESIGN.md section 4; tied to /repo by the differential run counted in traces_validated_against_impl',
            ],
            'theorems': self.theorems,
            'theorem_axioms': {k: self.axioms.get(k) for k in self.theorems},
            'undischarged': self.undischarged,
            'evaluations': self.evaluations,
            'distinct_nontrivial': len(self.nontrivial) + self.extra_nontrivial,
            'rule': self.rule,
            'samples': self.samples[:6],
            'traces_validated_against_impl': self.traces,
            'input_distribution': self.dist,
            'known_findings_hit': self.known_hits,
            'repo': repo_identity(),
            'notes': self.notes,
        }
        if self.exhaustive is not None:
            if isinstance(self.exhaustive, bool):
                cov['exhaustive'] = self.exhaustive
            else:
                # a sub-space that was enumerated completely (described), inside a run that is not exhaustive as a whole
                cov['exhaustive'] = False
                cov['exhaustive_part'] = self.exhaustive
        src = regenerated_from_source(self.prop)
        if src is not None:
            cov['regenerated_from_source'] = src['items']
            cov['trusted_base'].append(
                'translator harness/py2lean.py (restricted Python -> Lean, construct table in notes/Tie.md) and its primitives '
                'lean/BufrModel/Gen/PyPrelude.lean: the definitions listed under regenerated_from_source are re-translated from the '
                'Python source on every check and proved equal to the model definitions by the theorems named *_src_*')
            if src['errors']:
                cov['regeneration_errors'] = src['errors']
        ev = {
            'property_id': self.prop,
            'tier': self.tier,
            'seed': self.seed,
            'level': 'proof',
            'coverage': cov,
            'assumptions': self.assumptions,
            'wall_s': round(time.time() - self.t0, 2),
            'violations': self.violations,
        }
        os.makedirs(os.path.join(VERIF, 'evidence'), exist_ok=True)
        with open(os.path.join(VERIF, 'evidence', self.prop + '.json'), 'w') as f:
            json.dump(ev, f, indent=1, default=repr)


def regenerated_from_source(prop):
    """The Python definitions that are re-translated to Lean on every run (harness/py2lean.py) and on which the
    `src` theorems of this property rest: 'file:name:first-last line:git blob of the file'.  None when the
    property has no such theorems."""
    try:
        from harness import py2lean
        mods = set(closure_modules(prop))
        man = py2lean.manifest()
        items = ['%s:%s:%d-%d:%s' % (it['file'], it['name'], it['lines'][0], it['lines'][1], it['blob'])
                 for it in man['items'] if it['gen_module'] in mods]
        errors = [e for e in man['errors'] if e['gen_module'] in mods]
        if not items and not errors:
            return None
        return {'items': items, 'errors': errors}
    except Exception as e:  # pragma: no cover
        return {'items': [], 'errors': [{'what': repr(e)}]}


def load_known_findings():
    p = os.path.join(VERIF, 'KNOWN_FINDINGS.json')
    if not os.path.exists(p):
        return []
    with open(p) as f:
        return json.load(f).get('findings', [])


def finding_matches(kf, signature):
    """An open finding suppresses a violation iff every key of its `signature` is present in the
    violation's structural signature with an equal value (lists: finding's list is a subset)."""
    want = kf.get('signature') or {}
    if not want:
        return False
    for k, v in want.items():
        if k not in signature:
            return False
        s = signature[k]
        if isinstance(v, list) and isinstance(s, list):
            if not set(map(json.dumps, v)) <= set(map(json.dumps, s)):
                return False
        elif s != v:
            return False
    return True
