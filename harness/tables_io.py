"""
Streams a bundled (or scratch) table group to the model driver: the `tables` request.
The B/D JSON files are read from /repo's working tree on every run, so the model always works on
the tables the implementation uses.
"""
import json
import os

from harness import core


def tables_root():
    return os.path.join(core.REPO, 'pybufrkit', 'tables')


def unit_kind(unit):
    from pybufrkit.constants import UNITS_STRING, UNITS_FLAG_TABLE, UNITS_CODE_TABLE
    if unit == UNITS_STRING:
        return 's'
    if unit in (UNITS_FLAG_TABLE, UNITS_CODE_TABLE):
        return 'c'
    return 'n'


def read_group(wmo_sn=('0', '0_0', '33'), local_sn=None, root=None, extra_b=None, extra_d=None):
    """Merged B and D dictionaries in the order the implementation merges them
    (WMO file, local file, extra entries; later wins)."""
    root = root or tables_root()
    b, d = {}, {}
    for sn in (wmo_sn, local_sn):
        if sn is None:
            continue
        with open(os.path.join(root, *sn, 'TableB.json')) as f:
            for k, v in json.load(f).items():
                b[int(k)] = v
        with open(os.path.join(root, *sn, 'TableD.json')) as f:
            for k, v in json.load(f).items():
                d[int(k)] = v
    for k, v in (extra_b or {}).items():
        b[int(k)] = v
    for k, v in (extra_d or {}).items():
        d[int(k)] = v
    return b, d


def tables_request(b, d):
    return {'op': 'tables',
            'b': [[i, unit_kind(v[1]), int(v[2]), int(v[3]), int(v[4])] for i, v in sorted(b.items())],
            'd': [[i, [int(m) for m in v[1]]] for i, v in sorted(d.items())]}


def group_request(wmo_sn=('0', '0_0', '33'), local_sn=None, root=None):
    b, d = read_group(wmo_sn, local_sn, root)
    return tables_request(b, d)


def bundled_versions():
    d = os.path.join(tables_root(), '0', '0_0')
    return sorted((int(x) for x in os.listdir(d) if x.isdigit()))


def expected_sn(master_number, centre, subcentre, version, local_version, root=None):
    """The table group a DECODER has to use for the given section 1 values, worked out by the harness (not asked
    from the implementation): the named master version and local tables when they are bundled, else the documented
    fall-backs (default master table 0 / default version; the centre's sub-centre 0; no local tables).
    -> (wmo_sn, local_sn or None)"""
    from pybufrkit.tables import (DEFAULT_MASTER_TABLE_NUMBER, DEFAULT_MASTER_TABLE_VERSION, DEFAULT_ORIGINATING_CENTRE,
                                  DEFAULT_ORIGINATING_SUBCENTRE)
    root = root or tables_root()
    m = str(master_number or DEFAULT_MASTER_TABLE_NUMBER)
    if not os.path.isdir(os.path.join(root, m)):
        m = str(DEFAULT_MASTER_TABLE_NUMBER)
    v = str(version or DEFAULT_MASTER_TABLE_VERSION)
    if not os.path.isdir(os.path.join(root, m, '0_0', v)):
        v = str(DEFAULT_MASTER_TABLE_VERSION)
    wmo = (m, '0_0', v)
    local = None
    if local_version:
        c = centre or DEFAULT_ORIGINATING_CENTRE
        sc = subcentre or DEFAULT_ORIGINATING_SUBCENTRE
        for cs in ('%d_%d' % (c, sc), '%d_%d' % (c, DEFAULT_ORIGINATING_SUBCENTRE)):
            if os.path.isdir(os.path.join(root, m, cs, str(local_version))):
                local = (m, cs, str(local_version))
                break
    return wmo, local


def section1_values(b):
    """(master table number, centre, sub-centre, master version, local version) read from message bytes by the
    section layouts of /repo/pybufrkit/definitions (sub-centre 0 where the edition has none)"""
    from harness import coder_io
    edition = b[7]
    lay = coder_io.section_layout(1, edition)
    bits = ''.join('{:08b}'.format(x) for x in b[8:8 + 64])
    pos, out = 0, {}
    for p in lay['parameters']:
        if p['name'] in ('master_table_number', 'originating_centre', 'originating_subcentre', 'master_table_version',
                         'local_table_version'):
            out[p['name']] = int(bits[pos:pos + p['nbits']], 2)
        pos += p['nbits']
    return (out.get('master_table_number', 0), out.get('originating_centre', 0), out.get('originating_subcentre', 0),
            out.get('master_table_version', 0), out.get('local_table_version', 0))
