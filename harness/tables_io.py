"""
Streams a bundled (or scratch) table group to the model driver: the `tables` request.
The B/D JSON files are read from /repo's working tree on every run, so the model always works on
the tables the implementation uses.
"""
import json
import os

from harness import core


def tables_root():
    return os.path.join(core.REPO, 'pybufrkit', 'tables')


def unit_kind(unit):
    from pybufrkit.constants import UNITS_STRING, UNITS_FLAG_TABLE, UNITS_CODE_TABLE
    if unit == UNITS_STRING:
        return 's'
    if unit in (UNITS_FLAG_TABLE, UNITS_CODE_TABLE):
        return 'c'
    return 'n'


def read_group(wmo_sn=('0', '0_0', '33'), local_sn=None, root=None, extra_b=None, extra_d=None):
    """Merged B and D dictionaries in the order the implementation merges them
    (WMO file, local file, extra entries; later wins)."""
    root = root or tables_root()
    b, d = {}, {}
    for sn in (wmo_sn, local_sn):
        if sn is None:
            continue
        with open(os.path.join(root, *sn, 'TableB.json')) as f:
            for k, v in json.load(f).items():
                b[int(k)] = v
        with open(os.path.join(root, *sn, 'TableD.json')) as f:
            for k, v in json.load(f).items():
                d[int(k)] = v
    for k, v in (extra_b or {}).items():
        b[int(k)] = v
    for k, v in (extra_d or {}).items():
        d[int(k)] = v
    return b, d


def tables_request(b, d):
    return {'op': 'tables',
            'b': [[i, unit_kind(v[1]), int(v[2]), int(v[3]), int(v[4])] for i, v in sorted(b.items())],
            'd': [[i, [int(m) for m in v[1]]] for i, v in sorted(d.items())]}


def group_request(wmo_sn=('0', '0_0', '33'), local_sn=None, root=None):
    b, d = read_group(wmo_sn, local_sn, root)
    return tables_request(b, d)


def bundled_versions():
    d = os.path.join(tables_root(), '0', '0_0')
    return sorted((int(x) for x in os.listdir(d) if x.isdigit()))
