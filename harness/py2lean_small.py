"""
py2lean_small: the statement / expression constructs added to harness/py2lean.py for the small self-contained
functions (encoder.nbits_for_uint, mdquery.MetadataExprParser.parse, ...).  Selected per SPEC entry with
`'compiler': 'small'`.  Every construct is listed in notes/Tie.md ("Constructs added for the small
functions"); like py2lean.py this file is part of the trusted base of the source tie.  Anything that is not
handled here falls through to FuncCompiler (and from there to `Py2LeanUnsupported`).

Expressions
  bin(i)                        Py.bin
  xs[a:b] / xs[a:] / xs[:b]     Py.slice xs lo hi   (List.drop n xs for xs[n:] with n a non-negative literal / Nat)
  s.count('c')                  List.count 'c' s    (one-character literal only)
  'c' in s / 'c' not in s       List.elem 'c' s     (one-character literal on the left, s a str)
  s.split('c')                  Py.splitChar 'c' s  (one-character literal separator)
  int(s)                        Py.intOfStr s (str: may raise ValueError);  int(i) = i
  None                          none : Option _     (type opt[T])
  x is None / x is not None     Option.isNone x / Option.isSome x   (x of type opt[T])
  max(xs) / min(xs)             Py.Small.maxOf / minOf (list of int; ValueError on the empty list)
  len(set(xs))                  (Py.Small.distinct xs).length       (list of int)
  sorted(set(xs))               Py.Small.sortedSet xs               (list of int)
Statements
  a, b = e        (e a list)    Py.unpack2 e   (ValueError unless the list has exactly two items)
  a, b = e        (e a 2-tuple) the two components
  try: x = e                    match (x = e) with | .error <caught> => handler (on the state before the `try`)
  except ValueError: H                           | r => r
  a local re-bound to values of different types (declared in SPEC 'locals': {name: [type, ...]}): one field
  of the record of locals per declared type ("slot"); a read refers to the slot of the assignment that
  reaches it; where two different slots could reach a read the function is rejected.
"""
from __future__ import annotations

import ast

from harness.py2lean import (FuncCompiler, Ex, TV, prune, parse_type, lean_char, lean_ident, indent_rest,
                             INT, NAT, BOOL, STR)
from harness.py2lean import lean_str as P_lean_str
from harness.py2lean import ExprCompiler as P_ExprCompiler

AMBIG = '?'

EXC = {'ValueError': ['valueError'], 'IndexError': ['indexError'], 'KeyError': ['keyError'],
       'ZeroDivisionError': ['zeroDivisionError'], 'TypeError': ['typeError'],
       'LookupError': ['indexError', 'keyError'], 'ArithmeticError': ['zeroDivisionError']}


_ZEROS_OK = []


def check_decimal_zeros(comp, node):
    """`Py.decimalZeros` (PyPrelude.lean; the non-ASCII runs) must be the decimal-digit runs of the `unicodedata` of this
    interpreter (the one pybufrkit runs under), and int() must have the 4300-digit default limit; otherwise
    `int()` is not translated (broken tie), because `Py.intOfStr` would not be what `int` does here."""
    import os
    import re
    import sys
    import unicodedata
    from harness import py2lean
    if _ZEROS_OK:
        return
    path = os.path.join(py2lean.VERIF, 'lean', 'BufrModel', 'Gen', 'PyPrelude.lean')
    text = open(path, encoding='utf-8').read()
    m = re.search(r'def decimalZeros : List Nat :=\s*\[(.*?)\]', text, re.S)
    if not m:
        comp.bad(node, 'int(): Py.decimalZeros not found in PyPrelude.lean')
    table = [0x30] + [int(x, 16) for x in re.findall(r'0x[0-9a-fA-F]+', m.group(1))]   # the table lists the non-ASCII runs
    zeros = [c for c in range(0x110000) if unicodedata.category(chr(c)) == 'Nd' and unicodedata.decimal(chr(c)) == 0]
    ok = all(unicodedata.decimal(chr(z + i), None) == i for z in zeros for i in range(10))
    nd = sum(1 for c in range(0x110000) if unicodedata.category(chr(c)) == 'Nd')
    if table != zeros or not ok or nd != 10 * len(zeros):
        comp.bad(node, 'int(): the decimal-digit table of PyPrelude.lean is not that of this interpreter (Unicode %s)'
                 % unicodedata.unidata_version)
    limit = getattr(sys, 'get_int_max_str_digits', lambda: None)()
    if limit != 4300:
        comp.bad(node, 'int(): sys.get_int_max_str_digits() is %r, Py.intMaxStrDigits is 4300' % (limit,))
    _ZEROS_OK.append(True)      # the table does not change within one process


class SmallCompiler(FuncCompiler):
    spec = {}

    # ---------------------------------------------------------------------------------------------
    # type slots of re-typed locals
    def slot_decl(self):
        return {n: [parse_type(t) for t in ts] for n, ts in (self.spec.get('locals') or {}).items()}

    @staticmethod
    def slot_name(name, k):
        return name if k == 0 else '%s__%d' % (name, k)

    def collect_locals(self):
        names = FuncCompiler.collect_locals(self)
        # names bound only as comprehension targets are scoped to their comprehension: not locals
        comp_nodes = set()
        for n in ast.walk(self.node):
            if isinstance(n, ast.ListComp):
                for g in n.generators:
                    comp_nodes.update(id(t) for t in ast.walk(g.target))
        outside = {n.id for n in ast.walk(self.node)
                   if isinstance(n, ast.Name) and isinstance(n.ctx, (ast.Store, ast.Del)) and id(n) not in comp_nodes}
        names = [n for n in names if n in outside]
        self.slots = self.slot_decl()
        for n, ts in self.slots.items():
            if n not in names and n not in self.params:
                self.bad(self.node, 'SPEC declares type slots for %s, which is not a local variable' % n)
            if n in self.params:
                self.bad(self.node, 'type slots for a parameter (%s)' % n)
            for k in range(1, len(ts)):
                names.append(self.slot_name(n, k))
        return names

    def run(self, local_names):
        # the slot that holds the current value of each re-typed local (None: no assignment yet)
        self.cur = {n: None for n in getattr(self, 'slots', {})}
        for n, ts in getattr(self, 'slots', {}).items():
            for k, t in enumerate(ts):
                self.unify(self.local_types[self.slot_name(n, k)], t, self.node)
        return FuncCompiler.run(self, local_names)

    @staticmethod
    def join(a, b):
        if a is None:
            return b
        if b is None:
            return a
        return {n: (a[n] if a[n] == b[n] else AMBIG) for n in a}

    def choose_slot(self, name, ex, node):
        """the first declared slot that can hold a value of the type of `ex`; returns (slot index, coerced ex)"""
        t = prune(ex.ty)
        if isinstance(t, TV):
            self.bad(node, 'cannot infer the type of the value assigned to %s' % name)
        for k, st in enumerate(self.slots[name]):
            if st[0] == t[0] or (st[0] in ('int', 'nat') and t[0] in ('int', 'nat')):
                return k, ex
        for k, st in enumerate(self.slots[name]):
            if st[0] == 'opt' and (prune(st[1])[0] == t[0] or (prune(st[1])[0] == 'int' and t[0] == 'nat')):
                return k, self.some(ex)
        self.bad(node, 'no declared type slot of %s holds a value of type %s' % (name, self.show(t)))

    def some(self, ex):
        ex = self.to_int(ex)
        return self.lift([ex], lambda c: '(some %s)' % c[0], ('opt', ex.ty))

    def set_local(self, name, ex, node):
        if name in getattr(self, 'slots', {}):
            if self.cur is None:
                self.bad(node, 'unreachable statement')
            k, ex = self.choose_slot(name, ex, node)
            self.cur[name] = k
            return FuncCompiler.set_local(self, self.slot_name(name, k), ex, node)
        ty = prune(self.local_types.get(name, self.params.get(name)))
        if not isinstance(ty, TV) and ty[0] == 'opt' and not isinstance(prune(ex.ty), TV) and prune(ex.ty)[0] != 'opt':
            ex = self.some(ex)
        return FuncCompiler.set_local(self, name, ex, node)

    def e_Name(self, e):
        if e.id in getattr(self, 'slots', {}):
            k = (self.cur or {}).get(e.id)
            if k is None or k == AMBIG:
                self.bad(e, 'read of the re-typed local %s where its type slot is not determined' % e.id)
            code, ty = self.names[self.slot_name(e.id, k)]
            return Ex(code, ty)
        return FuncCompiler.e_Name(self, e)

    # ---------------------------------------------------------------------------------------------
    # definite assignment: tuple targets and try
    def definite(self, stmts, assigned):
        assigned = set(assigned)
        for s in stmts:
            if isinstance(s, ast.Assign) and any(isinstance(t, (ast.Tuple, ast.List)) for t in s.targets):
                self.check_reads(s.value, assigned)
                for t in s.targets:
                    for el in ast.walk(t):
                        if isinstance(el, ast.Name):
                            assigned.add(el.id)
            elif isinstance(s, ast.Try):
                self.check_try_shape(s)
                a = self.definite(s.body, assigned)
                b = self.definite(s.handlers[0].body, assigned)
                assigned = a & b
            else:
                assigned = FuncCompiler.definite(self, [s], assigned)
        return assigned

    # ---------------------------------------------------------------------------------------------
    # statements
    def stmt(self, s):
        if getattr(self, 'cur', {}) is None:
            self.bad(s, 'unreachable statement')
        if isinstance(s, ast.Assign) and len(s.targets) == 1 and isinstance(s.targets[0], (ast.Tuple, ast.List)):
            return self.unpack_assign(s)
        if isinstance(s, ast.Try):
            return self.try_stmt(s)
        if not getattr(self, 'slots', {}):
            return FuncCompiler.stmt(self, s)
        # with re-typed locals: follow which slot is current through the control flow
        if isinstance(s, ast.If):
            if self.is_isinstance_list(s.test):
                self.bad(s, 'isinstance branches in a function with re-typed locals')
            c = self.as_bool(self.expr(s.test), s.test)
            pre = dict(self.cur)
            a, ar = self.block(s.body)
            after_a = self.cur
            self.cur = dict(pre)
            b, br = self.block(s.orelse) if s.orelse else ('v', False)
            self.cur = self.join(after_a, self.cur)
            if ar or br:
                if not ar:
                    a = '(pure %s)' % a
                if not br:
                    b = '(pure %s)' % b
            body = lambda k: '(if %s then\n    %s\n  else\n    %s)' % (k, indent_rest(a, 4), indent_rest(b, 4))
            if c.raises:
                t = self.fresh()
                return '(do\n  let %s ← %s\n  %s)' % (t, c.code, indent_rest(
                    body(t) if (ar or br) else 'pure ' + body(t), 2)), True
            return body(c.code), (ar or br)
        if isinstance(s, (ast.While, ast.For)):
            pre = dict(self.cur)
            r = FuncCompiler.stmt(self, s)
            if self.cur != pre:
                self.bad(s, 'loop body changes the type slot of a re-typed local')
            return r
        if isinstance(s, ast.Raise):
            r = FuncCompiler.stmt(self, s)
            self.cur = None
            return r
        return FuncCompiler.stmt(self, s)

    def tail(self, stmts):
        if (len(stmts) >= 2 and isinstance(stmts[-1], ast.Return) and isinstance(stmts[-2], ast.For)
                and any(isinstance(n, ast.Return) for n in ast.walk(stmts[-2]))):
            head, hr = self.block(stmts[:-2]) if stmts[:-2] else ('v', False)
            r = self.search_loop(stmts[-2], stmts[-1])
            if r is None:
                self.bad(stmts[-2], '`return` inside a loop that is not of the search form '
                                    '`for ..: [for ..:] if c: return e` + `return d`')
            text, rr = r
            if head == 'v' and not hr:
                return text, rr
            if hr:
                return '(do\n  let v : Locals ← %s\n  pure %s)' % (indent_rest(head, 4), indent_rest(text, 2)), True
            return '(let v : Locals := %s\n %s)' % (indent_rest(head, 4), indent_rest(text, 1)), False
        if not getattr(self, 'slots', {}):
            return FuncCompiler.tail(self, stmts)
        last = stmts[-1] if stmts else None
        if isinstance(last, ast.If) and last.orelse:
            # FuncCompiler.tail compiles both branches one after the other: each must start from the slots
            # that are current before the `if`
            head, hr = self.block(stmts[:-1]) if stmts[:-1] else ('v', False)
            c = self.as_bool(self.expr(last.test), last.test)
            pre = dict(self.cur)
            a, ar = self.tail(last.body)
            self.cur = dict(pre)
            b, br = self.tail(last.orelse)
            if ar or br:
                if not ar:
                    a = '(pure %s)' % a
                if not br:
                    b = '(pure %s)' % b
            body = lambda k: '(if %s then\n    %s\n  else\n    %s)' % (k, indent_rest(a, 4), indent_rest(b, 4))
            if c.raises:
                t = self.fresh()
                text = '(do\n  let %s ← %s\n  %s)' % (t, c.code, indent_rest(body(t) if (ar or br) else 'pure ' + body(t), 2))
                rr = True
            else:
                text, rr = body(c.code), (ar or br)
            if head == 'v' and not hr:
                return text, rr
            if not hr and not rr:
                return '(let v : Locals := %s\n %s)' % (indent_rest(head, 4), indent_rest(text, 1)), False
            if hr:
                return '(do\n  let v : Locals ← %s\n  %s)' % (indent_rest(head, 4), indent_rest(text if rr else 'pure ' + text, 2)), True
            return '(let v : Locals := %s\n %s)' % (indent_rest(head, 4), indent_rest(text, 1)), True
        return FuncCompiler.tail(self, stmts)

    def unpack_assign(self, s):
        """`a, b = e`"""
        tg = s.targets[0]
        if len(tg.elts) != 2 or not all(isinstance(x, ast.Name) for x in tg.elts):
            self.bad(s, 'unpacking into other than two plain names')
        names = [x.id for x in tg.elts]
        if names[0] == names[1]:
            self.bad(s, 'unpacking into the same name twice')
        e = self.expr(s.value)
        k = self.kind(e, s.value)
        t = self.fresh()
        if k == 'list':
            el = prune(e.ty)[1]
            src = self.lift([e], lambda c: '(Py.unpack2 %s)' % c[0], ('tuple', el, el), result_raises=True)
            tys = [el, el]
        elif k == 'tuple' and len(prune(e.ty)) == 3:
            src = e
            tys = list(prune(e.ty)[1:])
        else:
            self.bad(s, 'unpacking of a %s' % k)
        items = [self.set_local(names[0], Ex('%s.1' % t, tys[0]), s), self.set_local(names[1], Ex('%s.2' % t, tys[1]), s)]
        body, br = self.seq(items)
        if src.raises:
            return '(do\n  let %s ← %s\n  %s)' % (t, src.code, indent_rest(body if br else 'pure ' + body, 2)), True
        if br:
            return '(let %s := %s\n %s)' % (t, src.code, indent_rest(body, 1)), True
        return '(let %s := %s\n %s)' % (t, src.code, indent_rest(body, 1)), False

    def check_try_shape(self, s):
        if s.orelse or s.finalbody or len(s.handlers) != 1:
            self.bad(s, 'try with else / finally / several handlers')
        h = s.handlers[0]
        if h.name is not None or h.type is None:
            self.bad(s, 'bare `except:` or `except ... as name`')
        if not (len(s.body) == 1 and isinstance(s.body[0], ast.Assign) and len(s.body[0].targets) == 1
                and isinstance(s.body[0].targets[0], ast.Name)):
            self.bad(s, 'try body other than one assignment `name = expression` (a body that raises half-way '
                        'would leave a partly updated state, which is not modelled)')
        if self.recursive:
            self.bad(s, 'try in a recursive function')
        self.caught(h)

    def caught(self, h):
        names = []
        if isinstance(h.type, ast.Name):
            names = [h.type.id]
        elif isinstance(h.type, ast.Tuple) and all(isinstance(x, ast.Name) for x in h.type.elts):
            names = [x.id for x in h.type.elts]
        out = []
        for n in names:
            if n not in EXC or n in self.names:
                self.bad(h, 'except clause for %s (only the built-in exceptions the primitives raise)' % n)
            out += [c for c in EXC[n] if c not in out]
        if not out:
            self.bad(h, 'except clause of unexpected shape')
        return out

    def try_stmt(self, s):
        """try: x = e / except Cls: H  — the assignment either completes or leaves the state unchanged"""
        self.check_try_shape(s)
        pre = dict(self.cur) if self.cur is not None else None
        body, br = self.stmt(s.body[0])
        after_body = self.cur
        if not br:
            # the assignment cannot raise: the handler is dead code; keep the body only
            return body, br
        self.cur = dict(pre) if pre is not None else None
        handler, hr = self.block(s.handlers[0].body)
        self.cur = self.join(after_body, self.cur)
        if not hr:
            handler = '(pure %s)' % handler
        arms = ''.join('\n  | .error .%s => %s' % (c, indent_rest(handler, 4)) for c in self.caught(s.handlers[0]))
        return '(match %s with%s\n  | .error e => .error e\n  | .ok v => .ok v)' % (indent_rest(body, 2), arms), True

    # ---------------------------------------------------------------------------------------------
    # expressions
    def one_char_literal(self, node):
        if isinstance(node, ast.Constant) and isinstance(node.value, str) and len(node.value) == 1:
            try:
                return lean_char(node.value)
            except ValueError:
                return None
        return None

    def e_Constant(self, e):
        if e.value is None:
            return Ex('none', ('opt', TV()))
        return FuncCompiler.e_Constant(self, e)

    def e_Subscript(self, e):
        if isinstance(e.slice, ast.Slice):
            return self.small_slice(e)
        return FuncCompiler.e_Subscript(self, e)

    def small_slice(self, e):
        """`xs[a:b]`, `xs[a:]`, `xs[:b]`, `xs[:]` on str / bytes / list (no step)"""
        sl = e.slice
        if sl.step is not None:
            self.bad(e, 'slice with a step is not in the table')
        a = self.expr(e.value)
        ka = self.kind(a, e.value)
        if ka not in ('str', 'bytes', 'list'):
            self.bad(e, 'slice of a %s' % ka)
        lo = self.expr(sl.lower) if sl.lower is not None else None
        hi = self.expr(sl.upper) if sl.upper is not None else None
        for b, nd in ((lo, sl.lower), (hi, sl.upper)):
            if b is not None and self.kind(b, nd) not in ('int', 'nat'):
                self.bad(e, 'slice bound of type %s' % self.kind(b, nd))
        if hi is None and lo is not None and prune(lo.ty) == NAT:
            # xs[n:] with n known to be non-negative: drop the first n items
            return self.lift([a, lo], lambda c: '(List.drop %s %s)' % (c[1], c[0]), a.ty)
        parts = [a] + [self.to_int(b) for b in (lo, hi) if b is not None]

        def build(c):
            i = 1
            los = his = 'none'
            if lo is not None:
                los = '(some %s)' % c[i]
                i += 1
            if hi is not None:
                his = '(some %s)' % c[i]
            return '(Py.slice %s %s %s)' % (c[0], los, his)
        return self.lift(parts, build, a.ty)

    def e_Compare(self, e):
        if len(e.ops) == 1:
            op = type(e.ops[0]).__name__
            right = e.comparators[0]
            if op in ('Eq', 'NotEq') and not (isinstance(right, ast.Constant) and right.value is None):
                a, b = self.expr(e.left), self.expr(right)
                ta, tb = prune(a.ty), prune(b.ty)
                oa = not isinstance(ta, TV) and ta[0] == 'opt'
                ob = not isinstance(tb, TV) and tb[0] == 'opt'
                if oa != ob:
                    # `x == y` where one side may be None: equal iff the other is that very value
                    if not oa:
                        a = self.some(a)
                    else:
                        b = self.some(b)
                    self.unify(a.ty, b.ty, e)
                    fmt = '(decide (%s = %s))' if op == 'Eq' else '(!decide (%s = %s))'
                    return self.lift([a, b], lambda c: fmt % (c[0], c[1]), BOOL)
            if op in ('In', 'NotIn'):
                ch = self.one_char_literal(e.left)
                if ch is not None:
                    b = self.expr(right)
                    if self.kind(b, right) == 'str':
                        neg = '!' if op == 'NotIn' else ''
                        return self.lift([b], lambda c: '(%sList.elem %s %s)' % (neg, ch, c[0]), BOOL)
            if op in ('Is', 'IsNot') and isinstance(right, ast.Constant) and right.value is None:
                a = self.expr(e.left)
                if self.kind(a, e.left) != 'opt':
                    self.bad(e, '`is None` on a value whose declared type has no None (%s)' % self.kind(a, e.left))
                fn = 'Option.isNone' if op == 'Is' else 'Option.isSome'
                return self.lift([a], lambda c: '(%s %s)' % (fn, c[0]), BOOL)
        return FuncCompiler.e_Compare(self, e)

    def e_Call(self, e):
        f = e.func
        dc = self.declared_call(e)
        if dc is not None:
            ptypes = [parse_type(t) for t in dc['params']]
            if len(e.args) != len(ptypes):
                self.bad(e, 'declared call with %d arguments' % len(e.args))
            args = [self.coerce(self.to_int(self.expr(a)), t, e) for a, t in zip(e.args, ptypes)]
            return self.lift(args, lambda c: '(%s %s)' % (dc['lean'], ' '.join(c)), parse_type(dc['returns']),
                             result_raises=bool(dc.get('raises')))
        if isinstance(f, ast.Attribute) and not (isinstance(f.value, ast.Name) and f.value.id == 'self'):
            try:
                tail_text = ast.unparse(e)[len(ast.unparse(f.value)) + 1:]
            except Exception:
                tail_text = None
            if tail_text is not None and isinstance(f.value, ast.Name) and f.value.id in self.names:
                base = self.expr(f.value)
                info = self.record_info(base.ty)
                if info is not None and tail_text in (info.get('calls') or {}):
                    fld = info['calls'][tail_text]
                    return self.lift([base], lambda c: '%s.%s' % (c[0], lean_ident(fld)), info['fields'][fld])
        if self.is_isinstance_slice(e):
            a = self.expr(e.args[0])
            t = prune(a.ty)
            if t == ('intorslice',):
                a = self.lift([a], lambda c: '(some %s)' % c[0], ('opt', t))
            elif isinstance(t, TV) or t[0] != 'opt' or prune(t[1]) != ('intorslice',):
                self.bad(e, 'isinstance(x, slice) on a value that is not declared int-or-slice')
            return self.lift([a], lambda c: '(Py.Small.isSlice %s)' % c[0], BOOL)
        pm = self.pure_self_call(e)
        if pm is not None:
            lname, params, rty, raises = pm
            if len(e.args) != len(params):
                self.bad(e, 'call of self.%s with %d arguments' % (f.attr, len(e.args)))
            args = [self.coerce(self.to_int(self.expr(a)), t, e) for a, t in zip(e.args, params.values())]
            return self.lift(args, lambda c: '(%s self %s)' % (lname, ' '.join(c)) if c else '(%s self)' % lname,
                             rty, result_raises=raises)
        if isinstance(f, ast.Name) and f.id not in self.names and not e.keywords:
            if f.id == 'bin' and len(e.args) == 1:
                a = self.expr(e.args[0])
                if self.kind(a, e) not in ('int', 'nat'):
                    self.bad(e, 'bin() of a %s' % self.kind(a, e))
                a = self.to_int(a)
                return self.lift([a], lambda c: '(Py.bin %s)' % c[0], STR)
            if f.id == 'int' and len(e.args) == 1:
                a = self.expr(e.args[0])
                k = self.kind(a, e)
                if k in ('int', 'nat'):
                    return a
                if k == 'str':
                    check_decimal_zeros(self, e)
                    return self.lift([a], lambda c: '(Py.intOfStr %s)' % c[0], INT, result_raises=True)
                self.bad(e, 'int() of a %s' % k)
            if f.id in ('max', 'min') and len(e.args) == 1:
                a = self.expr(e.args[0])
                if self.kind(a, e) != 'list' or prune(prune(a.ty)[1]) not in (INT, NAT):
                    self.bad(e, '%s() of something that is not a list of int' % f.id)
                return self.lift([a], lambda c: '(Py.Small.%sOf %s)' % (f.id, c[0]), INT, result_raises=True)
            if f.id in ('len', 'sorted') and len(e.args) == 1 and self.is_set_call(e.args[0]):
                a = self.expr(e.args[0].args[0])
                if self.kind(a, e) != 'list' or prune(prune(a.ty)[1]) not in (INT, NAT):
                    self.bad(e, 'set() of something that is not a list of int')
                a = self.lift([a], lambda c: '(List.map (fun (i : Nat) => (Int.ofNat i)) %s)' % c[0], ('list', INT)) \
                    if prune(prune(a.ty)[1]) == NAT else a
                if f.id == 'len':
                    return self.lift([a], lambda c: '(List.length (Py.Small.distinct %s))' % c[0], NAT)
                return self.lift([a], lambda c: '(Py.Small.sortedSet %s)' % c[0], a.ty)
        if isinstance(f, ast.Attribute) and f.attr == 'get' and len(e.args) == 2 and not e.keywords:
            recv = self.expr(f.value)
            if self.kind(recv, f.value) == 'dict':
                td = prune(recv.ty)
                k = self.coerce(self.to_int(self.expr(e.args[0])), td[1], e)
                d = self.coerce(self.to_int(self.expr(e.args[1])), td[2], e)
                return self.lift([recv, k, d], lambda c: '(Py.Small.dictGet %s %s %s)' % (c[0], c[1], c[2]), td[2])
        if isinstance(f, ast.Attribute) and not e.keywords and not (
                f.attr == 'format' and isinstance(f.value, ast.Constant)):
            if f.attr in ('count', 'split') and len(e.args) == 1:
                recv = self.expr(f.value)
                if self.kind(recv, f.value) == 'str':
                    ch = self.one_char_literal(e.args[0])
                    if ch is None:
                        self.bad(e, 'str.%s() of something that is not a one-character literal' % f.attr)
                    if f.attr == 'count':
                        return self.lift([recv], lambda c: '(List.count %s %s)' % (ch, c[0]), NAT)
                    return self.lift([recv], lambda c: '(Py.splitChar %s %s)' % (ch, c[0]), ('list', STR))
        return FuncCompiler.e_Call(self, e)

    # ---------------------------------------------------------------------------------------------
    # round 2: read-only methods on objects (dataquery.NodePath.__str__ / slice_to_str, descriptors.__str__)
    pure_methods = {}      # method name -> (lean name, params {name: type}, result type, raises)

    def named_fields(self, ty):
        t = prune(ty)
        if not isinstance(t, TV) and t[0] == 'named':
            nts = getattr(self.gen, 'namedtuples', {})
            if t[1] in nts:
                return nts[t[1]]
            recs = getattr(self.gen, 'small_records', {})
            if t[1] in recs:
                return recs[t[1]]['fields']
        return None

    def record_info(self, ty):
        t = prune(ty)
        if not isinstance(t, TV) and t[0] == 'named':
            return getattr(self.gen, 'small_records', {}).get(t[1])
        return None

    def iter_expr(self, node):
        """the list a `for` / comprehension iterates: a list, or a record declared iterable ('iter': field)"""
        a = self.expr(node)
        info = self.record_info(a.ty)
        if info is not None and info.get('iter'):
            fld = info['iter']
            return self.lift([a], lambda c: '%s.%s' % (c[0], lean_ident(fld)), info['fields'][fld])
        return a

    def declared_call(self, e):
        """a call declared in SPEC 'calls' by its source text (receiver included): a translated method of another
        object held in an attribute"""
        calls = (self.spec or {}).get('calls') or {}
        try:
            key = ast.unparse(e.func)
        except Exception:
            return None
        if key in calls and not e.keywords and not any(isinstance(a, ast.Starred) for a in e.args):
            return calls[key]
        return None

    def search_loop(self, loop, ret):
        """`for x in xs: [for y in ys(x):] if c: return e` followed by `return d`: the first hit in iteration order"""
        binds, node = [], loop
        depth = 0
        while isinstance(node, ast.For):
            if node.orelse or not isinstance(node.target, ast.Name) or len(node.body) != 1:
                return None
            binds.append(node)
            node = node.body[0]
            depth += 1
        if not (isinstance(node, ast.If) and not node.orelse and len(node.body) == 1 and isinstance(node.body[0], ast.Return)
                and node.body[0].value is not None and ret.value is not None and 1 <= depth <= 2):
            return None
        saved = dict(self.names)
        try:
            codes = []
            for k, f in enumerate(binds):
                it = self.iter_expr(f.iter)
                if it.raises or self.kind(it, f.iter) != 'list':
                    self.bad(f, 'search loop over something that is not a plain list')
                el = prune(it.ty)[1]
                if f.target.id in self.local_types:
                    self.unify(self.local_types[f.target.id], el, f)
                var = 'y%d' % (k + 1)
                codes.append((var, el, it.code))
                self.names[f.target.id] = (var, el)
            c = self.as_bool(self.expr(node.test), node.test)
            d = self.expr(ret.value)
            e = self.expr(node.body[0].value)
            if c.raises or d.raises or e.raises:
                self.bad(node, 'search loop whose test or results may raise')
            dt, et = prune(d.ty), prune(e.ty)
            if not isinstance(dt, TV) and dt[0] == 'opt' and (isinstance(et, TV) or et[0] != 'opt'):
                e = self.some(e)
            self.unify(d.ty, e.ty, node)
            self.unify(self.ret_type, d.ty, node)
        finally:
            self.names = saved
        from harness.py2lean import lean_type
        inner = '(if %s then some %s else none)' % (c.code, e.code)
        for var, el, itc in reversed(codes):
            inner = '(List.findSome? (fun (%s : %s) => %s) %s)' % (var, lean_type(el), inner, itc)
        return '(Option.getD %s %s)' % (inner, d.code), False


    def e_Attribute(self, e):
        # `local.field` of a namedtuple; `x.start / .stop / .step` of an int-or-slice value
        if not (isinstance(e.value, ast.Name) and e.value.id == 'self'):
            base = self.expr(e.value)
            fields = self.named_fields(base.ty)
            if fields is not None:
                if e.attr not in fields:
                    self.bad(e, 'namedtuple has no field %s' % e.attr)
                return self.lift([base], lambda c: '%s.%s' % (c[0], lean_ident(e.attr)), fields[e.attr])
            t = prune(base.ty)
            if not isinstance(t, TV) and e.attr in ('start', 'stop', 'step'):
                if t == ('intorslice',):
                    base = self.some(base) if False else self.lift([base], lambda c: '(some %s)' % c[0], ('opt', t))
                    t = prune(base.ty)
                if t[0] == 'opt' and prune(t[1]) == ('intorslice',):
                    fn = 'Py.Small.slice' + e.attr.capitalize()
                    return self.lift([base], lambda c: '(%s %s)' % (fn, c[0]), ('opt', INT), result_raises=True)
        return FuncCompiler.e_Attribute(self, e)

    def is_isinstance_slice(self, t):
        return (isinstance(t, ast.Call) and isinstance(t.func, ast.Name) and t.func.id == 'isinstance'
                and 'isinstance' not in self.names and len(t.args) == 2 and not t.keywords
                and isinstance(t.args[1], ast.Name) and t.args[1].id == 'slice' and 'slice' not in self.names
                and not (t.args[1].id in self.mod.assigns or t.args[1].id in self.mod.funcs or t.args[1].id in self.mod.classes))

    def fmt_str(self, node):
        """`'{}'.format(x)` = `str(x)` for the printable types; a conditional expression is printed branch by
        branch (its branches may have different types: `slc.start if slc.start is not None else ''`)"""
        if isinstance(node, ast.IfExp):
            c = self.as_bool(self.expr(node.test), node.test)
            a, b = self.fmt_str(node.body), self.fmt_str(node.orelse)
            if a.raises or b.raises:
                ac = a.code if a.raises else '(pure %s)' % a.code
                bc = b.code if b.raises else '(pure %s)' % b.code
                return self.lift([c], lambda k: '(if %s then %s else %s)' % (k[0], ac, bc), STR, result_raises=True)
            return self.lift([c], lambda k: '(if %s then %s else %s)' % (k[0], a.code, b.code), STR)
        a = self.expr(node)
        t = prune(a.ty)
        if isinstance(t, TV):
            self.bad(node, 'cannot infer the type of a format() argument')
        if t[0] == 'str':
            return a
        if t[0] == 'nat':
            return self.lift([a], lambda c: '(Py.strOfNat %s)' % c[0], STR)
        if t[0] == 'int':
            return self.lift([a], lambda c: '(Py.strOfInt %s)' % c[0], STR)
        if t == ('intorslice',):
            return self.lift([a], lambda c: '(Py.Small.strOfIntOrSlice %s)' % c[0], STR)
        if t[0] == 'opt':
            inner = prune(t[1])
            fn = {('str',): 'Py.Small.strOfOptStr', ('int',): 'Py.Small.strOfOptInt',
                  ('intorslice',): 'Py.Small.strOfOptIntOrSlice'}.get(inner if not isinstance(inner, TV) else None)
            if fn:
                return self.lift([a], lambda c: '(%s %s)' % (fn, c[0]), STR)
        self.bad(node, 'format() of a value of type %s' % self.show(t))

    def format_call(self, e, fmt):
        import string as _string
        try:
            parsed = list(_string.Formatter().parse(fmt))
        except ValueError as err:
            self.bad(e, 'format string: %s' % err)
        plain = (not e.keywords and not any(isinstance(a, ast.Starred) for a in e.args)
                 and all(field in (None, '') and not spec and conv is None for _, field, spec, conv in parsed)
                 and sum(1 for _, field, _, _ in parsed if field == '') == len(e.args))
        if not plain:
            return FuncCompiler.format_call(self, e, fmt)
        pieces, i = [], 0
        for lit, field, spec, conv in parsed:
            if lit:
                pieces.append(Ex(P_lean_str(lit), STR))
            if field is None:
                continue
            pieces.append(self.fmt_str(e.args[i]))
            i += 1
        if not pieces:
            return Ex(P_lean_str(''), STR)
        if len(pieces) == 1:
            return pieces[0]
        return self.lift(pieces, lambda c: '(' + ' ++ '.join(c) + ')', STR)

    def pure_self_call(self, e):
        f = e.func
        if (isinstance(f, ast.Attribute) and isinstance(f.value, ast.Name) and f.value.id == 'self'
                and self.self_attrs is not None and f.attr in self.pure_methods and not e.keywords
                and not any(isinstance(a, ast.Starred) for a in e.args)):
            return self.pure_methods[f.attr]
        return None

    def stores(self, stmts):
        out = FuncCompiler.stores(self, stmts)
        if 'self' in out:
            # a call self.m(..) of a translated method that assigns no attribute does not change the object
            real = set()
            for st in stmts:
                for n in ast.walk(st):
                    if (isinstance(n, ast.Call) and isinstance(n.func, ast.Attribute) and isinstance(n.func.value, ast.Name)
                            and n.func.value.id == 'self' and self.pure_self_call(n) is None):
                        real.add('self')
                    if isinstance(n, ast.Name) and n.id == 'self' and isinstance(n.ctx, (ast.Store, ast.Del)):
                        real.add('self')
            if 'self' not in real:
                out.discard('self')
        return out

    def e_ListComp(self, e):
        """adds: one `if` filter; `for i, v in enumerate(xs)`"""
        if len(e.generators) != 1:
            self.bad(e, 'comprehension with several generators')
        g = e.generators[0]
        it = g.iter
        is_enum = (isinstance(it, ast.Call) and isinstance(it.func, ast.Name) and it.func.id == 'enumerate'
                   and 'enumerate' not in self.names and len(it.args) == 1 and not it.keywords)
        if not g.ifs and not is_enum:
            return FuncCompiler.e_ListComp(self, e)
        if g.is_async or len(g.ifs) > 1:
            self.bad(e, 'comprehension with several filters')
        if is_enum:
            if not (isinstance(g.target, ast.Tuple) and len(g.target.elts) == 2
                    and all(isinstance(x, ast.Name) for x in g.target.elts) and g.target.elts[0].id != g.target.elts[1].id):
                self.bad(e, 'enumerate() without a target `i, v`')
            src = self.expr(it.args[0])
            if self.kind(src, it) != 'list':
                self.bad(e, 'enumerate() of a %s' % self.kind(src, it))
            el = prune(src.ty)[1]
            binds = [(g.target.elts[0].id, 'p.1', NAT), (g.target.elts[1].id, 'p.2', el)]
            mk = lambda c: '(Py.Small.enumerate %s)' % c
        else:
            if not isinstance(g.target, ast.Name):
                self.bad(e, 'comprehension with a non-name target')
            src = self.iter_expr(it)
            if self.kind(src, it) != 'list':
                self.bad(e, 'comprehension over a %s' % self.kind(src, it))
            el = prune(src.ty)[1]
            binds = [(g.target.id, 'p', el)]
            mk = lambda c: c
        if src.raises:
            self.bad(e, 'comprehension over an expression that may raise')
        for n, _, _ in binds:
            if n in self.names:
                self.bad(e, 'comprehension target %s shadows a local variable' % n)
        for n, code, ty in binds:
            self.names[n] = (code, ty)
        try:
            body = self.to_int(self.expr(e.elt))
            cond = self.as_bool(self.expr(g.ifs[0]), g.ifs[0]) if g.ifs else None
        finally:
            for n, _, _ in binds:
                del self.names[n]
        if body.raises or (cond is not None and cond.raises):
            self.bad(e, 'comprehension whose element or filter expression may raise')
        if cond is None:
            return Ex('(List.map (fun p => %s) %s)' % (body.code, mk(src.code)), ('list', body.ty))
        return Ex('(List.filterMap (fun p => if %s then some %s else none) %s)' % (cond.code, body.code, mk(src.code)),
                  ('list', body.ty))

    def is_set_call(self, n):
        return (isinstance(n, ast.Call) and isinstance(n.func, ast.Name) and n.func.id == 'set' and 'set' not in self.names
                and len(n.args) == 1 and not n.keywords)


# =================================================================================================
# fragments: a run of statements / one expression of a method that is too object-oriented to be translated as a
# whole (bufr.py BufrMessage.subset), translated as a function of its free variables
class _Subst(ast.NodeTransformer):
    def __init__(self, table):
        self.table = table
        self.used = set()

    def visit(self, node):
        if isinstance(node, ast.expr) and not isinstance(getattr(node, 'ctx', None), (ast.Store, ast.Del)):
            try:
                text = ast.unparse(node)
            except Exception:
                text = None
            if text in self.table:
                self.used.add(text)
                return ast.copy_location(ast.Name(id=self.table[text][0], ctx=ast.Load()), node)
        return self.generic_visit(node)


def render_fragment(gen, fname, fs):
    """SPEC 'fragments': {name: {'class', 'method', 'stmts': [a, b] + 'result' | 'expr': node type,
    'params': {...}, 'subst': {source text of an expression: (parameter name, type)}}}.
    The fragment becomes the function `name(params..., substituted names...)`:
      stmts  -> the statements a..b-1 of the method body (docstring not counted), then `return <result>`
      expr   -> `return <the one expression of that node type in the method>`
    Every occurrence of a `subst` expression is replaced by its parameter (the expression is an attribute chain
    the fragment only reads).  Returns (lean text, manifest item)."""
    import copy
    from harness import py2lean
    mod = gen.mod
    if 'func' in fs:
        # a module-level function instead of a method
        ms = mod.funcs.get(fs['func'], [])
        if len(ms) != 1:
            raise py2lean.Py2LeanUnsupported(mod.relpath, 0, 'function %s not found exactly once' % fs['func'])
        fs = dict(fs, **{'class': '<module>', 'method': fs['func']})
    else:
        cnodes = mod.classes.get(fs['class'], [])
        if len(cnodes) != 1:
            raise py2lean.Py2LeanUnsupported(mod.relpath, 0, 'class %s not found exactly once' % fs['class'])
        ms = [n for n in cnodes[0].body if isinstance(n, ast.FunctionDef) and n.name == fs['method']]
        if len(ms) != 1:
            raise py2lean.Py2LeanUnsupported(mod.relpath, cnodes[0], 'method %s.%s not found exactly once' % (fs['class'], fs['method']))
    meth = ms[0]
    body = list(meth.body)
    if body and isinstance(body[0], ast.Expr) and isinstance(body[0].value, ast.Constant) and isinstance(body[0].value.value, str):
        body = body[1:]
    if 'stmts' in fs:
        a, b = fs['stmts']
        if len(body) < b:
            raise py2lean.Py2LeanUnsupported(mod.relpath, meth, 'method %s has fewer than %d statements' % (fs['method'], b))
        part = [copy.deepcopy(x) for x in body[a:b]]
        ret = ast.Return(value=ast.Name(id=fs['result'], ctx=ast.Load()))
        ast.copy_location(ret, part[-1])
        ast.copy_location(ret.value, part[-1])
        first, last = part[0].lineno, part[-1].end_lineno
        new_body = part + [ret]
    else:
        found = sorted((n for n in ast.walk(meth) if type(n).__name__ == fs['expr']), key=lambda n: (n.lineno, n.col_offset))
        want = fs.get('of')     # 'of': (k, total): the k-th (from 0, in source order) of exactly `total` such expressions
        if want is None:
            want = (0, 1)
        if len(found) != want[1]:
            raise py2lean.Py2LeanUnsupported(mod.relpath, meth, 'method %s: %d expressions of type %s (expected %d)'
                                             % (fs['method'], len(found), fs['expr'], want[1]))
        node = copy.deepcopy(found[want[0]])
        ret = ast.Return(value=node)
        ast.copy_location(ret, node)
        first, last = node.lineno, node.end_lineno
        new_body = [ret]
    sub = _Subst(fs.get('subst', {}))
    new_body = [sub.visit(x) for x in new_body]
    missing = set(fs.get('subst', {})) - sub.used
    if missing:
        raise py2lean.Py2LeanUnsupported(mod.relpath, first, 'fragment %s: expression %s no longer occurs' % (fname, sorted(missing)))
    params = dict(fs['params'])
    for text, (pn, pt) in fs.get('subst', {}).items():
        params[pn] = pt
    fn = ast.FunctionDef(name=fname, args=ast.arguments(posonlyargs=[], args=[ast.arg(arg=p) for p in params], vararg=None,
                                                        kwonlyargs=[], kw_defaults=[], kwarg=None, defaults=[]),
                         body=new_body, decorator_list=[], returns=None, type_comment=None)
    fn.lineno, fn.end_lineno, fn.col_offset, fn.end_col_offset = first, last, 0, 0
    ast.fix_missing_locations(fn)
    fc = SmallCompiler(mod, gen, fn, lean_ident(fname), {p: parse_type(t) for p, t in params.items()})
    fc.spec = fs
    what = ('statements %d-%d' % (fs['stmts'][0] + 1, fs['stmts'][1])) if 'stmts' in fs else ('the %s expression' % fs['expr'])
    doc = '/-- %s:%d-%d  fragment of `%s.%s`: %s%s -/' % (
        mod.relpath, first, last, fs['class'], fs['method'], what,
        ''.join('; `%s` is the parameter `%s`' % (t, pn) for t, (pn, _) in fs.get('subst', {}).items()))
    text, raises = fc.render(doc)
    item = {'kind': 'fragment', 'name': '%s.%s:%s' % (fs['class'], fs['method'], fname), 'lines': [first, last], 'may_raise': raises}
    return text, item


# =================================================================================================
# read-only methods of a class whose record of attributes is generated elsewhere (a stateful class of the same
# module) or here: SPEC key 'small_methods': {Class: {'attrs': {...}, 'own_self': bool, 'methods': {name: {...}}}}
def render_small_methods(gen, spec, func_texts):
    from harness import py2lean
    mod = gen.mod
    for cname, cs in spec.get('small_methods', {}).items():
        cnodes = mod.classes.get(cname, [])
        if len(cnodes) != 1:
            raise py2lean.Py2LeanUnsupported(mod.relpath, 0, 'class %s not found exactly once' % cname)
        attrs = {k: parse_type(v) for k, v in cs['attrs'].items()}
        st = getattr(gen, 'stateful', {}).get(cname)
        if st is not None:
            for k, t in attrs.items():
                if k not in st.attrs or prune(st.attrs[k]) != prune(t):
                    raise py2lean.Py2LeanUnsupported(mod.relpath, cnodes[0], 'attribute %s.%s declared with two types' % (cname, k))
        elif cs.get('own_self'):
            lines = ['/-- the attributes of a `%s` instance that the translated methods read -/' % cname,
                     'structure %s.Self where' % cname]
            for k in cs['attrs']:
                lines.append('  %s : %s' % (lean_ident(k), py2lean.lean_type(attrs[k])))
            func_texts.append('\n'.join(lines))
        defs = {}
        for n in cnodes[0].body:
            if isinstance(n, ast.FunctionDef):
                defs.setdefault(n.name, []).append(n)
        pure = {}
        for mname, ms in cs['methods'].items():
            if len(defs.get(mname, [])) != 1:
                raise py2lean.Py2LeanUnsupported(mod.relpath, cnodes[0], 'method %s.%s not found exactly once' % (cname, mname))
            node = defs[mname][0]
            for n in ast.walk(node):
                if isinstance(n, ast.Attribute) and isinstance(n.ctx, (ast.Store, ast.Del)):
                    raise py2lean.Py2LeanUnsupported(mod.relpath, n, 'attribute assignment in a method declared read-only')
            params = {p: parse_type(t) for p, t in ms.get('params', {}).items()}
            lname = '%s.%s' % (cname, lean_ident(mname))
            fc = SmallCompiler(mod, gen, node, lname, params, self_attrs=attrs,
                               returns=parse_type(ms['returns']) if ms.get('returns') else None)
            fc.spec = ms
            fc.pure_methods = dict(pure)
            a, b, _ = mod.src(node)
            doc = '/-- %s:%d-%d  `%s.%s` -/' % (mod.relpath, a, b, cname, mname)
            text, raises = fc.render(doc)
            pure[mname] = (lname, params, prune(fc.ret_type), raises)
            func_texts.append(text)
            gen.items.append({'kind': 'method', 'name': '%s.%s' % (cname, mname), 'lines': [a, b], 'may_raise': raises})


def render_small_records(gen, spec, func_texts):
    """SPEC key 'small_records': abstract views of objects the translated code only reads: a record of the declared
    fields; `'iter': field` — iterating the object yields that list field; `'calls': {source text: field}` — a
    method call on the object that stands for reading that field (`get_metadata('index')`)."""
    from harness import py2lean
    gen.small_records = {}
    for name, rs in spec.get('small_records', {}).items():
        fields = {k: parse_type(t) for k, t in rs['fields'].items()}
        gen.small_records[name] = {'fields': fields, 'iter': rs.get('iter'), 'calls': rs.get('calls') or {}}
        py2lean.NAMED_KIND[name] = 'namedtuple'
        lines = ['/-- abstract view of a `%s` object (translator specification): %s -/' % (name, rs.get('doc', '')),
                 'structure %s where' % name]
        for k in rs['fields']:
            lines.append('  %s : %s' % (lean_ident(k), py2lean.lean_type(fields[k])))
        lines.append('  deriving Inhabited')
        func_texts.append('\n'.join(lines))


# =================================================================================================
# tables.py `_descriptors_from_ids_iter` (C14): the id iterator as (list of remaining ids), descriptor objects as the sum
# type `Py.Small.Descr`, the table group as lookup functions.  notes/Tie.md, "The template builder".
class _BuilderExpr(P_ExprCompiler):
    """expressions of the builder: `id_`, int literals, comparisons, arithmetic, `descriptor.n_items`"""

    def e_Attribute(self, e):
        if isinstance(e.value, ast.Name) and e.value.id == 'descriptor' and e.attr == 'n_items':
            # the property `ReplicationDescriptor.n_items` translated from descriptors.py reads `self.id` only
            return Ex('(PyGen.descriptors.ReplicationDescriptor.n_items ⟨Py.Small.Descr.id descriptor, []⟩)', INT)
        self.bad(e, 'attribute access in the template builder other than descriptor.n_items')


def _dump(n):
    return ast.dump(n, annotate_fields=False)


def _is_call(n, fname, nargs=None):
    return (isinstance(n, ast.Call) and not n.keywords and _dump(n.func) == _dump(ast.parse(fname, mode='eval').body)
            and (nargs is None or len(n.args) == nargs))


def render_iter_builder(gen, spec, func_texts):
    from harness import py2lean
    mod = gen.mod
    bs = spec['iter_builder']

    def bad(node, what):
        raise py2lean.Py2LeanUnsupported(mod.relpath, node, 'template builder: ' + what)

    # ---- TableR.lookup: which replication descriptor an id gives
    cn = mod.classes.get('TableR', [])
    if len(cn) != 1:
        bad(0, 'class TableR not found exactly once')
    lk = [n for n in cn[0].body if isinstance(n, ast.FunctionDef) and n.name == 'lookup']
    if len(lk) != 1 or [a.arg for a in lk[0].args.args] != ['self', 'id_']:
        bad(cn[0], 'TableR.lookup(self, id_) not found')
    body = list(lk[0].body)
    conv = "If(UnaryOp(Not(), Call(Name('isinstance', Load()), [Name('id_', Load()), Name('Integral', Load())])), [Assign([Name('id_', Store())], Call(Name('int', Load()), [Name('id_', Load())]))])"
    if not (len(body) == 2 and _dump(body[0]).replace(', [], [])', ')').replace(', [])', ')') == conv.replace(', [], [])', ')').replace(', [])', ')')
            or len(body) == 2 and isinstance(body[0], ast.If) and 'isinstance' in _dump(body[0].test) and 'Integral' in _dump(body[0].test)):
        bad(lk[0], 'TableR.lookup: first statement is not the int conversion of id_')
    sel = body[1]
    if not (isinstance(sel, ast.If) and len(sel.body) == 1 and len(sel.orelse) == 1
            and isinstance(sel.body[0], ast.Return) and isinstance(sel.orelse[0], ast.Return)
            and _is_call(sel.body[0].value, 'DelayedReplicationDescriptor', 1) and _is_call(sel.orelse[0].value, 'FixedReplicationDescriptor', 1)
            and _dump(sel.body[0].value.args[0]) == _dump(ast.Name('id_', ast.Load()))
            and _dump(sel.orelse[0].value.args[0]) == _dump(ast.Name('id_', ast.Load()))):
        bad(sel, 'TableR.lookup is not `if <test>: return DelayedReplicationDescriptor(id_) else: return FixedReplicationDescriptor(id_)`')
    ec = _BuilderExpr(mod, gen)
    ec.names = {'id_': ('id_', INT)}
    test = ec.as_bool(ec.expr(sel.test), sel.test)
    if test.raises:
        bad(sel, 'TableR.lookup test may raise')
    a, b, _ = mod.src(lk[0])
    func_texts.append('\n'.join([
        '/-- %s:%d-%d  `TableR.lookup` (ids are ints: the `int()` conversion of a non-int id is not modelled): a fresh' % (mod.relpath, a, b),
        '    `DelayedReplicationDescriptor(id_)` (no factor, no members yet) or `FixedReplicationDescriptor(id_)` -/',
        'def TableR.lookup {ε : Type} (id_ : Int) : Py.Small.Descr ε :=',
        '  if %s then .delayedRep id_ none [] else .fixedRep id_ []' % test.code]))
    gen.items.append({'kind': 'method', 'name': 'TableR.lookup', 'lines': [a, b], 'may_raise': False})

    # ---- the builder
    fname = bs['func']
    fn = mod.funcs.get(fname, [])
    if len(fn) != 1:
        bad(0, 'function %s not found exactly once' % fname)
    fn = fn[0]
    if [x.arg for x in fn.args.args] != ['b', 'c', 'r', 'd', 'next_id'] or fn.args.vararg or fn.args.kwarg or fn.args.defaults:
        bad(fn, 'parameters are not (b, c, r, d, next_id)')
    body = list(fn.body)
    if body and isinstance(body[0], ast.Expr) and isinstance(body[0].value, ast.Constant):
        body = body[1:]
    if not (len(body) == 3 and _dump(body[0]) == _dump(ast.parse('descriptors = []').body[0])
            and isinstance(body[1], ast.While) and isinstance(body[1].test, ast.Constant) and body[1].test.value is True
            and not body[1].orelse and _dump(body[2]) == _dump(ast.parse('return descriptors').body[0])):
        bad(fn, 'body is not `descriptors = []; while True: …; return descriptors`')
    loop = body[1].body
    if len(loop) != 2 or not isinstance(loop[0], ast.Try) or not isinstance(loop[1], ast.If):
        bad(body[1], 'loop body is not `try: … except StopIteration: break` followed by one if / elif chain')
    tr = loop[0]
    ok = (not tr.orelse and not tr.finalbody and len(tr.handlers) == 1 and tr.handlers[0].name is None
          and _dump(tr.handlers[0].type) == _dump(ast.Name('StopIteration', ast.Load()))
          and len(tr.handlers[0].body) == 1 and isinstance(tr.handlers[0].body[0], ast.Break)
          and len(tr.body) == 2 and _dump(tr.body[0]) == _dump(ast.parse('id_ = next_id()').body[0])
          and isinstance(tr.body[1], ast.If) and 'isinstance' in _dump(tr.body[1].test) and 'Integral' in _dump(tr.body[1].test)
          and not tr.body[1].orelse and len(tr.body[1].body) == 1
          and _dump(tr.body[1].body[0]) == _dump(ast.parse('id_ = int(id_)').body[0]))
    if not ok:
        bad(tr, 'loop head is not `try: id_ = next_id(); if not isinstance(id_, Integral): id_ = int(id_)  except StopIteration: break`')

    def expr(node):
        x = ec.to_int(ec.expr(node))
        if x.raises:
            bad(node, 'expression may raise')
        return x.code

    def lookup_call(node):
        for t in ('b', 'c', 'd'):
            if _is_call(node, '%s.lookup' % t, 1):
                return t, node.args[0]
        return None

    def branch(stmts):
        out = []
        for st in stmts:
            d = _dump(st)
            if (isinstance(st, ast.Expr) and _is_call(st.value, 'descriptors.append', 1)):
                arg = st.value.args[0]
                lc = lookup_call(arg)
                if lc is not None:
                    out.append('let descriptors := descriptors ++ [env.%s_lookup %s]' % (lc[0], expr(lc[1])))
                elif _dump(arg) == _dump(ast.Name('descriptor', ast.Load())):
                    out.append('let descriptors := descriptors ++ [descriptor]')
                else:
                    bad(st, 'descriptors.append of something else than a table lookup or `descriptor`')
            elif d == _dump(ast.parse('descriptor = r.lookup(id_)').body[0]):
                out.append('let descriptor : Py.Small.Descr ε := TableR.lookup id_')
            elif d == _dump(ast.parse('if isinstance(descriptor, DelayedReplicationDescriptor):\n    descriptor.factor = b.lookup(next_id())').body[0]):
                # next_id() outside the try: StopIteration propagates to the caller
                out.append('let (descriptor, ids) ← (if Py.Small.Descr.isDelayed descriptor then\n'
                           '      (match ids with\n'
                           '       | [] => (.error (.raised "StopIteration") : Except Py.Exc (Py.Small.Descr ε × List Int))\n'
                           '       | f :: ids\' => .ok (Py.Small.Descr.setFactor descriptor (env.b_lookup f), ids\'))\n'
                           '    else .ok (descriptor, ids))')
            elif (isinstance(st, ast.Assign) and len(st.targets) == 1 and _dump(st.targets[0]) == _dump(ast.Name('g', ast.Store()))
                  and _is_call(st.value, 'generate_quiet', 2) and _is_call(st.value.args[0], 'range', 1)
                  and _dump(st.value.args[1]) == _dump(ast.Name('next_id', ast.Load()))):
                n = expr(st.value.args[0].args[0])
                # the generator hands out at most n of the next ids of the shared iterator; its only consumer (the
                # recursive call below) exhausts it, so it is the list of the next n ids and the position moves past them
                out.append('let g := List.take (%s).toNat ids' % n)
                out.append('let ids := List.drop (%s).toNat ids' % n)
            elif d == _dump(ast.parse('descriptor.members = %s(b, c, r, d, functools.partial(next, g))' % fname).body[0]):
                out.append('let members ← loop env fuel g []')
                out.append('let descriptor := Py.Small.Descr.setMembers descriptor members')
            else:
                bad(st, 'statement is not in the table of the template builder')
        return out

    # the chain
    arms, node = [], loop[1]
    while True:
        c = ec.as_bool(ec.expr(node.test), node.test)
        if c.raises:
            bad(node, 'test may raise')
        arms.append((c.code, branch(node.body)))
        if len(node.orelse) == 1 and isinstance(node.orelse[0], ast.If):
            node = node.orelse[0]
            continue
        arms.append((None, branch(node.orelse)))
        break
    lines = []
    ind = '      '
    for i, (c, steps) in enumerate(arms):
        if c is not None:
            lines.append('%s%sif %s then (do' % (ind, 'else ' if i else '', c))
        else:
            lines.append('%selse (do' % ind)
        for stp in steps:
            lines.append(ind + '    ' + stp.replace('\n', '\n' + ind + '    '))
        lines.append(ind + '    loop env fuel ids descriptors)')
    a, b, _ = mod.src(fn)
    text = '\n'.join([
        '/-- the table group as the builder uses it: the three lookups that return existing descriptor objects -/',
        'structure TableGroup (ε : Type) where',
        '  b_lookup : Int → Py.Small.Descr ε',
        '  c_lookup : Int → Py.Small.Descr ε',
        '  d_lookup : Int → Py.Small.Descr ε',
        '',
        '/-- %s:%d-%d  `def %s`: the `while True` loop.  `ids`: what the iterator behind `next_id` still holds;' % (mod.relpath, a, b, fname),
        '    `descriptors`: the list built so far; `StopIteration` of the first `next_id()` = the list is empty = `break`,',
        '    then `return descriptors`.  Structural recursion on the fuel (loop iterations and recursive calls). -/',
        'def %s.loop {ε : Type} (env : TableGroup ε) : Nat → List Int → List (Py.Small.Descr ε) → Except Py.Exc (List (Py.Small.Descr ε))' % fname,
        '  | 0, _, _ => .error .outOfFuel',
        '  | _ + 1, [], descriptors => .ok descriptors',
        '  | fuel + 1, id_ :: ids, descriptors =>'] + lines + [
        '',
        '/-- `%s(b, c, r, d, next_id)` with `next_id` = `functools.partial(next, iter(ids))` -/' % fname,
        'def %s {ε : Type} (env : TableGroup ε) (fuel : Nat) (ids : List Int) : Except Py.Exc (List (Py.Small.Descr ε)) :=' % fname,
        '  %s.loop env fuel ids []' % fname])
    func_texts.append(text)
    gen.items.append({'kind': 'function', 'name': fname, 'lines': [a, b], 'may_raise': True})


# =================================================================================================
# descriptors.py `BufrTemplate.original_descriptor_ids` (C14): the work queue over descriptor objects (`Py.Small.Descr`)
def render_queue_walk(gen, spec, func_texts):
    from harness import py2lean
    mod = gen.mod
    qs = spec['queue_walk']

    def bad(node, what):
        raise py2lean.Py2LeanUnsupported(mod.relpath, node, 'original_descriptor_ids: ' + what)
    cn = mod.classes.get(qs['class'], [])
    if len(cn) != 1:
        bad(0, 'class %s not found exactly once' % qs['class'])
    ms = [n for n in cn[0].body if isinstance(n, ast.FunctionDef) and n.name == qs['method']]
    if len(ms) != 1:
        bad(cn[0], 'method %s not found exactly once' % qs['method'])
    fn = ms[0]
    body = list(fn.body)
    if body and isinstance(body[0], ast.Expr) and isinstance(body[0].value, ast.Constant):
        body = body[1:]
    if not (len(body) == 4 and _dump(body[0]) == _dump(ast.parse('ret = []').body[0])
            and _dump(body[1]) == _dump(ast.parse('members = list(self.members)').body[0])
            and isinstance(body[2], ast.While) and _dump(body[2].test) == _dump(ast.Name('members', ast.Load())) and not body[2].orelse
            and _dump(body[3]) == _dump(ast.parse('return ret').body[0])):
        bad(fn, 'body is not `ret = []; members = list(self.members); while members: …; return ret`')
    loop = body[2].body
    if not loop or _dump(loop[0]) != _dump(ast.parse('member = members.pop(0)').body[0]):
        bad(body[2], 'the loop does not start with `member = members.pop(0)`')
    tests = {'ReplicationDescriptor': 'Py.Small.Descr.isReplication member',
             'DelayedReplicationDescriptor': 'Py.Small.Descr.isDelayed member',
             'FixedReplicationDescriptor': 'Py.Small.Descr.isFixed member',
             'SequenceDescriptor': 'Py.Small.Descr.isSequence member'}

    def block(stmts, ind):
        out = []
        for st in stmts:
            d = _dump(st)
            if d == _dump(ast.parse('ret.append(member.id)').body[0]):
                out.append(ind + 'let ret := ret ++ [Py.Small.Descr.idWith eid member]')
            elif d == _dump(ast.parse('ret.append(member.factor.id)').body[0]):
                out.append(ind + 'let t ← Py.Small.Descr.factorId eid member')
                out.append(ind + 'let ret := ret ++ [t]')
            elif d == _dump(ast.parse('members = member.members + members').body[0]):
                out.append(ind + 'let members := Py.Small.Descr.membersOf member ++ members')
            elif d == _dump(ast.parse('members = members + member.members').body[0]):
                out.append(ind + 'let members := members ++ Py.Small.Descr.membersOf member')
            elif (isinstance(st, ast.If) and not st.orelse and _is_call(st.test, 'isinstance', 2)
                  and _dump(st.test.args[0]) == _dump(ast.Name('member', ast.Load()))
                  and isinstance(st.test.args[1], ast.Name) and st.test.args[1].id in tests):
                out.append(ind + 'let (ret, members) ← (if %s then (do' % tests[st.test.args[1].id])
                out += block(st.body, ind + '    ')
                out.append(ind + '    pure (ret, members)) else pure (ret, members))')
            else:
                bad(st, 'statement is not in the table of the queue walk')
        return out
    steps = block(loop[1:], '      ')
    a, b, _ = mod.src(fn)
    text = '\n'.join([
        '/-- %s:%d-%d  `%s.%s`: the `while members:` loop over the work queue (`members.pop(0)` takes the head;' % (mod.relpath, a, b, qs['class'], qs['method']),
        '    `eid`: the `id` attribute of an element of Table B).  Structural recursion on the fuel. -/',
        'def %s.%s.loop {ε : Type} (eid : ε → Int) : Nat → List (Py.Small.Descr ε) → List Int → Except Py.Exc (List Int)' % (qs['class'], qs['method']),
        '  | 0, _, _ => .error .outOfFuel',
        '  | _ + 1, [], ret => .ok ret',
        '  | fuel + 1, member :: members, ret => (do'] + steps + [
        '      loop eid fuel members ret)',
        '',
        '/-- `%s.%s` of a template whose `members` are `ms` -/' % (qs['class'], qs['method']),
        'def %s.%s {ε : Type} (eid : ε → Int) (fuel : Nat) (ms : List (Py.Small.Descr ε)) : Except Py.Exc (List Int) :=' % (qs['class'], qs['method']),
        '  %s.%s.loop eid fuel ms []' % (qs['class'], qs['method'])])
    func_texts.append(text)
    gen.items.append({'kind': 'method', 'name': '%s.%s' % (qs['class'], qs['method']), 'lines': [a, b], 'may_raise': True})


# =================================================================================================
# descriptors.py `flat_member_ids` (C14): the recursive walk over the members of a descriptor (`Py.Small.Descr`)
def render_tree_walk(gen, spec, func_texts):
    from harness import py2lean
    mod = gen.mod
    fname = spec['tree_walk']['func']

    def bad(node, what):
        raise py2lean.Py2LeanUnsupported(mod.relpath, node, '%s: %s' % (fname, what))
    fn = mod.funcs.get(fname, [])
    if len(fn) != 1:
        bad(0, 'function not found exactly once')
    fn = fn[0]
    if [a.arg for a in fn.args.args] != ['descriptor'] or fn.args.vararg or fn.args.kwarg or fn.args.defaults:
        bad(fn, 'parameters are not (descriptor)')
    body = list(fn.body)
    if body and isinstance(body[0], ast.Expr) and isinstance(body[0].value, ast.Constant):
        body = body[1:]
    if not (len(body) == 3 and _dump(body[0]) == _dump(ast.parse('ret = []').body[0])
            and isinstance(body[1], ast.For) and not body[1].orelse
            and _dump(body[1].target) == _dump(ast.Name('member', ast.Store()))
            and _dump(body[1].iter) == _dump(ast.parse('descriptor.members', mode='eval').body)
            and _dump(body[2]) == _dump(ast.parse('return ret').body[0])):
        bad(fn, 'body is not `ret = []; for member in descriptor.members: …; return ret`')
    if len(body[1].body) != 1 or not isinstance(body[1].body[0], ast.If):
        bad(body[1], 'loop body is not one if / elif chain')
    tests = {'ReplicationDescriptor': 'Py.Small.Descr.isReplication member',
             'DelayedReplicationDescriptor': 'Py.Small.Descr.isDelayed member',
             'FixedReplicationDescriptor': 'Py.Small.Descr.isFixed member',
             'SequenceDescriptor': 'Py.Small.Descr.isSequence member'}

    def arm(stmts):
        out = []
        for st in stmts:
            d = _dump(st)
            if d == _dump(ast.parse('ret.append(member.id)').body[0]):
                out.append('let ret := ret ++ [Py.Small.Descr.idWith eid member]')
            elif d == _dump(ast.parse('ret.append(member.factor.id)').body[0]):
                out.append('let t ← Py.Small.Descr.factorId eid member')
                out.append('let ret := ret ++ [t]')
            elif d == _dump(ast.parse('ret.extend(%s(member))' % fname).body[0]):
                out.append('let t ← %s eid fuel member' % fname)
                out.append('let ret := ret ++ t')
            else:
                bad(st, 'statement is not in the table of the member walk')
        return out
    lines, node, first = [], body[1].body[0], True
    while True:
        t = node.test
        if not (_is_call(t, 'isinstance', 2) and _dump(t.args[0]) == _dump(ast.Name('member', ast.Load()))
                and isinstance(t.args[1], ast.Name) and t.args[1].id in tests):
            bad(node, 'test is not isinstance(member, <descriptor class>)')
        lines.append('        %sif %s then (do' % ('' if first else 'else ', tests[t.args[1].id]))
        lines += ['            ' + x for x in arm(node.body)] + ['            pure ret)']
        first = False
        if len(node.orelse) == 1 and isinstance(node.orelse[0], ast.If):
            node = node.orelse[0]
            continue
        lines.append('        else (do')
        lines += ['            ' + x for x in arm(node.orelse)] + ['            pure ret)']
        break
    a, b, _ = mod.src(fn)
    text = '\n'.join([
        '/-- %s:%d-%d  `def %s` on descriptor objects by value (`eid`: the `id` of a Table B element); a call of the' % (mod.relpath, a, b, fname),
        '    function itself passes one unit of fuel less (`.error .outOfFuel` at 0) -/',
        'def %s {ε : Type} (eid : ε → Int) : Nat → Py.Small.Descr ε → Except Py.Exc (List Int)' % fname,
        '  | 0, _ => .error .outOfFuel',
        '  | fuel + 1, descriptor =>',
        '    Py.forIn (Py.Small.Descr.membersOf descriptor) ([] : List Int) (fun (member : Py.Small.Descr ε) (ret : List Int) =>'] + lines + [')'])
    func_texts.append(text)
    gen.items.append({'kind': 'function', 'name': fname, 'lines': [a, b], 'may_raise': True})
