"""
Runs the registered quick check of a property against a seeded (property-breaking) change.

  python -m harness.seedtest <dir with patch.diff [demo.py, meta.json]> [--prop Cxx] [--suite] [--tier quick]

A scratch worktree of /repo's HEAD is created under /tmp, the patch applied, optionally the repository's own test
suite and the demonstration run, then `./check Cxx` with VERIF_REPO pointing at the scratch tree.  The scratch tree is
removed afterwards.  /repo itself is never modified.  Prints one summary line:
  SEED <dir> prop=Cxx suite=<pass|fail|skipped> demo_changed=<rc> demo_orig=<rc> check_rc=<rc> detected=<yes|no>
"""
import argparse
import json
import os
import shutil
import subprocess
import sys
import tempfile

VERIF = os.path.dirname(os.path.dirname(os.path.abspath(__file__)))
PY = '/venv/bin/python'


def sh(cmd, cwd=None, env=None, timeout=3600):
    p = subprocess.run(cmd, cwd=cwd, env=env, stdout=subprocess.PIPE, stderr=subprocess.STDOUT, text=True, timeout=timeout)
    return p.returncode, p.stdout


def main():
    ap = argparse.ArgumentParser()
    ap.add_argument('dir')
    ap.add_argument('--prop', default=None)
    ap.add_argument('--suite', action='store_true')
    ap.add_argument('--tier', default='quick')
    ap.add_argument('--seed', default='0')
    args = ap.parse_args()
    d = os.path.abspath(args.dir)
    meta = {}
    if os.path.exists(os.path.join(d, 'meta.json')):
        meta = json.load(open(os.path.join(d, 'meta.json')))
    prop = args.prop or meta.get('property_id') or meta.get('property', '')[:3]
    scratch = tempfile.mkdtemp(prefix='seed_', dir='/tmp')
    os.rmdir(scratch)
    rc, out = sh(['git', '-C', '/repo', 'worktree', 'add', '--detach', scratch, 'HEAD'])
    if rc != 0:
        print(out)
        sys.exit(2)
    try:
        env = dict(os.environ, PYTHONPATH=scratch)
        demo = os.path.join(d, 'demo.py')
        demo_orig = demo_changed = None
        if os.path.exists(demo):
            demo_orig, _ = sh([PY, demo], cwd=scratch, env=env, timeout=600)
        rc, out = sh(['git', 'apply', os.path.join(d, 'patch.diff')], cwd=scratch)
        if rc != 0:
            print('patch does not apply:', out)
            sys.exit(2)
        suite = 'skipped'
        if args.suite:
            rc, out = sh([PY, '-m', 'pytest', '-q', '-p', 'no:cacheprovider', '--timeout=900', '-x'], cwd=scratch, env=env)
            suite = 'pass' if rc == 0 else 'fail'
            if rc != 0:
                print(out[-1500:])
        if os.path.exists(demo):
            demo_changed, o = sh([PY, demo], cwd=scratch, env=env, timeout=600)
        env2 = dict(os.environ, VERIF_REPO=scratch, VERIF_SEED=args.seed)
        rc, out = sh([os.path.join(VERIF, 'check'), prop, '--tier', args.tier], cwd=VERIF, env=env2, timeout=7200)
        viol = [l for l in out.split('\n') if l.startswith('VIOLATION') or l.startswith('  ') and 'VIOLATION' not in l][:6]
        print('\n'.join(viol))
        print(out.strip().split('\n')[-1])
        detected = 'yes' if rc == 1 and any(l.startswith('VIOLATION property=%s' % prop) for l in out.split('\n')) else 'no'
        print('SEED %s prop=%s suite=%s demo_changed=%s demo_orig=%s check_rc=%s detected=%s' % (
            os.path.relpath(d, VERIF), prop, suite, demo_changed, demo_orig, rc, detected))
    finally:
        sh(['git', '-C', '/repo', 'worktree', 'remove', '--force', scratch])
        shutil.rmtree(scratch, ignore_errors=True)
        # evidence written by a run against a scratch tree is not evidence for /repo: restore
        sh(['git', 'checkout', '--', 'evidence'], cwd=VERIF)
        # ... and the files regenerated from the scratch tree's sources are not those of /repo
        sh(['git', 'checkout', '--', 'lean/BufrModel/Gen'], cwd=VERIF)


if __name__ == '__main__':
    main()
