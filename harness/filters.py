"""
General filter expressions for the stream check (C11).

`generate_bufr_message(..., filter_expr=...)` evaluates a Python expression with embedded metadata queries
`${%name}` / `${%k.name}` on the metadata-only decode of every message.  This module

  * enumerates EVERY parameter name of every section layout of /repo/pybufrkit/definitions (as C17 does), bare,
    qualified with each section index that has the name, and qualified with an index that has not (`atoms`);
  * generates expressions over them: comparison (== != < <= > >=, either operand order) with constants that DO
    occur in the stream (preferring 0 / False / '' / [] when they occur) or do not, `not`, bare truthiness,
    `in` / `not in` a tuple of constants, `is None`, containment in the queried value (`301001 in ${%unexpanded_descriptors}`),
    comparison of two queries, and `and` / `or` / `and not` combinations of two of those;
  * renders an expression as Python source (what the implementation gets), as the tree the model driver takes
    (`fexpr` of the `scan` op, lean/BufrModel/Lang/FilterExpr.lean) and evaluates it DIRECTLY (Python operators on
    the parameter values found by a plain scan of the sections of a fresh full decode of the piece): the oracle;
  * varies, at message generation, the section parameters that do not influence decoding, so that each of them
    is 0 / False / all-zero in some messages and non-zero in others (`tweak`).

The filter sees the metadata-only decode: `template_data` and section 5 (`stop_signature`) are not in it, so
expressions over them are outside the oracle (`OUTSIDE`; model and implementation are still compared).
"""
import operator

from harness import coder_io as C
from harness import msgs

OUTSIDE = 'outside'
RAISES = 'raises'

OPS = {'==': operator.eq, '!=': operator.ne, '<': operator.lt, '<=': operator.le, '>': operator.gt, '>=': operator.ge}
SIMPLE_FORMS = ['eq', 'ne', 'lt', 'le', 'gt', 'ge', 'not', 'truth', 'in', 'notin', 'isnone', 'notnone', 'contains', 'qq']
# parameters that may be varied freely: they do not influence the decoding of the message
FREE_UINT = {1: ['update_sequence_number', 'data_i18n_subcategory', 'data_local_subcategory', 'originating_centre',
                 'originating_subcentre', 'year', 'month', 'day', 'hour', 'minute', 'second']}
FREE_BOOL = {3: ['is_observation']}
FREE_BIN = {1: ['flag_bits'], 2: ['reserved_bits'], 3: ['reserved_bits', 'flag_bits'], 4: ['reserved_bits']}


class Outside(Exception):
    pass


# ---------------------------------------------------------------------------------------------
# parameter names
def param_table():
    """-> (names in layout order, {name: sorted section indices that have it}, {name: set of types})"""
    names, where, types = [], {}, {}
    for (index, ed), lay in sorted(msgs.layouts().items()):
        for p in lay['parameters']:
            n = p['name']
            if n not in names:
                names.append(n)
            where.setdefault(n, set()).add(index)
            types.setdefault(n, set()).add(p['type'])
    return names, {n: sorted(v) for n, v in where.items()}, types


def atoms():
    """[(section index or None, name)]: every name bare, with every section index whose layout has it, and with
    one index whose layout has it not (the query is None there)"""
    names, where, _ = param_table()
    out = []
    for n in names:
        out.append((None, n))
        for k in where[n]:
            out.append((k, n))
        out.append((next(k for k in (1, 3, 0, 4, 2, 5) if k not in where[n]), n))
    return out


def atom_expr(atom):
    k, n = atom
    return '%' + n if k is None else '%%%d.%s' % (k, n)


# ---------------------------------------------------------------------------------------------
# the values of one message
class Meta(object):
    """parameter values of one piece, read from a fresh full decode by a plain scan of its sections"""
    __slots__ = ('secs',)

    def __init__(self, b):
        from pybufrkit.decoder import Decoder
        msg = Decoder().process(b, wire_template_data=False)
        self.secs = [(s.get_metadata('index'), [(p.name, p.type, p.value) for p in s]) for s in msg.sections]

    def query(self, expr):
        e = expr.strip()
        body = e[1:]
        k = None
        if '.' in body:
            ks, body = body.split('.')
            k = int(ks)
        return self.lookup(k, body)

    def lookup(self, k, name):
        for idx, ps in self.secs:
            if k is not None and idx != k:
                continue
            for n, t, v in ps:
                if n == name:
                    if t == 'template_data' or idx == 5:
                        return OUTSIDE          # not part of the metadata-only decode the filter is evaluated on
                    return v
        return None


# ---------------------------------------------------------------------------------------------
# constants and trees
def tag_const(v):
    if v is None:
        return ['n']
    if isinstance(v, bool):
        return ['b', v]
    if isinstance(v, int):
        return ['i', v]
    if isinstance(v, str):
        return ['s', v]
    if isinstance(v, bytes):
        return ['x', v.hex()]
    if isinstance(v, (list, tuple)):
        return ['l', [int(x) for x in v]]
    raise ValueError('no constant for %r' % (v,))


def const_val(c):
    k = c[0]
    if k == 'n':
        return None
    if k == 'x':
        return bytes.fromhex(c[1])
    if k == 'l':
        return list(c[1])
    return c[1]


def const_src(c):
    return repr(const_val(c))


def queries_of(t):
    k = t[0]
    if k == 'q':
        return [t[1]]
    if k == 'c':
        return []
    if k == 'cmp':
        return queries_of(t[2]) + queries_of(t[3])
    if k in ('and', 'or'):
        return queries_of(t[1]) + queries_of(t[2])
    if k == 'in':
        return queries_of(t[1]) + queries_of(t[2])
    return queries_of(t[1])         # not, inlits, isnone


def source(t, rng=None):
    """Python source of the tree (composite operands in parentheses; blanks inside ${} now and then)"""
    k = t[0]
    if k == 'q':
        if rng is not None and rng.random() < 0.15:
            return '${ %s }' % t[1]
        return '${%s}' % t[1]
    if k == 'c':
        return const_src(t[1])

    def operand(x):
        s = source(x, rng)
        return s if x[0] in ('q', 'c') else '(%s)' % s
    if k == 'cmp':
        return '%s %s %s' % (operand(t[2]), t[1], operand(t[3]))
    if k == 'not':
        return 'not %s' % operand(t[1])
    if k in ('and', 'or'):
        return '%s %s %s' % (operand(t[1]), k, operand(t[2]))
    if k == 'inlits':
        return '%s %s (%s,)' % (operand(t[1]), 'not in' if t[3] else 'in', ', '.join(const_src(c) for c in t[2]))
    if k == 'in':
        return '%s %s %s' % (operand(t[1]), 'not in' if t[3] else 'in', operand(t[2]))
    if k == 'isnone':
        return '%s %s None' % (operand(t[1]), 'is not' if t[2] else 'is')
    raise ValueError(k)


def _ev(t, meta):
    k = t[0]
    if k == 'q':
        return meta.query(t[1])
    if k == 'c':
        return const_val(t[1])
    if k == 'cmp':
        a = _ev(t[2], meta)
        b = _ev(t[3], meta)
        return OPS[t[1]](a, b)
    if k == 'not':
        return not _ev(t[1], meta)
    if k == 'and':
        return _ev(t[1], meta) and _ev(t[2], meta)
    if k == 'or':
        return _ev(t[1], meta) or _ev(t[2], meta)
    if k == 'inlits':
        r = _ev(t[1], meta) in tuple(const_val(c) for c in t[2])
        return (not r) if t[3] else r
    if k == 'in':
        a = _ev(t[1], meta)
        b = _ev(t[2], meta)
        return (a not in b) if t[3] else (a in b)
    if k == 'isnone':
        a = _ev(t[1], meta)
        return (a is not None) if t[2] else (a is None)
    raise ValueError(k)


def status(tree, meta):
    """True / False (the expression holds / does not hold for the piece), RAISES (evaluating it is an error: the
    expression is not defined for this piece), OUTSIDE (it refers to something the metadata-only decode has not)"""
    if any(meta.query(q) is OUTSIDE for q in queries_of(tree)):
        return OUTSIDE
    try:
        return bool(_ev(tree, meta))
    except Exception:  # noqa - TypeError / ValueError of the comparison
        return RAISES


# ---------------------------------------------------------------------------------------------
# generation
def _falsy(v):
    return v is not None and not v


def pick_const(rng, vals, prefer_falsy=0.5):
    """a constant for comparison with a query whose values over the candidate messages are `vals`"""
    vals = [v for v in vals if v is not OUTSIDE]
    real = [v for v in vals if v is not None]
    fals = [v for v in real if _falsy(v)]
    r = rng.random()
    if fals and r < prefer_falsy:
        return rng.choice(fals)
    if real and r < 0.85:
        return rng.choice(real)
    if r < 0.9:
        return None
    # a value that need not occur
    proto = rng.choice(real) if real else 0
    if isinstance(proto, bool):
        return rng.choice([True, False, 0, 1])
    if isinstance(proto, int):
        return rng.choice([0, 1, proto + 1, max(proto - 1, 0), 255, 300, 65535])
    if isinstance(proto, str):
        return rng.choice(['', '0', '1', proto[:-1], proto + '1', '0' * len(proto), '1' * len(proto)])
    if isinstance(proto, bytes):
        return rng.choice([b'', b'BUFR', b'7777', b'BUF', proto[:-1]])
    if isinstance(proto, (list, tuple)):
        return rng.choice([[], list(proto[:-1]), list(proto) + [1], [0]])
    return 0


def simple(rng, atom, form, metas, all_atoms):
    """one simple filter over the atom; metas: the candidate messages (constants are taken from their values)"""
    q = ['q', atom_expr(atom)]
    vals = [m.lookup(*atom) for m in metas]
    if form in ('eq', 'ne', 'lt', 'le', 'gt', 'ge'):
        op = {'eq': '==', 'ne': '!=', 'lt': '<', 'le': '<=', 'gt': '>', 'ge': '>='}[form]
        c = ['c', tag_const(pick_const(rng, vals))]
        return ['cmp', op, c, q] if rng.random() < 0.2 else ['cmp', op, q, c]
    if form == 'not':
        return ['not', q]
    if form == 'truth':
        return q
    if form in ('in', 'notin'):
        cs = [tag_const(pick_const(rng, vals)) for _ in range(rng.choice([1, 2, 2, 3]))]
        return ['inlits', q, cs, form == 'notin']
    if form in ('isnone', 'notnone'):
        return ['isnone', q, form == 'notnone']
    if form == 'contains':
        real = [v for v in vals if v is not None and v is not OUTSIDE]
        proto = rng.choice(real) if real else None
        if isinstance(proto, (list, tuple)):
            pool = [x for v in real if isinstance(v, (list, tuple)) for x in v]
            e = rng.choice(pool) if pool and rng.random() < 0.7 else rng.choice([0, 1, 301001, 31031])
        elif isinstance(proto, str):
            e = rng.choice(['1', '0', '', '11', '01', proto, 1])
        elif isinstance(proto, bytes):
            e = rng.choice([b'UF', b'B', b'', proto, 85, 66, 0])
        else:
            e = rng.choice([0, 1, '1', b'B'])
        return ['in', ['c', tag_const(e)], q, rng.random() < 0.3]
    if form == 'qq':
        other = rng.choice(all_atoms) if rng.random() < 0.6 else (rng.choice([None, 1, 3]), atom[1])
        op = rng.choice(['==', '!=', '<', '<=', '>', '>='])
        return ['cmp', op, q, ['q', atom_expr(other)]]
    raise ValueError(form)


class Filter(object):
    __slots__ = ('tree', 'expr', 'forms', 'atoms')

    def __init__(self, tree, rng, forms, atoms_):
        self.tree = tree
        self.expr = source(tree, rng)
        self.forms = forms
        self.atoms = atoms_

    def status(self, meta):
        return status(self.tree, meta)


def make(rng, metas, all_atoms, atom=None, form=None):
    """a filter; atom / form given: that simple filter; else a simple filter (60 %) or a combination of two"""
    if atom is not None and form is not None:
        return Filter(simple(rng, atom, form, metas, all_atoms), rng, [form], [atom])
    a1 = atom or rng.choice(all_atoms)
    f1 = form or rng.choice(SIMPLE_FORMS)
    t1 = simple(rng, a1, f1, metas, all_atoms)
    if rng.random() < 0.6 and atom is None:
        return Filter(t1, rng, [f1], [a1])
    a2 = rng.choice(all_atoms)
    f2 = rng.choice(SIMPLE_FORMS)
    t2 = simple(rng, a2, f2, metas, all_atoms)
    comb = rng.choice(['and', 'or', 'and-not', 'or-not', 'not-and'])
    if comb == 'and':
        t = ['and', t1, t2]
    elif comb == 'or':
        t = ['or', t1, t2]
    elif comb == 'and-not':
        t = ['and', t1, ['not', t2]]
    elif comb == 'or-not':
        t = ['or', ['not', t1], t2]
    else:
        t = ['not', ['and', t1, t2]]
    return Filter(t, rng, [f1, f2, comb], [a1, a2])


# ---------------------------------------------------------------------------------------------
# message generation: parameters that take the value 0 as well as other values
def tweak(rng, js, edition, sec2):
    """vary, in place, the section parameters of an encoder input that do not influence decoding: each is 0 /
    False / all-zero with probability about 0.4, otherwise small, random or the maximum"""
    present = [0, 1] + ([2] if sec2 is not None else []) + [3, 4, 5]
    for index, vals in zip(present, js):
        lay = C.section_layout(index, edition)
        for i, p in enumerate(lay['parameters']):
            name, typ, nbits = p['name'], p['type'], p['nbits']
            if typ == 'uint' and name in FREE_UINT.get(index, ()):
                vals[i] = rng.choice([0, 0, 0, 1, 2, rng.randrange(2 ** nbits), rng.randrange(2 ** nbits), 2 ** nbits - 1])
            elif typ == 'bool' and name in FREE_BOOL.get(index, ()):
                vals[i] = rng.random() < 0.5
            elif typ == 'bin' and nbits and name in FREE_BIN.get(index, ()):
                r = rng.random()
                vals[i] = '0' * nbits if r < 0.4 else ('1' * nbits if r < 0.5 else ''.join(rng.choice('01') for _ in range(nbits)))
