"""
C05 helper: compressed-vs-uncompressed probes of EVERY width modifier x ALL special packed integers x all column shapes.

Why this exists (seeded/C05-4): the older generators of harness/props/c05.py drew the entries of a column relative to the
EFFECTIVE width of the field only (0 .. 2^w - 2, spreads 2^k - 2 / 2^k - 1 from a random minimum).  With a width modifier
in force a field has TWO widths - the Table B width nb of the element and the width w actually read and written - and a
compressed reader / writer that consults the wrong one of them goes wrong exactly on the packed integers that are special
for the other width: 2^nb - 1 in a widened field is an ordinary value, 2^w - 1 is the missing indicator, and so on.  None
of those integers was ever put into a column (the chance of drawing 127 in an 8..64-bit field is nil), the exhaustive part
only NARROWS an 8-bit element to 1..3 bits, and only one scale-0 / reference-0 element (005041) was ever used.

Here, for each modifier
    none, 201+ (widening), 201- (narrowing), 202, 207, 207 with a compensating 202, 201+207, 201+202, 203 (new reference
    value), 225255 (difference statistics: width + 1, reference -2^nb), 204 (associated field), 206 (skipped local
    descriptor), 208 (character width), and code / flag elements under 201+, 201-, 202, 207 (which must NOT change them)
and for elements of each arithmetic class (scale 0 and reference 0 - the "plain integers" -, scaled, with a reference
value), every exponent k that is special for the pair (Table B width, width in force) - nb-1, nb, nb+1, w-1, w, w+1 and
exponents in between (`pow2_exponents` of harness/c03fields.py, the family written for C03) - gives the raw integers
2^k - 1, 2^k and a neighbour (2^k - 2 or 2^k + 1; all four in the thorough tier) as far as they are values of the field
(0 .. 2^w - 2), and every such integer is put into columns of every shape:
    equal          all subsets hold it                                  (increment width 0)
    vary-up        it is the column minimum, the other entries above it  (increment 0 for it)
    vary-down      it is the column maximum, the other entries below it  (minimum + increment)
    missing        next to other entries and a missing entry
    equal-missing  next to a missing entry only                          (one-bit increments)
The cases go through the ordinary pipeline of c05.py (`evaluate`): implementation encodes compressed and uncompressed,
both decoded by the implementation (transparency oracle) and by the model, other legal increment widths.
"""
from harness import tables_io
from harness import coder_io as C
from harness import coderprops as P
from harness import c03fields as F
from harness import encprops as E

SHAPES = ['equal', 'vary-up', 'vary-down', 'missing', 'equal-missing']
NUMERIC_MODS = ['none', '201+', '201+', '201-', '202', '207', '207-202', '201+207', '201+202', '203', '225255']
CODE_MODS = ['cf201+', 'cf201-', 'cf202', 'cf207']
SPAN_CAP = 2 ** 62 - 2
COLS_PER_MESSAGE = 12
LOCALS = [1001, 1002, 12001, 63255, 48001]          # descriptors that 206YYY skips (known to Table B or not)


class WCase(P.Case):
    __slots__ = ('wspec',)


class Spec(object):
    """one (modifier, element) pair: how to build the ids around k probed columns and how to turn a raw field value into the
    model value of the element"""
    __slots__ = ('mod', 'e', 'pre', 'post', 'per', 'lead', 'w', 's', 'r', 'nb', 'kind', 'extra_w', 'marker', 'tag')

    def __init__(self, mod, e, w, s=0, r=0, nb=None, pre=(), post=(), per=None, lead=(), kind='n', extra_w=None, marker=False):
        self.mod, self.e, self.w, self.s, self.r = mod, e, w, s, r
        self.nb = w if nb is None else nb
        self.pre, self.post, self.per, self.lead, self.kind = list(pre), list(post), per, list(lead), kind
        self.extra_w = extra_w          # a further width whose powers of two are special (e.g. the width a wrongly applied operator gives)
        self.marker = marker
        self.tag = '%s:%06d:w%d' % (mod, e, w)

    def value(self, raw):
        if raw is None:
            return None
        if self.kind == 'n':
            return E.grid(raw, self.s, self.r)
        return raw


class WidthProbes(object):
    def __init__(self, rng, thorough=False):
        self.rng = rng
        self.thorough = thorough
        b, _ = tables_io.read_group(('0', '0_0', str(C.DEFAULT_VERSION)))
        self.b = b
        kind = tables_io.unit_kind

        def num(pred):
            return sorted(i for i, v in b.items() if kind(v[1]) == 'n' and i // 1000 not in (31, 33) and 2 <= int(v[4]) <= 24
                          and abs(int(v[2])) <= 6 and pred(int(v[2]), int(v[3])))
        self.plain_int = num(lambda s, r: s == 0 and r == 0)
        self.scaled = num(lambda s, r: s != 0 and r == 0)
        self.with_ref = num(lambda s, r: r != 0)
        self.codes = sorted(i for i, v in b.items() if kind(v[1]) == 'c' and i // 1000 not in (31, 33) and 2 <= int(v[4]) <= 16)
        self.strings = sorted(i for i, v in b.items() if kind(v[1]) == 's' and int(v[4]) % 8 == 0 and 16 <= int(v[4]) <= 160)

    # -- the modifiers ---------------------------------------------------------------------------------------------
    def spec(self, mod, e):
        rng, b = self.rng, self.b
        nb, sc, ref = (int(b[e][4]), int(b[e][2]), int(b[e][3])) if e in b else (0, 0, 0)

        def lim(s):
            return 64 if s == 0 else 44

        def widen(room):
            d = rng.choice([1, 1, 2, 8, rng.randint(1, max(room, 1)), room])
            return max(1, min(d, room, 127))
        if mod == 'none':
            return Spec(mod, e, nb, sc, ref)
        if mod == '201+':
            if lim(sc) - nb < 1:
                return None
            d = widen(lim(sc) - nb)
            return Spec(mod, e, nb + d, sc, ref, nb, [201128 + d], [201000])
        if mod == '201-':
            d = max(1, min(rng.choice([1, 2, nb - 1, rng.randint(1, nb - 1)]), nb - 1))
            return Spec(mod, e, nb - d, sc, ref, nb, [201128 - d], [201000])
        if mod == '202':
            d = rng.choice([1, 2, -1, -2, -sc if sc else 1])
            if d == 0:
                d = 1
            if sc + d != 0 and nb > 44:
                return None
            return Spec(mod, e, nb, sc + d, ref, nb, [202128 + d], [202000])
        if mod == '207':
            y = rng.randint(1, 3)
            w, s, r = E.eff_params(b, e, y207=y)
            if w > lim(s):
                return None
            return Spec(mod, e, w, s, r, nb, [207000 + y], [207000])
        if mod == '207-202':
            # 207YYY with a 202 that takes the scale change back: width and reference change, the scale does not
            y = rng.randint(1, 3)
            w, s, r = E.eff_params(b, e, y202=128 - y, y207=y)
            if w > lim(s):
                return None
            return Spec(mod, e, w, s, r, nb, [207000 + y, 202128 - y], [202000, 207000])
        if mod == '201+207':
            y = rng.randint(1, 2)
            w0, s, r = E.eff_params(b, e, y207=y)
            if lim(s) - w0 < 1:
                return None
            d = widen(lim(s) - w0)
            return Spec(mod, e, w0 + d, s, r, nb, [201128 + d, 207000 + y], [207000, 201000])
        if mod == '201+202':
            d2 = rng.choice([1, 2, -1])
            if 44 - nb < 1:
                return None
            d = widen((64 if sc + d2 == 0 else 44) - nb)
            return Spec(mod, e, nb + d, sc + d2, ref, nb, [201128 + d, 202128 + d2], [202000, 201000])
        if mod == '203':
            yb = rng.randint(2, 16)
            limr = (1 << (yb - 1)) - 1
            nr = rng.choice([0, 0, 1, -1, limr, -limr, rng.randint(-limr, limr)])
            return Spec(mod, e, nb, sc, nr, nb, [203000 + yb, e, 203255], [203000], lead=[nr])
        if mod == '225255':
            # difference statistics: the marker value of element e has one bit more and the reference value -2^nb
            if nb + 1 > lim(sc):
                return None
            return Spec(mod, e, nb + 1, sc, -(1 << nb), nb, marker=True)
        if mod == '204':
            # the associated field next to an element of nb bits: wider than the element (2^nb - 1 is then an ordinary value of it),
            # as wide, narrower
            y = max(1, min(rng.choice([nb + 1, nb + 1, nb + 2, nb + rng.randint(1, 8), nb, max(nb - 1, 1), 1, 2, 4, 8, 16]), 64))
            return Spec(mod, e, y, nb=y, pre=[204000 + y, 31021], post=[204000], lead=[rng.randint(0, 62)], kind='a', extra_w=nb)
        if mod == '206':
            lid = rng.choice(LOCALS)
            nl = int(b[lid][4]) if lid in b else 0
            y = max(1, min(rng.choice([1, 2, 5, 8, 13, 24, 33, 64] + ([nl + 1, nl + 1, nl + 2, nl + rng.randint(1, 8), nl + rng.randint(1, 8), nl, nl - 1] if nl > 1 else [])), 64))
            return Spec(mod, lid, y, nb=y, per=[206000 + y, lid], kind='u', extra_w=nl or None)
        if mod == '208':
            nbytes = nb // 8
            y = max(1, min(rng.choice([1, 2, nbytes - 1, nbytes + 1, 2 * nbytes, rng.randint(1, 40)]), 60))
            return Spec(mod, e, 8 * y, nb=nb, pre=[208000 + y], post=[208000], kind='s')
        if mod.startswith('cf'):
            # a code / flag element keeps its Table B width whatever 201 / 202 / 207 say
            op = mod[2:]
            if op == '201+':
                d = rng.choice([1, 2, 8, rng.randint(1, 20)])
                return Spec(mod, e, nb, pre=[201128 + d], post=[201000], kind='u', extra_w=nb + d)
            if op == '201-':
                d = rng.randint(1, nb - 1)
                return Spec(mod, e, nb, pre=[201128 - d], post=[201000], kind='u', extra_w=nb - d)
            if op == '202':
                d = rng.choice([1, 2, -1])
                return Spec(mod, e, nb, pre=[202128 + d], post=[202000], kind='u')
            y = rng.randint(1, 3)
            return Spec(mod, e, nb, pre=[207000 + y], post=[207000], kind='u', extra_w=nb + (10 * y + 2) // 3)
        raise AssertionError(mod)

    # -- special integers and column shapes ---------------------------------------------------------------------------
    def specials(self, sp):
        """raw field values 2^k - 1, 2^k and neighbours, k special for (Table B width, width in force), within 0 .. 2^w - 2"""
        rng = self.rng
        top = (1 << sp.w) - 2 if sp.w > 1 else 1
        ks = set(F.pow2_exponents(rng, sp.nb, sp.w, extra=self.thorough))
        if sp.extra_w:
            ks.update(F.pow2_exponents(rng, sp.extra_w, sp.w, extra=False))
        out = []
        for k in sorted(ks):
            for d in ([-2, -1, 0, 1] if self.thorough else [-1, 0, rng.choice([-2, 1])]):
                raw = (1 << k) + d
                if 0 <= raw <= top and raw not in out:
                    out.append(raw)
        if sp.kind in 'ua' and sp.w > 1:
            out.append((1 << sp.w) - 1)       # code / flag, associated, skipped fields may hold the all-ones value next to a smaller one
        return out

    def column(self, sp, v, shape, n):
        """-> raw column (None = missing) of n subsets that contains v, or None when the shape cannot hold it"""
        rng = self.rng
        w = sp.w
        ones = (1 << w) - 1
        top = ones - 1 if w > 1 else 1
        if v == ones and w > 1:
            # the all-ones value of a code / flag field: only next to a smaller present entry (min + increment)
            # (a column whose only present entries are the all-ones value is two spellings of "missing": not a conforming input)
            if shape not in ('vary-down', 'missing') or (shape == 'missing' and n < 3):
                return None
        if w == 1 and shape in ('missing', 'equal-missing'):
            return None

        def below():
            span = min(v, rng.choice([1, 2, 3, 1 << rng.randint(0, max(w - 1, 0)), v]), SPAN_CAP)
            return v - rng.randint(1, span) if span >= 1 else None

        def above():
            room = top - v
            span = min(room, rng.choice([1, 2, 3, 1 << rng.randint(0, max(w - 1, 0)), room]), SPAN_CAP)
            return v + rng.randint(1, span) if span >= 1 else None
        if shape == 'equal':
            return [v] * n
        if shape == 'equal-missing':
            col = [v] * n
            col[rng.randrange(n)] = None
            if all(x is None for x in col):
                return None
            return col
        if shape in ('vary-up', 'vary-down'):
            gen = above if shape == 'vary-up' else below
            col = [gen() for _ in range(n)]
            if any(x is None for x in col):
                return None
            col[rng.randrange(n)] = v
            if n > 1 and all(x == v for x in col):
                return None
            return col
        if shape == 'missing':
            if n < 2:
                return None
            gen = rng.choice([above, below]) if v != ones else below
            col = [gen() for _ in range(n)]
            if any(x is None for x in col):
                gen = below if gen is above else above
                col = [gen() for _ in range(n)]
                if any(x is None for x in col):
                    return None
            i = rng.randrange(n)
            col[i] = v
            col[(i + 1 + rng.randrange(n - 1)) % n] = None
            return col
        raise AssertionError(shape)

    # -- messages -----------------------------------------------------------------------------------------------------
    def build(self, sp, cols, n, idx, notes):
        """one message around the probed raw columns `cols` (each of n entries)"""
        rng = self.rng
        k = len(cols)
        ids, vcols = [], []
        if sp.marker:
            # e x k, 225000, a bitmap of k zero bits, 008024, one 225255 per element
            top_e = (1 << sp.nb) - 2
            ids = [sp.e] * k + [225000, 101000 + k, 31031, 8024, 101000 + k, 225255]
            sc, ref = int(self.b[sp.e][2]), int(self.b[sp.e][3])
            for _ in range(k):
                x = rng.randint(0, top_e)
                vcols.append([E.grid(x, sc, ref)] * n)
            vcols.append([0] * n)
            vcols += [[0] * n for _ in range(k)]
            vcols.append([rng.randint(2, 5)] * n)
            vcols += [[sp.value(x) for x in col] for col in cols]
        elif sp.kind == 'a':
            ids = sp.pre + [sp.e] * k + sp.post
            vcols.append([sp.lead[0]] * n)
            e = sp.e
            ek = tables_io.unit_kind(self.b[e][1])
            nb, sc, ref = int(self.b[e][4]), int(self.b[e][2]), int(self.b[e][3])
            for col in cols:
                vcols.append(list(col))
                tope = (1 << nb) - 2 if nb > 1 else 1
                raws = [rng.randint(0, tope) for _ in range(n)]
                vcols.append([E.grid(x, sc, ref) if ek == 'n' else x for x in raws])
        elif sp.per is not None:
            ids = sp.per * k
            vcols = [list(col) for col in cols]
        else:
            ids = sp.pre + [sp.e] * k + sp.post
            vcols = [[x] * n for x in sp.lead] + [[sp.value(x) for x in col] for col in cols]
        c = WCase([ids], [], n, True, rng.choice([4, 4, 4, 3]), idx)
        c.valss = [[col[s] for col in vcols] for s in range(n)]
        c.note = 'widths %s %s' % (sp.tag, ' '.join(notes))
        c.wspec = (sp, cols, notes)
        return c

    def cases_of(self, sp, idx0, str_column=None):
        """all the messages of one (modifier, element) pair"""
        rng = self.rng
        out = []
        n = rng.choice([2, 2, 3, 3, 4])
        if sp.kind == 's':
            cols, notes = [], []
            pats = set()
            for _ in range(60):
                p, col = str_column(rng, n, sp.w // 8)
                if p in pats:
                    continue
                pats.add(p)
                cols.append(col)
                notes.append('pattern:' + p)
            for i in range(0, len(cols), COLS_PER_MESSAGE):
                out.append(self.build(sp, cols[i:i + COLS_PER_MESSAGE], n, idx0 + len(out), notes[i:i + COLS_PER_MESSAGE]))
            return out
        cols, notes = [], []
        for v in self.specials(sp):
            shapes = SHAPES if self.thorough else ['equal', rng.choice(['vary-up', 'vary-down']), rng.choice(['missing', 'missing', 'equal-missing'])]
            if v == (1 << sp.w) - 1:
                shapes = ['vary-down', 'missing']
            for sh in shapes:
                col = self.column(sp, v, sh, n)
                if col is None and sh in ('vary-up', 'vary-down'):
                    sh = 'vary-down' if sh == 'vary-up' else 'vary-up'
                    col = self.column(sp, v, sh, n)
                if col is None:
                    continue
                cols.append(col)
                notes.append('shape:%s' % sh)
        for i in range(0, len(cols), COLS_PER_MESSAGE):
            out.append(self.build(sp, cols[i:i + COLS_PER_MESSAGE], n, idx0 + len(out), notes[i:i + COLS_PER_MESSAGE]))
        return out

    def pairs(self):
        """(modifier, element) pairs of one run: every modifier with elements of every arithmetic class"""
        rng = self.rng
        m = 3 if self.thorough else 1
        out = []
        for mod in NUMERIC_MODS:
            els = rng.sample(self.plain_int, 2 * m) + rng.sample(self.scaled, m) + rng.sample(self.with_ref, m)
            if mod == NUMERIC_MODS[1]:
                els = [1001, 4001] + els[2:]           # the elements the regulations' own examples widen
            out += [(mod, e) for e in els]
        for mod in CODE_MODS:
            out += [(mod, e) for e in rng.sample(self.codes, 2 * m)]
        out += [('204', e) for e in rng.sample(self.plain_int, m) + rng.sample(self.codes, m) + rng.sample(self.scaled, m)]
        out += [('206', 0)] * (3 * m)
        out += [('208', e) for e in rng.sample(self.strings, 2 * m)]
        return out

    def all_cases(self, str_column):
        out = []
        for mod, e in self.pairs():
            sp = None
            for _ in range(4):
                sp = self.spec(mod, e)
                if sp is not None:
                    break
            if sp is None:
                continue
            out += self.cases_of(sp, len(out), str_column)
        return out

    def single_columns(self, c):
        """the columns of a failing case one by one (for shrinking)"""
        sp, cols, notes = c.wspec
        return [self.build(sp, [col], c.n, c.idx, [nt]) for col, nt in zip(cols, notes)]
