"""Resolves a merge conflict in KNOWN_FINDINGS.json: union of the findings of both sides by id (ours first).
   python -m harness.merge_findings [old_hash=new_hash ...]   (also rewrites commit hashes, e.g. after a cherry-pick)"""
import json
import subprocess
import sys


def side(n):
    out = subprocess.run(['git', 'show', ':%d:KNOWN_FINDINGS.json' % n], stdout=subprocess.PIPE, text=True)
    return json.loads(out.stdout) if out.returncode == 0 else None


def main():
    ours, theirs = side(2), side(3)
    if ours is None:
        ours = json.load(open('KNOWN_FINDINGS.json'))
        theirs = {'findings': []}
    ids = {f['id'] for f in ours['findings']}
    for f in theirs['findings']:
        if f['id'] not in ids:
            ours['findings'].append(f)
    for a in sys.argv[1:]:
        old, new = a.split('=')
        for f in ours['findings']:
            if f.get('commit') == old:
                f['commit'] = new
                f['what'] = f['what'].replace(old, new)
    json.dump(ours, open('KNOWN_FINDINGS.json', 'w'), indent=1)


if __name__ == '__main__':
    main()
