"""Streams that contain table-definition messages (data category 11), scanned with filters — used by the C11, C12 and C20
checks (finding F25: a definition message the filter rejects must still be decoded in full, its definitions govern the
messages that follow; the table-definition branch must not run on a metadata-only decode).

Material: the pieces of `tests/data/prepbufr.bufr` (definition messages followed by the data messages they define) and
ordinary sample messages that decode with the stock tables.  A stream is an arrangement of a sub-selection of them
(definitions before the messages that need them, everything else in any order, definitions possibly repeated) with
signature-free separators, optionally a garbage piece that starts with the signature (continue-on-error only).

Oracle (implementation alone): for every filter, with U = the unfiltered scan of the same stream with the same flags (each
scan starts from a table cache without in-stream definitions): when U ends normally, the filtered scan ends normally too and
yields exactly the messages of U whose metadata satisfy the filter, in order, each with the bytes and the decoded values U
gives it; in every case no non-library exception leaves the filtered scan.
"""
import contextlib
import io
import os

from harness import core

FILTERS = [
    ('${%data_category} != 11', lambda c, n: c != 11),                       # rejects the definitions
    ('${%data_category} == 11', lambda c, n: c == 11),                       # accepts only the definitions
    ('${%data_category} == 999', lambda c, n: False),                        # rejects everything
    ('${%data_category} != 243', lambda c, n: c != 243),                     # rejects the defined data messages
    ('${%n_subsets} > 1', lambda c, n: n > 1),
    ('${%data_category} == 11 or ${%n_subsets} > 0', lambda c, n: c == 11 or n > 0),   # accepts everything
]

_POOL = {}


def pool():
    """(definition messages, messages defined by them, ordinary messages) as bytes"""
    if _POOL:
        return _POOL['v']
    from pybufrkit.decoder import Decoder, generate_bufr_message
    d = os.path.join(core.REPO, 'tests', 'data')
    with open(os.path.join(d, 'prepbufr.bufr'), 'rb') as f:
        s = f.read()
    defs, data = [], []
    with fresh_tables(), contextlib.redirect_stderr(io.StringIO()):
        for m in generate_bufr_message(Decoder(), s, info_only=True):
            (defs if (m.data_category.value == 11 and m.n_subsets.value > 0) else data).append(m.serialized_bytes)
    plain = []
    for name in ('207003.bufr', 'b005_89.bufr', 'jaso_214.bufr', 'contrived.bufr'):
        p = os.path.join(d, name)
        if os.path.exists(p):
            with open(p, 'rb') as f:
                b = f.read()
            i = b.find(b'BUFR')
            if i >= 0:
                plain.append(b[i:])
    _POOL['v'] = (defs, data, plain)
    return _POOL['v']


@contextlib.contextmanager
def fresh_tables():
    """the process-global table cache replaced by an empty one (no in-stream definitions) for the duration"""
    from pybufrkit import tables as T
    saved = T.TableGroupCacheManager._TABLE_GROUP_CACHE
    T.TableGroupCacheManager._TABLE_GROUP_CACHE = T.TableGroupCache()
    try:
        yield
    finally:
        T.TableGroupCacheManager._TABLE_GROUP_CACHE = saved


def scan(s, info_only, continue_on_error, filter_expr):
    """-> (items, outcome); item = (data_category, n_subsets, serialized_bytes hex, flat json text or None)"""
    from pybufrkit.decoder import Decoder, generate_bufr_message
    from pybufrkit.renderer import FlatJsonRenderer
    items, outcome = [], 'done'
    with fresh_tables(), contextlib.redirect_stderr(io.StringIO()):
        try:
            for m in generate_bufr_message(Decoder(), s, info_only=info_only, continue_on_error=continue_on_error,
                                           filter_expr=filter_expr):
                items.append([m.data_category.value, m.n_subsets.value, bytes(m.serialized_bytes).hex(),
                              None if info_only else repr(FlatJsonRenderer().render(m))])
                if len(items) > 200:
                    outcome = 'limit'
                    break
        except Exception as e:  # noqa
            outcome = core.err_tag(e)
    return items, outcome


def separator(rng):
    k = rng.choice((0, 0, 1, 3, 7))
    return bytes(rng.choice(b'\x00\r\n 7UFRB') for _ in range(k)).replace(b'BUFR', b'BUF ')


def build(rng, with_garbage):
    defs, data, plain = pool()
    parts = []      # (kind, bytes)
    chosen = [x for x in data if rng.random() < 0.45] or [rng.choice(data)]
    nplain = rng.choice((0, 1, 2))
    body = [('def', d) for d in defs]
    if rng.random() < 0.3:
        body.append(('def', rng.choice(defs)))          # a definition given again
    body += [('data', x) for x in chosen]
    # definitions first (in their order), then the defined messages; ordinary messages and garbage anywhere
    extra = [('plain', rng.choice(plain)) for _ in range(nplain)] if plain else []
    if with_garbage:
        extra.append(('garbage', b'BUFR' + bytes(rng.randrange(256) for _ in range(rng.choice((2, 9, 30)))).replace(b'BUFR', b'BUF ')))
    for e in extra:
        body.insert(rng.randrange(len(body) + 1), e)
    s = separator(rng)
    pieces = []
    for kind, b in body:
        pieces.append([kind, len(s), len(b)])
        s += b + separator(rng)
    return s, pieces


def judge(s, info_only, cont, expr, pred):
    """None, or a description of what is wrong"""
    u_items, u_out = scan(s, info_only, cont, None)
    f_items, f_out = scan(s, info_only, cont, expr)
    if f_out.startswith('err:') and not f_out.startswith('err:lib'):
        return 'a non-library exception left the filtered scan (%s after %d items; unfiltered: %s after %d items)' % (
            f_out, len(f_items), u_out, len(u_items))
    if u_out != 'done':
        return None
    want = [x for x in u_items if pred(x[0], x[1])]
    if f_out != 'done':
        return 'the filtered scan ended with %s after %d items; the unfiltered scan yields %d messages, %d satisfy the filter' % (
            f_out, len(f_items), len(u_items), len(want))
    if [x[2] for x in f_items] != [x[2] for x in want]:
        return 'the filtered scan yields %d messages, %d of the %d messages of the stream satisfy the filter' % (
            len(f_items), len(want), len(u_items))
    if f_items != want:
        k = [i for i, (a, b) in enumerate(zip(f_items, want)) if a != b][0]
        return 'message %d is decoded to other values under the filter than without it' % k
    return None


def run(ctx, rng, nstreams, cont_values=(False, True), garbage=False):
    """the generator + oracle; reports violations with kind 'defstream'"""
    defs, data, plain = pool()
    if not defs or not data:
        return
    for _ in range(nstreams):
        cont = rng.choice(cont_values)
        s, pieces = build(rng, garbage and cont)
        for info_only in (False, True):
            for expr, pred in ([rng.choice(FILTERS[:2])] + rng.sample(FILTERS, 2)):
                why = judge(s, info_only, cont, expr, pred)
                case = {'defstream': True, 'stream_hex': s.hex(), 'pieces': pieces, 'filter_expr': expr,
                        'info_only': info_only, 'continue_on_error': cont}
                ctx.case({'defstream': core.chash(case)}, nontrivial=True)
                ctx.count('defstream:%s:%s' % ('info' if info_only else 'full', expr))
                if why:
                    ctx.violation('oracle: stream with table definition messages, filter %s, %s%s: %s' % (
                        expr, 'info-only' if info_only else 'full', ', continue-on-error' if cont else '', why),
                        case, signature={'kind': 'defstream', 'info_only': info_only})


def replay(ctx, rep):
    s = bytes.fromhex(rep['stream_hex'])
    pred = dict(FILTERS)[rep['filter_expr']]
    u = scan(s, rep['info_only'], rep['continue_on_error'], None)
    f = scan(s, rep['info_only'], rep['continue_on_error'], rep['filter_expr'])
    print('replay: stream of', [(k, n) for k, _, n in rep['pieces']], 'filter', rep['filter_expr'],
          'info_only', rep['info_only'], 'continue_on_error', rep['continue_on_error'])
    print('        unfiltered:', u[1], [(c, n, len(b) // 2) for c, n, b, _ in u[0]])
    print('        filtered  :', f[1], [(c, n, len(b) // 2) for c, n, b, _ in f[0]])
    why = judge(s, rep['info_only'], rep['continue_on_error'], rep['filter_expr'], pred)
    if why:
        ctx.violation('oracle: stream with table definition messages: %s' % why, rep, signature={'kind': 'defstream'})
