"""
py2lean: translator from a restricted subset of Python (the self-contained pure parts of pybufrkit,
parsed with `ast` from `$VERIF_REPO or /repo`/pybufrkit) to Lean 4 definitions in
`lean/BufrModel/Gen/Py*.lean`.

Called from `core.regenerate()` on every check, so that the theorems `Cxx_src_*`
(`lean/BufrModel/Props/Cxx*Src.lean`: generated definition = hand-written model definition, for all
inputs) are re-checked by the Lean kernel against what the Python source says now.

  * Every construct handled is listed in `notes/Tie.md` (section "construct table") with its Lean
    rendering and the assumption it rests on.  A construct that is not in the table raises
    `Py2LeanUnsupported(file, line, what)`.
  * A failed translation never leaves stale output behind: the generated file of that source module
    is replaced by a file that carries the message and does not compile, so that every theorem file
    importing it breaks (`vcheck` reports a broken proof obligation: exit 1, `VIOLATION ...
    no-failing-input-found` unless the correspondence run finds a failing input).
  * Generated functions are total Lean functions: no `partial`, `unsafe`, `implemented_by`.  A `while`
    loop becomes a structural recursion on a fuel argument; running out of fuel is the explicit result
    `.error .outOfFuel`, so a theorem `f x = .ok y` also shows that the fuel sufficed.
  * Generated files import `BufrModel.Gen.PyPrelude` only (static, core Lean only).

Usage:  python -m harness.py2lean [--check]     (writes / verifies lean/BufrModel/Gen/Py*.lean)
"""
from __future__ import annotations

import ast
import hashlib
import os
import re
import string
import sys

VERIF = os.path.dirname(os.path.dirname(os.path.abspath(__file__)))
GEN_DIR = os.environ.get('PY2LEAN_OUT') or os.path.join(VERIF, 'lean', 'BufrModel', 'Gen')


def repo_root():
    return os.environ.get('VERIF_REPO', '/repo')


class Py2LeanUnsupported(Exception):
    def __init__(self, path, node, what):
        self.path = path
        self.line = getattr(node, 'lineno', node if isinstance(node, int) else 0)
        self.what = what
        Exception.__init__(self, '%s:%s: %s' % (path, self.line, what))


# =============================================================================================
# What is translated (the specification of the tie).  One generated file per Python module.
#   consts : module-level names (every module-level constant a translated function refers to is
#            added automatically)
#   funcs  : module-level functions: name -> {'params': {name: type}}
#   methods: (class, method) -> {'params': {...}}; `self.<attr>` types come from `attrs`
# Types: int, bool, str, bytes, obj, list[T], dict[K,V], tuple[T,..]
SPEC = [
    {'module': 'constants', 'file': 'pybufrkit/constants.py',
     'consts': ['NBITS_PER_BYTE', 'MESSAGE_START_SIGNATURE', 'MESSAGE_STOP_SIGNATURE',
                'NUMERIC_MISSING_VALUES', 'NBITS_FOR_NBITS_DIFF',
                'UNITS_STRING', 'UNITS_FLAG_TABLE', 'UNITS_CODE_TABLE', 'INDENT_CHARS']},
    {'module': 'tables', 'file': 'pybufrkit/tables.py',
     'consts': ['MAXIMUM_NUMBER_OF_CACHED_TABLE_GROUPS', 'DEFAULT_MASTER_TABLE_NUMBER',
                'DEFAULT_ORIGINATING_SUBCENTRE', 'DEFAULT_MASTER_TABLE_VERSION']},
    {'module': 'dataquery', 'file': 'pybufrkit/dataquery.py',
     'consts': ['PATH_SEPARATOR_CHILD', 'PATH_SEPARATOR_ATTRIB', 'PATH_SEPARATOR_DESCEND',
                'STATE_START_PARSING', 'STATE_START_SUBSET', 'STATE_START_SUBSET_SLICE_0',
                'STATE_START_SUBSET_SLICE_X', 'STATE_STOP_SUBSET_SLICE', 'STATE_START_ID',
                'STATE_START_SLICE_0', 'STATE_START_SLICE_X', 'STATE_STOP_SLICE'],
     # ---- C15: the whole NodePathParser (stateful classes: methods read AND assign self.<attr>) ----
     'namedtuples': {'PathComponent': {'fields': {'separator': 'opt[str]', 'id': 'opt[str]', 'slice': 'opt[intorslice]'}}},
     'classes': {
         'NodePath': {'stateful': True,
                      'attrs': {'path_string': 'str', 'subset_slice': 'opt[intorslice]', 'components': 'list[PathComponent]'},
                      'methods': {'__init__': {'params': {'path_string': 'str'}},
                                  'add_component': {'params': {'component': 'PathComponent'}}}},
         'NodePathParser': {'stateful': True,
                            'attrs': {'bare_id_matches_all': 'bool', 'pos': 'int', 'current_state': 'opt[str]',
                                      'current_token': 'opt[str]', 'current_id': 'opt[str]',
                                      'current_separator': 'opt[str]', 'current_slice_elements': 'list[opt[int]]',
                                      'node_path': 'NodePath'},
                            'methods': {'reset': {}, 'convert_slice_element': {}, 'convert_id': {},
                                        'create_slice_object': {'locals': {'slc_obj': 'opt[intorslice]'}},
                                        'add_new_path_component': {'locals': {'slc_obj': 'opt[intorslice]'}},
                                        'handle_left_bracket': {},
                                        'handle_colon_and_right_bracket': {'params': {'c': 'str'}},
                                        'handle_separator': {'params': {'c': 'str'}},
                                        'parse': {'params': {'path_expr': 'str'}}}},
     }},
    {'module': 'mdquery', 'file': 'pybufrkit/mdquery.py',
     'consts': ['METADATA_QUERY_INDICATOR_CHAR']},
    {'module': 'coder', 'file': 'pybufrkit/coder.py',
     'consts': ['BITMAP_NA', 'BITMAP_INDICATOR', 'BITMAP_WAITING_FOR_BIT', 'BITMAP_BIT_COUNTING',
                'QA_INFO_NA', 'QA_INFO_WAITING', 'QA_INFO_PROCESSING'],
     # (w5-codersrc) CoderState / Coder methods: specification in harness/py2lean_state.py STATE_SPECS['coder']
     'state': 'coder'},
    {'module': 'utils', 'file': 'pybufrkit/utils.py',
     'consts': ['TEXT_SECTION_HEADER', 'TEXT_SUBSET_HEADER'],
     'funcs': {'fixed_width_repr_of_int': {'params': {'value': 'int', 'width': 'int', 'pad_left': 'bool'}},
               'flatten_list': {'params': {'values': 'list[tree[obj]]'}, 'returns': 'list[obj]', 'recursive': True}}},
    {'module': 'descriptors', 'file': 'pybufrkit/descriptors.py',
     'classes': {
         'Descriptor': {'attrs': {'id': 'int'}, 'methods': {'F': {}, 'X': {}, 'Y': {}, '__str__': {}}},
         # (w5-smallsrc) the labels of the decoded descriptors
         'AssociatedDescriptor': {'attrs': {'id': 'int'}, 'methods': {'__str__': {}}},
         'SkippedLocalDescriptor': {'attrs': {'id': 'int'}, 'methods': {'__str__': {}}},
         'MarkerDescriptor': {'attrs': {'id': 'int', 'marker_id': 'int'}, 'methods': {'__str__': {'compiler': 'small'}}},
         'ReplicationDescriptor': {'attrs': {'id': 'int', 'members': 'list[obj]'},
                                   'methods': {'n_items': {}, 'n_members': {}}},
         'FixedReplicationDescriptor': {'attrs': {'id': 'int'}, 'methods': {'n_repeats': {}}},
         'OperatorDescriptor': {'attrs': {'id': 'int'}, 'methods': {'operator_code': {}, 'operand_value': {}}},
     }},
    # ---- C11 / C12: the stream scanner (flow function: generator, try/except, callbacks) ----
    {'module': 'decoder', 'file': 'pybufrkit/decoder.py',
     'consts': ['DATA_CATEGORY_DEFINE_BUFR_TABLES'],
     'records': {'Msg': {'fields': {'serialized_bytes': 'bytes', 'length.value': 'int', 'data_category.value': 'int',
                                    'n_subsets.value': 'int'}},
                 'Section': {'fields': {'section_length.value': 'int'}}},
     'flowfuncs': {
      # ---- C04 / C12: the end of Decoder.process_section (declared section length: padding skipped, overrun refused) ----
      'process_section_finish': {
         'class': 'Decoder', 'method': 'process_section', 'fragment_from': "if 'section_length' in section:",
         'params': {'bit_reader': 'obj', 'section': 'Section'},
         'ignored_params': ['self', 'bufr_message'],
         'returns': 'int',
         'contains': {'section': {'lean': 'section_contains', 'arg': 'str'}},
         'callbacks': {
             'bit_reader.get_pos': {'lean': 'bit_reader_get_pos', 'receiver': 'bit_reader', 'returns': 'int', 'args': []},
             'bit_reader.read_bin': {'lean': 'bit_reader_read_bin', 'receiver': 'bit_reader', 'updates_receiver': True,
                                     'returns': 'obj', 'args': [('pos', 'int')]},
             'section.get_metadata': {'lean': 'section_get_metadata', 'receiver': 'section', 'returns': 'int',
                                      'args': [('pos', 'str')]},
         }},
      'generate_bufr_message': {
         'params': {'s': 'bytes', 'info_only': 'bool', 'continue_on_error': 'bool', 'filter_expr': 'opt[str]'},
         'ignored_params': ['decoder', '*args', '**kwargs'],
         'locals': {'bufr_message': 'Msg', 'sr': 'opt[obj]'},
         'yields': 'Msg',
         'callbacks': {
             'decoder.process': {'lean': 'decoder_process', 'returns': 'Msg',
                                 'args': [('pos', 'bytes'), ('constkw', 'start_signature', None), ('kw', 'info_only', 'bool'),
                                          ('varargs',), ('kwargs',)]},
             'ScriptRunner': {'lean': 'ScriptRunner', 'returns': 'obj', 'args': [('pos', 'opt[str]'), ('constkw', 'mode', 'eval')]},
             'sr.run': {'lean': 'sr_run', 'receiver': 'sr', 'returns': 'bool', 'args': [('pos', 'Msg')]},
             'BufrTableDefinitionProcessor().process': {'lean': 'table_definition_process', 'returns': 'tuple[obj,obj,obj]',
                                                        'args': [('pos', 'Msg')]},
             'TableGroupCacheManager.invalidate': {'lean': 'table_cache_invalidate', 'returns': 'unit', 'args': []},
             'TableGroupCacheManager.add_extra_entries': {'lean': 'table_cache_add_extra_entries', 'returns': 'unit',
                                                          'args': [('pos', 'obj'), ('pos', 'obj')]},
         }}}},
    {'module': 'script', 'file': 'pybufrkit/script.py',
     'consts': ['STATE_IDLE', 'STATE_EMBEDDED_QUERY', 'STATE_SINGLE_QUOTE', 'STATE_DOUBLE_QUOTE', 'STATE_COMMENT',
                'DATA_VALUES_NEST_LEVEL_0', 'DATA_VALUES_NEST_LEVEL_1', 'DATA_VALUES_NEST_LEVEL_2',
                'DATA_VALUES_NEST_LEVEL_4'],
     'funcs': {'process_embedded_query_expr': {'params': {'input_string': 'str'}}}},
]

# ---- w5-smallsrc: small self-contained functions.  `'compiler': 'small'` selects the subclass
# harness/py2lean_small.py:SmallCompiler (constructs listed in notes/Tie.md, "Constructs added for the small
# functions"); `'locals'` declares, for a local variable that is re-bound to values of different types, its
# type slots in order (each slot is its own field of the record of locals; Lean type-checks the choice).
SPEC += [
    {'module': 'encoder', 'file': 'pybufrkit/encoder.py',
     'funcs': {'nbits_for_uint': {'params': {'x': 'int'}, 'compiler': 'small'}}},
]


def _spec_of(module):
    return [s for s in SPEC if s['module'] == module][0]


SPEC += [
    # bufr.py BufrMessage.subset: the index logic, as two fragments (the method as a whole walks section and
    # parameter objects and returns values of mixed types)
    {'module': 'bufr', 'file': 'pybufrkit/bufr.py',
     'fragments': {
         'subset_checks': {'class': 'BufrMessage', 'method': 'subset', 'stmts': [0, 3], 'result': 'n_subsets',
                           'params': {'subset_indices': 'list[int]'},
                           'subst': {'self.n_subsets.value': ('n_subsets_value', 'int')}},
         'subset_select': {'class': 'BufrMessage', 'method': 'subset', 'expr': 'ListComp',
                           'params': {'subset_indices': 'list[int]'},
                           'subst': {'parameter.value.decoded_values_all_subsets': ('rows', 'list[obj]')}},
     }},
]

# tables.py: the dispatch tests of template building (the function itself works on iterators and mutable
# descriptor objects: notes/Tie.md, "Not done")
_spec_of('tables')['fragments'] = {
    'build_is_sequence': {'func': '_descriptors_from_ids_iter', 'expr': 'Compare', 'of': (0, 3), 'params': {'id_': 'int'}},
    'build_is_operator': {'func': '_descriptors_from_ids_iter', 'expr': 'Compare', 'of': (1, 3), 'params': {'id_': 'int'}},
    'build_is_replication': {'func': '_descriptors_from_ids_iter', 'expr': 'Compare', 'of': (2, 3), 'params': {'id_': 'int'}},
    'replication_is_delayed': {'class': 'TableR', 'method': 'lookup', 'expr': 'Compare', 'params': {'id_': 'int'}},
}

_spec_of('descriptors')['tree_walk'] = {'func': 'flat_member_ids'}
_spec_of('descriptors')['queue_walk'] = {'class': 'BufrTemplate', 'method': 'original_descriptor_ids'}
_spec_of('tables')['iter_builder'] = {'func': '_descriptors_from_ids_iter'}
_spec_of('tables')['imports'] = ['BufrModel.Gen.PyDescriptors']

_spec_of('dataquery')['small_methods'] = {
    'NodePath': {'attrs': {'path_string': 'str', 'subset_slice': 'opt[intorslice]', 'components': 'list[PathComponent]'},
                 'methods': {'slice_to_str': {'params': {'slc': 'opt[intorslice]'}},
                             '__str__': {}}},
}

_spec_of('mdquery')['small_records'] = {
    'Parameter': {'doc': '`SectionParameter`: its name and its value (opaque)', 'fields': {'name': 'str', 'value': 'obj'}},
    'Section': {'doc': '`BufrSection`: `get_metadata(\'index\')` and the parameters in the order `__iter__` yields them',
                'fields': {'index': 'int', 'params': 'list[Parameter]'}, 'iter': 'params',
                'calls': {"get_metadata('index')": 'index'}},
    'Message': {'doc': '`BufrMessage`: the list `sections`', 'fields': {'sections': 'list[Section]'}},
}
_spec_of('mdquery').setdefault('classes', {}).update({
    'MetadataExprParser': {'attrs': {}, 'methods': {
        'parse': {'params': {'metadata_expr': 'str'}, 'compiler': 'small',
                  'locals': {'section_index': ['str', 'opt[int]']}}}},
    'MetadataQuerent': {'attrs': {}, 'methods': {
        'query': {'params': {'bufr_message': 'Message', 'metadata_expr': 'str'}, 'compiler': 'small',
                  'calls': {'self.metadata_expr_parser.parse': {
                      'lean': 'MetadataExprParser.parse {}', 'params': ['str'], 'returns': 'tuple[opt[int],str]', 'raises': True}}}}},
})

LEAN_KEYWORDS = set('''at from in do then else if fun end open instance structure where with match let have show by
theorem def example import namespace section variable universe class inductive mutual deriving for unless return
try catch finally macro syntax notation infix infixl infixr prefix postfix abbrev opaque axiom private protected
partial unsafe noncomputable export set_option attribute local scoped calc using suffices obtain nomatch nofun
Type Prop Sort'''.split())


def lean_ident(name):
    if name == '_':
        return 'underscore_'      # (w5-codersrc) the throw-away target of `a, _ = ...`
    return name + '_' if name in LEAN_KEYWORDS else name


# =============================================================================================
# types
INT, NAT, BOOL, STR, BYTES, OBJ = ('int',), ('nat',), ('bool',), ('str',), ('bytes',), ('obj',)
INTORSLICE, UNIT = ('intorslice',), ('unit',)
NAMED_KIND = {}     # name -> 'namedtuple' | 'class' (the named types of the module being translated)


class TV(object):
    """type variable of the local inference"""
    n = 0

    def __init__(self):
        TV.n += 1
        self.id = TV.n
        self.link = None


def prune(t):
    while isinstance(t, TV) and t.link is not None:
        t = t.link
    if isinstance(t, tuple) and len(t) > 1:
        return (t[0],) + tuple(prune(x) for x in t[1:])
    return t


def resolved(t):
    t = prune(t)
    if isinstance(t, TV):
        return False
    return all(resolved(x) for x in t[1:])


def parse_type(s):
    s = s.strip()
    if s in ('int', 'nat', 'bool', 'str', 'bytes', 'obj', 'intorslice', 'unit', 'exc'):
        return (s,)
    if re.match(r'[A-Z]\w*$', s):
        return ('named', s)      # a namedtuple or a stateful class declared in the same SPEC entry
    m = re.match(r'(list|dict|tuple|tree|opt)\[(.*)\]$', s)
    if not m:
        raise ValueError('bad type %r' % s)
    parts, depth, cur = [], 0, ''
    for ch in m.group(2):
        if ch == '[':
            depth += 1
        if ch == ']':
            depth -= 1
        if ch == ',' and depth == 0:
            parts.append(cur)
            cur = ''
        else:
            cur += ch
    parts.append(cur)
    return (m.group(1),) + tuple(parse_type(p) for p in parts)


# (w5-codersrc) kinds added by extensions (harness/py2lean_state.py): kind prefix -> renderer returning (text, atomic)
TYPE_EXT = {}
DEFAULT_EXT = {}


def lean_type(t, top=True):
    t = prune(t)
    k = t[0]
    if k.split(':')[0] in TYPE_EXT:
        r, atomic = TYPE_EXT[k.split(':')[0]](t)
        return r if (top or atomic) else '(' + r + ')'
    if k == 'int':
        return 'Int'
    if k == 'nat':
        return 'Nat'
    if k == 'bool':
        return 'Bool'
    if k == 'str':
        r = 'List Char'
    elif k == 'bytes':
        r = 'List UInt8'
    elif k == 'obj':
        return 'Py.Obj'
    elif k == 'intorslice':
        return 'Py.IntOrSlice'
    elif k == 'unit':
        return 'Unit'
    elif k == 'exc':
        return 'Py.Exc'
    elif k == 'named':
        return t[1] + '.Self' if NAMED_KIND.get(t[1]) == 'class' else t[1]
    elif k == 'opt':
        r = 'Option ' + lean_type(t[1], False)
    elif k == 'list':
        r = 'List ' + lean_type(t[1], False)
    elif k == 'tree':
        r = 'Py.Tree ' + lean_type(t[1], False)
    elif k == 'dict':
        r = 'List (%s × %s)' % (lean_type(t[1]), lean_type(t[2]))
    elif k == 'tuple':
        r = ' × '.join(lean_type(x, False) for x in t[1:])
    elif k == 'opt':      # `None` or a value of type T
        r = 'Option ' + lean_type(t[1], False)
    else:
        raise ValueError(t)
    return r if top else '(' + r + ')'


def default_value(t):
    t = prune(t)
    k = t[0]
    if k.split(':')[0] in DEFAULT_EXT and DEFAULT_EXT[k.split(':')[0]](t) is not None:
        return DEFAULT_EXT[k.split(':')[0]](t)
    if k in ('int', 'nat'):
        return '0'
    if k == 'bool':
        return 'false'
    if k in ('str', 'bytes', 'list', 'dict'):
        return '[]'
    if k == 'obj':
        return '{}'
    if k == 'tree':
        return '(.list [])'
    if k == 'opt':
        return 'none'
    if k == 'intorslice':
        return '(Py.IntOrSlice.int 0)'
    if k == 'unit':
        return '()'
    if k in ('named', 'exc'):
        return 'default'
    if k == 'tuple':
        return '(' + ', '.join(default_value(x) for x in t[1:]) + ')'
    raise ValueError(t)


def lean_char(ch):
    o = ord(ch)
    if ch == "'":
        return "'\\''"
    if ch == '\\':
        return "'\\\\'"
    if ch == '\n':
        return "'\\n'"
    if ch == '\t':
        return "'\\t'"
    if ch == '\r':
        return "'\\r'"
    if 32 <= o < 127:
        return "'%s'" % ch
    if 0xd800 <= o <= 0xdfff:
        raise ValueError('surrogate')
    return '(Char.ofNat 0x%x)' % o


def lean_str(s):
    if s == '':
        return '([] : List Char)'
    return '[' + ', '.join(lean_char(c) for c in s) + ']'


class Ex(object):
    """a compiled expression: Lean code, type, and whether the code has type `Except Py.Exc T`"""

    def __init__(self, code, ty, raises=False):
        self.code, self.ty, self.raises = code, ty, raises


def indent_rest(text, n):
    lines = text.split('\n')
    return '\n'.join([lines[0]] + [(' ' * n + l if l else l) for l in lines[1:]])


# =============================================================================================
class ModuleCtx(object):
    """one Python source module"""

    def __init__(self, relpath):
        self.relpath = relpath
        self.path = os.path.join(repo_root(), relpath)
        try:
            with open(self.path, 'rb') as f:
                data = f.read()
        except OSError as e:
            raise Py2LeanUnsupported(relpath, 0, 'cannot read source: %s' % e)
        self.blob = hashlib.sha1(b'blob %d\0' % len(data) + data).hexdigest()
        try:
            self.tree = ast.parse(data.decode('utf-8'), filename=relpath)
        except SyntaxError as e:
            raise Py2LeanUnsupported(relpath, e.lineno or 0, 'syntax error: %s' % e.msg)
        self.src_lines = data.decode('utf-8').split('\n')
        # module-level single assignments
        self.assigns = {}
        self.funcs = {}
        self.classes = {}
        self.globals_declared = set()
        for node in self.tree.body:
            if isinstance(node, ast.Assign):
                for t in node.targets:
                    for nm in self._target_names(t):
                        self.assigns.setdefault(nm, []).append(node)
            elif isinstance(node, (ast.AugAssign, ast.AnnAssign)):
                for nm in self._target_names(node.target):
                    self.assigns.setdefault(nm, []).append(node)
            elif isinstance(node, ast.FunctionDef):
                self.funcs.setdefault(node.name, []).append(node)
            elif isinstance(node, ast.ClassDef):
                self.classes.setdefault(node.name, []).append(node)
        for node in ast.walk(self.tree):
            if isinstance(node, ast.Global):
                self.globals_declared.update(node.names)
            # a nested re-binding of a module-level name through `del` / `import` is not looked for:
            # see the assumption "module constants are not re-bound at run time" in notes/Tie.md

    @staticmethod
    def _target_names(t):
        if isinstance(t, ast.Name):
            return [t.id]
        if isinstance(t, (ast.Tuple, ast.List)):
            out = []
            for e in t.elts:
                out += ModuleCtx._target_names(e)
            return out
        return []

    def const_node(self, name, at=0):
        nodes = self.assigns.get(name, [])
        if not nodes:
            raise Py2LeanUnsupported(self.relpath, at, 'module-level constant %s not found' % name)
        if len(nodes) != 1 or name in self.globals_declared or name in self.funcs or name in self.classes:
            raise Py2LeanUnsupported(self.relpath, nodes[0], 'module-level name %s is bound more than once' % name)
        node = nodes[0]
        if not (isinstance(node, ast.Assign) and len(node.targets) == 1 and isinstance(node.targets[0], ast.Name)):
            raise Py2LeanUnsupported(self.relpath, node, 'module-level binding of %s is not a plain assignment' % name)
        return node

    def src(self, node):
        a, b = node.lineno, getattr(node, 'end_lineno', node.lineno)
        seg = ast.get_source_segment('\n'.join(self.src_lines), node)
        return a, b, seg if seg is not None else '\n'.join(self.src_lines[a - 1:b])


# =============================================================================================
class ExprCompiler(object):
    """expressions; `names` maps a Python name to (lean code, type)"""

    def __init__(self, mod, gen):
        self.mod = mod
        self.gen = gen          # ModuleGen (for module constants referred to)
        self.names = {}
        self.self_attrs = None  # attribute name -> type, for methods
        self.tmp = 0

    def bad(self, node, what):
        raise Py2LeanUnsupported(self.mod.relpath, node, what)

    def fresh(self):
        self.tmp += 1
        return 't%d' % self.tmp

    # -- helpers ------------------------------------------------------------------------
    def unify(self, a, b, node):
        a, b = prune(a), prune(b)
        if isinstance(a, TV):
            if a is not b:
                a.link = INT if b == NAT else b
            return
        if isinstance(b, TV):
            b.link = INT if a == NAT else a
            return
        if a[0] in ('int', 'nat') and b[0] in ('int', 'nat'):
            return
        if a[0] != b[0] or len(a) != len(b):
            self.bad(node, 'type mismatch: %s vs %s' % (self.show(a), self.show(b)))
        for x, y in zip(a[1:], b[1:]):
            self.unify(x, y, node)

    @staticmethod
    def show(t):
        t = prune(t)
        if isinstance(t, TV):
            return '?%d' % t.id
        if len(t) == 1:
            return t[0]
        return '%s[%s]' % (t[0], ', '.join(ExprCompiler.show(x) for x in t[1:]))

    def kind(self, ex, node):
        t = prune(ex.ty)
        if isinstance(t, TV):
            self.bad(node, 'cannot infer the type of this expression')
        return t[0]

    def lift(self, parts, build, ty, result_raises=False):
        """combine sub-expressions left to right; binds the ones that may raise"""
        if not any(p.raises for p in parts):
            return Ex(build([p.code for p in parts]), ty, result_raises)
        binds, codes = [], []
        for p in parts:
            if p.raises:
                t = self.fresh()
                binds.append('let %s ← %s' % (t, p.code))
                codes.append(t)
            else:
                codes.append(p.code)
        body = build(codes)
        if not result_raises:
            body = 'pure %s' % body
        return Ex('(do ' + '; '.join(binds + [body]) + ')', ty, True)

    def to_int(self, ex):
        if prune(ex.ty) == NAT:
            if ex.raises:
                return self.lift([ex], lambda c: '(Int.ofNat %s)' % c[0], INT)
            return Ex('(Int.ofNat %s)' % ex.code, INT, False)
        return ex

    def coerce(self, ex, ty, node):
        """value of type ex.ty stored where `ty` is expected (containers and int variables hold Int)"""
        ty = prune(ty)
        if ty == INT and prune(ex.ty) == NAT:
            return self.to_int(ex)
        if ty == NAT and prune(ex.ty) == INT:
            self.bad(node, 'internal: int value for a nat variable')
        self.unify(ex.ty, ty, node)
        return ex

    def as_bool(self, ex, node):
        k = self.kind(ex, node)
        if k != 'bool':
            self.bad(node, 'truth value of a non-bool expression (%s)' % k)
        return ex

    # -- expressions --------------------------------------------------------------------
    def expr(self, e):
        m = getattr(self, 'e_' + type(e).__name__, None)
        if m is None:
            self.bad(e, 'expression construct %s is not in the table' % type(e).__name__)
        return m(e)

    def e_Constant(self, e):
        v = e.value
        if isinstance(v, bool):
            return Ex('true' if v else 'false', BOOL)
        if isinstance(v, int):
            if v >= 0:
                return Ex('(%d : Nat)' % v, NAT)
            return Ex('(%d : Int)' % v, INT)
        if isinstance(v, str):
            try:
                return Ex(lean_str(v), STR)
            except ValueError:
                self.bad(e, 'string literal with a surrogate code point')
        if isinstance(v, bytes):
            return Ex('([%s] : List UInt8)' % ', '.join(str(b) for b in v), BYTES)
        self.bad(e, 'literal %r is not in the table' % (v,))

    def e_Name(self, e):
        if e.id in self.names:
            code, ty = self.names[e.id]
            return Ex(code, ty)
        if e.id in ('True', 'False'):
            return Ex(e.id.lower(), BOOL)
        ty = self.gen.require_const(e.id, e)
        return Ex(lean_ident(e.id), ty)

    def e_Attribute(self, e):
        if isinstance(e.value, ast.Name) and e.value.id == 'self' and self.self_attrs is not None:
            if e.attr not in self.self_attrs:
                self.bad(e, 'attribute self.%s has no declared type in the translator specification' % e.attr)
            self.used_attrs.add(e.attr)
            return Ex('self.%s' % lean_ident(e.attr), self.self_attrs[e.attr])
        self.bad(e, 'attribute access is not in the table (only self.<attr> in methods)')

    def e_Tuple(self, e):
        parts = [self.expr(x) for x in e.elts]
        parts = [self.to_int(p) for p in parts]
        if len(parts) < 2:
            self.bad(e, 'tuple of fewer than two elements')
        return self.lift(parts, lambda c: '(' + ', '.join(c) + ')', ('tuple',) + tuple(p.ty for p in parts))

    def e_List(self, e):
        parts = [self.to_int(self.expr(x)) for x in e.elts]
        tv = TV()
        for p, x in zip(parts, e.elts):
            self.unify(p.ty, tv, x)
        return self.lift(parts, lambda c: '[' + ', '.join(c) + ']', ('list', tv))

    def e_Dict(self, e):
        if e.keys:
            # (w5-smallsrc) a dict display whose keys are pairwise distinct int / str literals: the list of pairs
            # in the order written (with equal keys the later entry would replace the earlier: rejected)
            if any(k is None for k in e.keys) or not all(
                    isinstance(k, ast.Constant) and isinstance(k.value, (int, str)) and not isinstance(k.value, bool) for k in e.keys):
                self.bad(e, 'dict display with ** or with keys that are not int / str literals')
            if len({(type(k.value).__name__, k.value) for k in e.keys}) != len(e.keys):
                self.bad(e, 'dict display with a repeated key')
            ks = [self.to_int(self.expr(k)) for k in e.keys]
            vs = [self.to_int(self.expr(v)) for v in e.values]
            kt, vt = TV(), TV()
            for k in ks:
                self.unify(k.ty, kt, e)
            for v in vs:
                self.unify(v.ty, vt, e)
            n = len(ks)
            return self.lift(ks + vs, lambda c: '[' + ', '.join('(%s, %s)' % (c[i], c[n + i]) for i in range(n)) + ']',
                             ('dict', kt, vt))
        return Ex('[]', ('dict', TV(), TV()))

    def e_UnaryOp(self, e):
        a = self.expr(e.operand)
        if isinstance(e.op, ast.Not):
            self.as_bool(a, e)
            return self.lift([a], lambda c: '(!%s)' % c[0], BOOL)
        if isinstance(e.op, ast.USub):
            if self.kind(a, e) not in ('int', 'nat'):
                self.bad(e, 'unary minus on a non-int')
            a = self.to_int(a)
            return self.lift([a], lambda c: '(-%s)' % c[0], INT)
        self.bad(e, 'unary operator %s' % type(e.op).__name__)

    def e_BinOp(self, e):
        return self.binop(e, self.expr(e.left), self.expr(e.right))

    def binop(self, e, a, b):
        ka, kb = self.kind(a, e.left), self.kind(b, e.right)
        op = type(e.op).__name__
        num = ('int', 'nat')
        if ka in num and kb in num:
            both_nat = ka == 'nat' and kb == 'nat'
            if op in ('Add', 'Mult'):
                sym = '+' if op == 'Add' else '*'
                if not both_nat:
                    a, b = self.to_int(a), self.to_int(b)
                return self.lift([a, b], lambda c: '(%s %s %s)' % (c[0], sym, c[1]), NAT if both_nat else INT)
            if op == 'Sub':
                a, b = self.to_int(a), self.to_int(b)
                return self.lift([a, b], lambda c: '(%s - %s)' % (c[0], c[1]), INT)
            if op in ('FloorDiv', 'Mod'):
                lit = isinstance(e.right, ast.Constant) and isinstance(e.right.value, int) and not isinstance(e.right.value, bool)
                if lit and e.right.value > 0:
                    if both_nat:
                        sym = '/' if op == 'FloorDiv' else '%'
                        return self.lift([a, b], lambda c: '(%s %s %s)' % (c[0], sym, c[1]), NAT)
                    fn = 'Int.fdiv' if op == 'FloorDiv' else 'Int.fmod'
                    a, b = self.to_int(a), self.to_int(b)
                    return self.lift([a, b], lambda c: '(%s %s %s)' % (fn, c[0], c[1]), INT)
                if lit and e.right.value < 0:
                    fn = 'Int.fdiv' if op == 'FloorDiv' else 'Int.fmod'
                    a, b = self.to_int(a), self.to_int(b)
                    return self.lift([a, b], lambda c: '(%s %s %s)' % (fn, c[0], c[1]), INT)
                fn = 'Py.floorDiv' if op == 'FloorDiv' else 'Py.floorMod'
                a, b = self.to_int(a), self.to_int(b)
                return self.lift([a, b], lambda c: '(%s %s %s)' % (fn, c[0], c[1]), INT, result_raises=True)
            if op == 'Pow':
                if kb != 'nat':
                    self.bad(e, '`**` with an exponent not known to be non-negative (float result possible)')
                return self.lift([a, b], lambda c: '(%s ^ %s)' % (c[0], c[1]), NAT if both_nat else INT)
            self.bad(e, 'arithmetic operator %s is not in the table' % op)
        if op == 'Add' and ka == kb and ka in ('str', 'bytes', 'list'):
            self.unify(a.ty, b.ty, e)
            return self.lift([a, b], lambda c: '(%s ++ %s)' % (c[0], c[1]), a.ty)
        if op == 'Mult' and ka in ('str', 'bytes', 'list') and kb in num:
            b = self.to_int(b)
            return self.lift([a, b], lambda c: '(Py.repeatSeq %s %s)' % (c[0], c[1]), a.ty)
        self.bad(e, 'operator %s on %s and %s is not in the table' % (op, ka, kb))

    def e_BoolOp(self, e):
        vals = [self.as_bool(self.expr(x), x) for x in e.values]
        is_and = isinstance(e.op, ast.And)
        acc = vals[-1]
        for x in reversed(vals[:-1]):
            if not acc.raises:
                sym = '&&' if is_and else '||'
                acc = self.lift([x, acc], lambda c, sym=sym: '(%s %s %s)' % (c[0], sym, c[1]), BOOL)
            else:
                # the right operand may raise: it is evaluated only when the left one does not decide
                if is_and:
                    build = lambda c, r=acc.code: '(if %s then %s else pure false)' % (c[0], r)
                else:
                    build = lambda c, r=acc.code: '(if %s then pure true else %s)' % (c[0], r)
                acc = self.lift([x], build, BOOL, result_raises=True)
        return acc

    def e_IfExp(self, e):
        c = self.as_bool(self.expr(e.test), e.test)
        a, b = self.expr(e.body), self.expr(e.orelse)
        if {prune(a.ty), prune(b.ty)} == {INT, NAT}:
            a, b = self.to_int(a), self.to_int(b)
        self.unify(a.ty, b.ty, e)
        if a.raises or b.raises:
            ac = a.code if a.raises else '(pure %s)' % a.code
            bc = b.code if b.raises else '(pure %s)' % b.code
            return self.lift([c], lambda k: '(if %s then %s else %s)' % (k[0], ac, bc), a.ty, result_raises=True)
        return self.lift([c], lambda k: '(if %s then %s else %s)' % (k[0], a.code, b.code), a.ty)

    def e_Compare(self, e):
        if len(e.ops) != 1:
            self.bad(e, 'chained comparison')
        a, b = self.expr(e.left), self.expr(e.comparators[0])
        op = type(e.ops[0]).__name__
        ka = self.kind(a, e.left)
        if op in ('Eq', 'NotEq'):
            kb = self.kind(b, e.comparators[0])
            if ka in ('int', 'nat') and kb in ('int', 'nat') and ka != kb:
                a, b = self.to_int(a), self.to_int(b)
            elif ka != kb:
                self.bad(e, 'equality between %s and %s' % (ka, kb))
            self.unify(a.ty, b.ty, e)
            fmt = '(decide (%s = %s))' if op == 'Eq' else '(!decide (%s = %s))'
            return self.lift([a, b], lambda c: fmt % (c[0], c[1]), BOOL)
        if op in ('Lt', 'LtE', 'Gt', 'GtE'):
            kb = self.kind(b, e.comparators[0])
            if ka not in ('int', 'nat') or kb not in ('int', 'nat'):
                self.bad(e, 'ordering comparison on %s and %s' % (ka, kb))
            if ka != kb:
                a, b = self.to_int(a), self.to_int(b)
            sym = {'Lt': '<', 'LtE': '≤', 'Gt': '>', 'GtE': '≥'}[op]
            return self.lift([a, b], lambda c: '(decide (%s %s %s))' % (c[0], sym, c[1]), BOOL)
        if op in ('In', 'NotIn'):
            neg = '!' if op == 'NotIn' else ''
            kb = self.kind(b, e.comparators[0])
            if kb == 'dict':
                tb = prune(b.ty)
                a = self.coerce(a, tb[1], e)
                return self.lift([b, a], lambda c: '(%sPy.dictContains %s %s)' % (neg, c[0], c[1]), BOOL)
            if kb == 'tuple' and isinstance(e.comparators[0], ast.Tuple):
                alts = [self.expr(x) for x in e.comparators[0].elts]
                if {prune(x.ty) for x in alts + [a]} == {INT, NAT}:
                    # (w5-codersrc) an int compared with literals: everything in Int
                    a, alts = self.to_int(a), [self.to_int(x) for x in alts]
                for x in alts:
                    self.unify(a.ty, x.ty, e)
                return self.lift([a] + alts, lambda c: '(%s(%s))' % (neg, ' || '.join(
                    'decide (%s = %s)' % (c[0], y) for y in c[1:])), BOOL)
            if kb == 'list':
                tb = prune(b.ty)
                a = self.coerce(a, tb[1], e)
                return self.lift([b, a], lambda c: '(%sdecide (%s ∈ %s))' % (neg, c[1], c[0]), BOOL)
            self.bad(e, '`in` on a %s' % kb)
        self.bad(e, 'comparison %s' % op)

    def e_Subscript(self, e):
        if isinstance(e.slice, ast.Slice):
            self.bad(e, 'slicing is not in the table')
        return self.subscript(e, self.expr(e.value), self.expr(e.slice))

    def subscript(self, e, a, i):
        ka = self.kind(a, e.value)
        if ka == 'dict':
            ta = prune(a.ty)
            i = self.coerce(i, ta[1], e)
            return self.lift([a, i], lambda c: '(Py.dictGetItem %s %s)' % (c[0], c[1]), ta[2], result_raises=True)
        ki = self.kind(i, e.slice)
        if ki not in ('int', 'nat'):
            self.bad(e, 'index of type %s' % ki)
        suffix = 'Nat' if ki == 'nat' else ''
        if ka == 'str':
            return self.lift([a, i], lambda c: '(Py.strGetItem%s %s %s)' % (suffix, c[0], c[1]), STR, result_raises=True)
        if ka == 'list':
            return self.lift([a, i], lambda c: '(Py.getItem%s %s %s)' % (suffix, c[0], c[1]), prune(a.ty)[1], result_raises=True)
        self.bad(e, 'subscript on a %s' % ka)

    def e_ListComp(self, e):
        if len(e.generators) != 1:
            self.bad(e, 'comprehension with several generators')
        g = e.generators[0]
        if g.ifs or g.is_async or not isinstance(g.target, ast.Name):
            self.bad(e, 'comprehension with a filter or a non-name target')
        var = g.target.id
        it = g.iter
        if isinstance(it, ast.Call) and isinstance(it.func, ast.Name) and it.func.id == 'range' and 'range' not in self.names:
            if len(it.args) != 1 or it.keywords:
                self.bad(e, 'range() with other than one argument')
            n = self.expr(it.args[0])
            if self.kind(n, it) != 'nat':
                self.bad(e, 'range(n) with n not known to be non-negative')
            src, vty = n, NAT
            mk = lambda c: '(List.range %s)' % c
        else:
            src = self.expr(it)
            if self.kind(src, it) != 'list':
                self.bad(e, 'comprehension over a %s' % self.kind(src, it))
            vty = prune(src.ty)[1]
            mk = lambda c: c
        saved = self.names.get(var)
        lv = lean_ident(var)
        self.names[var] = (lv, vty)
        try:
            body = self.to_int(self.expr(e.elt))
        finally:
            if saved is None:
                del self.names[var]
            else:
                self.names[var] = saved
        if body.raises:
            self.bad(e, 'comprehension whose element expression may raise')
        return self.lift([src], lambda c: '(List.map (fun %s => %s) %s)' % (lv, body.code, mk(c[0])), ('list', body.ty))

    def e_Call(self, e):
        f = e.func
        if isinstance(f, ast.Name) and f.id not in self.names:
            if f.id == 'len' and len(e.args) == 1 and not e.keywords:
                a = self.expr(e.args[0])
                if self.kind(a, e) not in ('str', 'bytes', 'list', 'dict'):
                    self.bad(e, 'len() of a %s' % self.kind(a, e))
                return self.lift([a], lambda c: '(List.length %s)' % c[0], NAT)
            if f.id == 'str' and len(e.args) == 1 and not e.keywords:
                a = self.expr(e.args[0])
                k = self.kind(a, e)
                if k == 'nat':
                    return self.lift([a], lambda c: '(Py.strOfNat %s)' % c[0], STR)
                if k == 'int':
                    return self.lift([a], lambda c: '(Py.strOfInt %s)' % c[0], STR)
                if k == 'str':
                    return a
                self.bad(e, 'str() of a %s' % k)
            if getattr(self, 'recursive', False) and f.id == self.node.name and not e.keywords:
                # a call of the function being translated: one unit of fuel less
                if len(e.args) != len(self.params):
                    self.bad(e, 'recursive call with a different number of arguments')
                args = [self.coerce(self.to_int(self.expr(a)), t, e) for a, t in zip(e.args, self.params.values())]
                return self.lift(args, lambda c: '(%s fuel %s)' % (self.lean_name, ' '.join(c)), self.ret_type, result_raises=True)
            self.bad(e, 'call of %s is not in the table' % f.id)
        if isinstance(f, ast.Attribute):
            if f.attr == 'format' and isinstance(f.value, ast.Constant) and isinstance(f.value.value, str):
                return self.format_call(e, f.value.value)
            recv = self.expr(f.value)
            k = self.kind(recv, f.value)
            if k == 'str' and f.attr == 'join' and len(e.args) == 1 and not e.keywords:
                xs = self.expr(e.args[0])
                self.unify(xs.ty, ('list', STR), e)
                return self.lift([recv, xs], lambda c: '(Py.join %s %s)' % (c[0], c[1]), STR)
            if k == 'str' and f.attr in ('strip', 'lstrip', 'rstrip') and not e.args and not e.keywords:
                return self.lift([recv], lambda c: '(Py.%s %s)' % (f.attr, c[0]), STR)
            self.bad(e, 'method call .%s on a %s is not in the table' % (f.attr, k))
        self.bad(e, 'call form is not in the table')

    def format_call(self, e, fmt):
        """'literal {} {:06d}'.format(a, b): expanded at translation time"""
        if any(isinstance(a, ast.Starred) for a in e.args) or any(k.arg is None for k in e.keywords):
            self.bad(e, 'format() with * or ** arguments')
        args = [self.expr(a) for a in e.args]
        kwargs = {k.arg: self.expr(k.value) for k in e.keywords}
        pieces = []   # Ex of type str
        auto = 0
        try:
            parsed = list(string.Formatter().parse(fmt))
        except ValueError as err:
            self.bad(e, 'format string: %s' % err)
        for lit, field, spec, conv in parsed:
            if lit:
                pieces.append(Ex(lean_str(lit), STR))
            if field is None:
                continue
            if conv is not None:
                self.bad(e, 'format conversion !%s' % conv)
            if field == '':
                idx = auto
                auto += 1
                if idx >= len(args):
                    self.bad(e, 'format(): not enough arguments')
                a = args[idx]
            elif field.isdigit():
                if int(field) >= len(args):
                    self.bad(e, 'format(): not enough arguments')
                a = args[int(field)]
            elif field in kwargs:
                a = kwargs[field]
            else:
                self.bad(e, 'format field {%s}' % field)
            k = self.kind(a, e)
            if spec == '':
                if k == 'nat':
                    pieces.append(self.lift([a], lambda c: '(Py.strOfNat %s)' % c[0], STR))
                elif k == 'int':
                    pieces.append(self.lift([a], lambda c: '(Py.strOfInt %s)' % c[0], STR))
                elif k == 'str':
                    pieces.append(a)
                else:
                    self.bad(e, 'format of a %s' % k)
                continue
            m = re.match(r'0(\d+)d$', spec)
            if m and k in ('int', 'nat'):
                a = self.to_int(a)
                w = int(m.group(1))
                pieces.append(self.lift([a], lambda c, w=w: '(Py.formatIntZero %d %s)' % (w, c[0]), STR))
                continue
            m = re.match(r'>?(\d+)d$', spec)
            if m and k in ('int', 'nat') and not m.group(1).startswith('0'):
                a = self.to_int(a)
                w = int(m.group(1))
                pieces.append(self.lift([a], lambda c, w=w: '(Py.formatIntRight %d %s)' % (w, c[0]), STR))
                continue
            m = re.match(r'\{(\w+)\}\{(\w+)\}d$', spec)
            if m and k in ('int', 'nat'):
                # '{:{align}{width}d}': the format specification is assembled at run time as
                # align + str(width) + 'd'
                for nm in m.groups():
                    if nm not in kwargs:
                        self.bad(e, 'nested format field {%s}' % nm)
                al, wd = kwargs[m.group(1)], kwargs[m.group(2)]
                if self.kind(al, e) != 'str' or self.kind(wd, e) not in ('int', 'nat'):
                    self.bad(e, 'nested format fields of unexpected types')
                a, wd = self.to_int(a), self.to_int(wd)
                pieces.append(self.lift([a, al, wd], lambda c: '(Py.formatIntAlign %s %s %s)' % (c[1], c[2], c[0]),
                                        STR, result_raises=True))
                continue
            self.bad(e, 'format specification %r is not in the table' % spec)
        if not pieces:
            return Ex(lean_str(''), STR)
        if len(pieces) == 1:
            return pieces[0]
        return self.lift(pieces, lambda c: '(' + ' ++ '.join(c) + ')', STR)


# =============================================================================================
class FuncCompiler(ExprCompiler):
    """one function: statements over a record of the local variables"""

    def __init__(self, mod, gen, node, lean_name, params, self_attrs=None, returns=None, recursive=False):
        ExprCompiler.__init__(self, mod, gen)
        self.returns = returns
        self.recursive = recursive
        self.node = node
        self.lean_name = lean_name
        self.params = params            # ordered: name -> type (without self)
        self.self_attrs = self_attrs
        self.used_attrs = set()
        self.aux = []                   # auxiliary definitions (loops), in order
        self.local_types = {}
        self.nat_locals = set()
        self.assign_natness = {}
        self.ret_type = returns if returns is not None else TV()
        self.may_raise = False

    # -- collecting the locals --------------------------------------------------------------
    def collect_locals(self):
        names = []
        for n in ast.walk(self.node):
            if n is not self.node and isinstance(n, (ast.FunctionDef, ast.Lambda, ast.ClassDef, ast.AsyncFunctionDef)):
                self.bad(n, 'nested function / lambda / class')
            if isinstance(n, (ast.Global, ast.Nonlocal)):
                self.bad(n, 'global / nonlocal')
            if isinstance(n, ast.Name) and isinstance(n.ctx, (ast.Store, ast.Del)):
                if n.id not in names and n.id not in self.params:
                    names.append(n.id)
            if isinstance(n, ast.ListComp):
                for g in n.generators:
                    for t in ast.walk(g.target):
                        if isinstance(t, ast.Name) and t.id in names:
                            names.remove(t.id)
        # comprehension targets are scoped to the comprehension; a name that is both is rejected
        comp_targets = set()
        for n in ast.walk(self.node):
            if isinstance(n, ast.ListComp):
                for g in n.generators:
                    comp_targets.update(t.id for t in ast.walk(g.target) if isinstance(t, ast.Name))
        for n in ast.walk(self.node):
            if isinstance(n, ast.Name) and isinstance(n.ctx, ast.Store) and n.id in comp_targets:
                inside = False
                for c in ast.walk(self.node):
                    if isinstance(c, ast.ListComp) and any(n is t for g in c.generators for t in ast.walk(g.target)):
                        inside = True
                if not inside:
                    self.bad(n, 'name %s is both a local variable and a comprehension target' % n.id)
        return names

    # -- definite assignment ------------------------------------------------------------------
    def reads(self, e, bound=()):
        out = []
        if isinstance(e, ast.ListComp):
            inner = set(bound)
            for g in e.generators:
                out += self.reads(g.iter, inner)
                inner |= {t.id for t in ast.walk(g.target) if isinstance(t, ast.Name)}
            out += self.reads(e.elt, inner)
            return out
        if isinstance(e, ast.Name):
            if isinstance(e.ctx, ast.Load) and e.id not in bound:
                out.append(e)
            return out
        for c in ast.iter_child_nodes(e):
            out += self.reads(c, bound)
        return out

    def check_reads(self, e, assigned):
        for n in self.reads(e):
            if (n.id in self.local_types or n.id in self.params) and n.id not in assigned:
                self.bad(n, 'local variable %s may be read before it is assigned' % n.id)

    def definite(self, stmts, assigned):
        """forward analysis on the structured code; returns the set definitely assigned after `stmts`"""
        assigned = set(assigned)
        for s in stmts:
            if isinstance(s, ast.Assign):
                self.check_reads(s.value, assigned)
                for t in s.targets:
                    for t1 in (t.elts if isinstance(t, ast.Tuple) else [t]):
                        if isinstance(t1, ast.Name):
                            assigned.add(t1.id)
                        else:
                            self.check_reads(t1, assigned)
            elif isinstance(s, ast.AugAssign):
                self.check_reads(s.value, assigned)
                if isinstance(s.target, ast.Name):
                    if s.target.id not in assigned:
                        self.bad(s, 'local variable %s may be read before it is assigned' % s.target.id)
                else:
                    self.check_reads(s.target, assigned)
            elif isinstance(s, ast.If):
                self.check_reads(s.test, assigned)
                a = self.definite(s.body, assigned)
                b = self.definite(s.orelse, assigned)
                assigned = a & b
            elif isinstance(s, ast.While):
                self.check_reads(s.test, assigned)
                self.definite(s.body, assigned)
            elif isinstance(s, ast.For):
                self.check_reads(s.iter, assigned)
                if isinstance(s.target, ast.Name):
                    self.definite(s.body, assigned | {s.target.id})
            elif isinstance(s, (ast.Expr, ast.Return, ast.Raise)):
                for c in ast.iter_child_nodes(s):
                    self.check_reads(c, assigned)
                if isinstance(s, (ast.Return, ast.Raise)):
                    # nothing after it is reached on this path
                    return set(self.local_types) | set(self.params)
            elif isinstance(s, ast.Pass):
                pass
            else:
                assigned = self.definite_other(s, assigned)
        return assigned

    def definite_other(self, s, assigned):
        self.bad(s, 'statement construct %s is not in the table' % type(s).__name__)

    allow_attr_store = False

    def initial_local_type(self, name):
        return TV()

    # -- statements ---------------------------------------------------------------------------
    # a compiled statement / block is (text, raises): a Lean term of type Locals (raises = False) or
    # Except Py.Exc Locals (raises = True), with `v : Locals` in scope
    def set_local(self, name, ex, node):
        if name not in self.local_types and name not in self.params:
            self.bad(node, 'internal: unknown local %s' % name)
        ty = self.local_types.get(name, self.params.get(name))
        tyr = prune(ty)
        if tyr in (INT, NAT) or isinstance(tyr, TV):
            isnat = prune(ex.ty) == NAT
            self.assign_natness.setdefault(name, []).append(isnat)
        if tyr == INT and name in self.nat_locals:
            target = NAT
        else:
            target = ty
        ex = self.coerce(ex, target, node)
        fld = lean_ident(name)
        if ex.raises:
            t = self.fresh()
            return '(do let %s ← %s; pure { v with %s := %s })' % (t, ex.code, fld, t), True
        return '{ v with %s := %s }' % (fld, ex.code), False

    def local_ex(self, name):
        code, ty = self.names[name]
        return Ex(code, ty)

    def stmt(self, s):
        if isinstance(s, ast.Assign):
            if len(s.targets) == 1 and isinstance(s.targets[0], ast.Name):
                return self.set_local(s.targets[0].id, self.typed_value(s.value, s.targets[0].id), s)
            if all(isinstance(t, ast.Name) for t in s.targets):
                # a = b = e : e is evaluated once, then assigned left to right
                first = s.targets[0].id
                items = [self.set_local(first, self.typed_value(s.value, first), s)]
                for t in s.targets[1:]:
                    items.append(self.set_local(t.id, self.local_ex(first), s))
                return self.seq(items)
            if len(s.targets) == 1 and isinstance(s.targets[0], ast.Subscript):
                t = s.targets[0]
                if isinstance(t.value, ast.Name) and t.value.id in self.names and not isinstance(t.slice, ast.Slice):
                    d = self.expr(t.value)
                    if self.kind(d, t) == 'dict':
                        td = prune(d.ty)
                        # Python evaluates the right-hand side first, then the key
                        val = self.coerce(self.to_int(self.expr(s.value)), td[2], s)
                        key = self.coerce(self.to_int(self.expr(t.slice)), td[1], s)
                        ex = self.lift([val, key], lambda c: '(Py.dictSetItem %s %s %s)' % (d.code, c[1], c[0]), d.ty)
                        return self.set_local(t.value.id, ex, s)
                self.bad(s, 'subscript assignment other than local_dict[key] = value')
            self.bad(s, 'assignment target is not in the table')
        if isinstance(s, ast.AugAssign):
            if not isinstance(s.target, ast.Name):
                self.bad(s, 'augmented assignment to a non-name')
            fake = ast.BinOp(left=ast.Name(id=s.target.id, ctx=ast.Load()), op=s.op, right=s.value)
            ast.copy_location(fake, s)
            ast.copy_location(fake.left, s)
            # `xs += ys` on a list mutates in place; by-value modelling is the same unless aliased
            return self.set_local(s.target.id, self.expr(fake), s)
        if isinstance(s, ast.Expr):
            if isinstance(s.value, ast.Constant) and isinstance(s.value.value, str):
                return 'v', False    # docstring
            c = s.value
            if (isinstance(c, ast.Call) and isinstance(c.func, ast.Attribute) and c.func.attr == 'append'
                    and isinstance(c.func.value, ast.Name) and c.func.value.id in self.names
                    and len(c.args) == 1 and not c.keywords):
                lst = self.expr(c.func.value)
                tv = TV()
                self.unify(lst.ty, ('list', tv), s)
                item = self.coerce(self.to_int(self.expr(c.args[0])), tv, s)
                ex = self.lift([item], lambda k: '(%s ++ [%s])' % (lst.code, k[0]), lst.ty)
                return self.set_local(c.func.value.id, ex, s)
            self.bad(s, 'expression statement is not in the table (only local_list.append(x))')
        if isinstance(s, ast.Pass):
            return 'v', False
        if isinstance(s, ast.If) and self.is_isinstance_list(s.test):
            return self.isinstance_if(s)
        if isinstance(s, ast.For):
            return self.for_loop(s)
        if isinstance(s, ast.If):
            c = self.as_bool(self.expr(s.test), s.test)
            a, ar = self.block(s.body)
            b, br = self.block(s.orelse) if s.orelse else ('v', False)
            if ar or br:
                if not ar:
                    a = '(pure %s)' % a
                if not br:
                    b = '(pure %s)' % b
            body = lambda k: '(if %s then\n    %s\n  else\n    %s)' % (k, indent_rest(a, 4), indent_rest(b, 4))
            if c.raises:
                t = self.fresh()
                return '(do\n  let %s ← %s\n  %s)' % (t, c.code, indent_rest(
                    body(t) if (ar or br) else 'pure ' + body(t), 2)), True
            return body(c.code), (ar or br)
        if isinstance(s, ast.While):
            return self.while_loop(s)
        if isinstance(s, ast.Raise):
            return self.raise_stmt(s), True
        if isinstance(s, ast.Return):
            self.bad(s, '`return` that is not in tail position')
        self.bad(s, 'statement construct %s is not in the table' % type(s).__name__)

    def is_isinstance_list(self, t):
        return (isinstance(t, ast.Call) and isinstance(t.func, ast.Name) and t.func.id == 'isinstance'
                and 'isinstance' not in self.names and len(t.args) == 2 and not t.keywords
                and isinstance(t.args[0], ast.Name) and t.args[0].id in self.names
                and isinstance(t.args[1], ast.Name) and t.args[1].id == 'list' and 'list' not in self.names)

    def stores(self, stmts):
        out = set()
        for st in stmts:
            for n in ast.walk(st):
                if isinstance(n, ast.Name) and isinstance(n.ctx, (ast.Store, ast.Del)):
                    out.add(n.id)
                if (isinstance(n, ast.Call) and isinstance(n.func, ast.Attribute) and isinstance(n.func.value, ast.Name)):
                    out.add(n.func.value.id)      # x.append(..) and any other method call on a local
                if isinstance(n, ast.Subscript) and isinstance(n.ctx, ast.Store) and isinstance(n.value, ast.Name):
                    out.add(n.value.id)
        return out

    def isinstance_if(self, s):
        """`if isinstance(x, list): A else: B` on a local of type tree[T]: a match that narrows x in both branches"""
        nm = s.test.args[0].id
        ex = self.expr(s.test.args[0])
        t = prune(ex.ty)
        if isinstance(t, TV) or t[0] != 'tree':
            self.bad(s, 'isinstance(x, list) on a value that is not of the list-or-leaf type')
        if nm in self.stores(s.body) | self.stores(s.orelse):
            self.bad(s, 'assignment to %s inside the isinstance branches' % nm)
        saved = self.names[nm]
        ln = lean_ident(nm)
        try:
            self.names[nm] = ('%s_list' % ln, ('list', t))
            a, ar = self.block(s.body)
            self.names[nm] = ('%s_leaf' % ln, t[1])
            b, br = self.block(s.orelse) if s.orelse else ('v', False)
        finally:
            self.names[nm] = saved
        if ar or br:
            if not ar:
                a = '(pure %s)' % a
            if not br:
                b = '(pure %s)' % b
        text = '(match %s with\n  | .list %s_list =>\n    %s\n  | .leaf %s_leaf =>\n    %s)' % (
            ex.code, ln, indent_rest(a, 4), ln, indent_rest(b, 4))
        return text, (ar or br)

    def for_loop(self, s):
        """`for x in xs: body` -> Py.forIn xs v (fun x v => body): the list is evaluated once, by value"""
        if s.orelse:
            self.bad(s, 'for ... else')
        for n in ast.walk(s):
            if isinstance(n, (ast.Break, ast.Continue)):
                self.bad(n, 'break / continue')
            if isinstance(n, ast.Return):
                self.bad(n, '`return` inside a loop')
        if not isinstance(s.target, ast.Name):
            self.bad(s, 'for loop with a non-name target')
        it = self.expr(s.iter)
        if it.raises:
            self.bad(s, 'for loop over an expression that may raise')
        ti = prune(it.ty)
        if isinstance(ti, TV) or ti[0] != 'list':
            self.bad(s, 'for loop over something that is not a list')
        used = {n.id for n in ast.walk(s.iter) if isinstance(n, ast.Name)}
        clash = used & (self.stores(s.body) | {s.target.id})
        if clash:
            self.bad(s, 'for loop whose body changes the list it iterates over (%s)' % ', '.join(sorted(clash)))
        self.tmp += 1
        x = 'x%d' % self.tmp
        first = self.set_local(s.target.id, Ex(x, ti[1]), s)
        body, braises = self.seq([first] + [self.stmt(b) for b in s.body])
        fn = 'Py.forIn' if braises else 'Py.forInPure'
        text = '(%s %s v (fun (%s : %s) (v : Locals) =>\n    %s))' % (fn, it.code, x, lean_type(ti[1]), indent_rest(body, 4))
        return text, braises

    def raise_stmt(self, s):
        if s.cause is not None or s.exc is None:
            self.bad(s, 'bare raise / raise from')
        exc = s.exc
        name = None
        if isinstance(exc, ast.Call) and isinstance(exc.func, ast.Name):
            name = exc.func.id
        elif isinstance(exc, ast.Name):
            name = exc.id
        if name is None:
            self.bad(s, 'raise of something that is not ClassName(...)')
        self.may_raise = True
        return '(Except.error (Py.Exc.raised "%s"))' % name

    def typed_value(self, e, target):
        return self.to_int_if_container(self.expr(e))

    def to_int_if_container(self, ex):
        return ex

    def seq(self, items):
        """items: [(text, raises)] -> one term"""
        items = [(t, r) for t, r in items if not (t == 'v' and not r)]
        if not items:
            return 'v', False
        if len(items) == 1:
            return items[0]
        if not any(r for _, r in items):
            lines = ['(let v : Locals := %s' % indent_rest(items[0][0], 4)]
            for t, _ in items[1:]:
                lines.append(' let v : Locals := %s' % indent_rest(t, 5))
            lines.append(' v)')
            return '\n'.join(lines), False
        lines = ['(do']
        for t, r in items[:-1]:
            lines.append('  let v : Locals %s %s' % ('←' if r else ':=', indent_rest(t, 4)))
        t, r = items[-1]
        if r:
            lines.append('  %s)' % indent_rest(t, 2))
        else:
            lines.append('  pure %s)' % indent_rest(t, 4))
        return '\n'.join(lines), True

    def block(self, stmts):
        return self.seq([self.stmt(s) for s in stmts])

    def while_loop(self, s):
        if s.orelse:
            self.bad(s, 'while ... else')
        if self.recursive:
            self.bad(s, 'while loop inside a recursive function')
        for n in ast.walk(s):
            if isinstance(n, (ast.Break, ast.Continue)):
                self.bad(n, 'break / continue')
            if isinstance(n, ast.Return):
                self.bad(n, '`return` inside a loop')
        t = s.test
        # fuel: derived from the loop test `a < b` / `a <= b` at loop entry; the choice is not trusted
        # (running out of fuel is an explicit error result)
        if not (isinstance(t, ast.Compare) and len(t.ops) == 1 and isinstance(t.ops[0], (ast.Lt, ast.LtE))):
            self.bad(s, 'while loop whose test is not `a < b` or `a <= b` (no fuel expression can be derived)')
        lo, hi = self.expr(t.left), self.expr(t.comparators[0])
        if lo.raises or hi.raises or self.kind(lo, t) not in ('int', 'nat') or self.kind(hi, t) not in ('int', 'nat'):
            self.bad(s, 'while loop test over non-int or raising expressions')
        extra = 1 if isinstance(t.ops[0], ast.Lt) else 2
        if prune(lo.ty) == NAT and prune(hi.ty) == NAT:
            fuel = '(%s - %s + %d)' % (hi.code, lo.code, extra)
        else:
            fuel = '((%s - %s).toNat + %d)' % (self.to_int(hi).code, self.to_int(lo).code, extra)
        cond = self.as_bool(self.expr(t), t)
        body, braises = self.block(s.body)
        self.nloops += 1
        name = 'while_%d' % self.nloops   # numbered in order of appearance (stable under line shifts)
        a, b, _ = self.mod.src(s)
        out = []
        out.append('/-- %s:%d-%d  test of the `while` loop -/' % (self.mod.relpath, a, b))
        out.append('def %s.cond (v : Locals) : %s :=\n  %s' % (name, 'Except Py.Exc Bool' if cond.raises else 'Bool', indent_rest(cond.code, 2)))
        out.append('/-- %s:%d-%d  body of the `while` loop -/' % (self.mod.relpath, s.body[0].lineno, b))
        out.append('def %s.body (v : Locals) : %s :=\n  %s' % (name, 'Except Py.Exc Locals' if braises else 'Locals', indent_rest(body, 2)))
        out.append('/-- the loop: structural recursion on the fuel; `.error .outOfFuel` when it runs out -/')
        loop = ['def %s.loop : Nat → Locals → Except Py.Exc Locals' % name,
                '  | 0, _ => .error .outOfFuel',
                '  | fuel + 1, v =>']
        if cond.raises:
            loop.append('    match %s.cond v with' % name)
            loop.append('    | .error e => .error e')
            loop.append('    | .ok true =>')
            pre = '      '
            tail = '    | .ok false => .ok v'
        else:
            loop.append('    if %s.cond v then' % name)
            pre = '      '
            tail = '    else .ok v'
        if braises:
            loop.append(pre + 'match %s.body v with' % name)
            loop.append(pre + '| .error e => .error e')
            loop.append(pre + '| .ok v => %s.loop fuel v' % name)
        else:
            loop.append(pre + '%s.loop fuel (%s.body v)' % (name, name))
        loop.append(tail)
        out.append('\n'.join(loop))
        self.aux.append('\n'.join(out))
        self.may_raise = True
        return '(%s.loop %s v)' % (name, fuel), True

    # -- the function ---------------------------------------------------------------------------
    def tail(self, stmts):
        """statements ending the function: text of type R / Except Py.Exc R"""
        if not stmts:
            self.bad(self.node, 'function may end without `return` (implicit None)')
        last = stmts[-1]
        head, hr = self.block(stmts[:-1]) if stmts[:-1] else ('v', False)
        if isinstance(last, ast.Return):
            if last.value is None:
                self.bad(last, '`return` without a value')
            r = self.to_int_result(self.expr(last.value), last)
            text, rr = r.code, r.raises
        elif isinstance(last, ast.If) and last.orelse:
            c = self.as_bool(self.expr(last.test), last.test)
            a, ar = self.tail(last.body)
            b, br = self.tail(last.orelse)
            if ar or br:
                if not ar:
                    a = '(pure %s)' % a
                if not br:
                    b = '(pure %s)' % b
            body = lambda k: '(if %s then\n    %s\n  else\n    %s)' % (k, indent_rest(a, 4), indent_rest(b, 4))
            if c.raises:
                t = self.fresh()
                text = '(do\n  let %s ← %s\n  %s)' % (t, c.code, indent_rest(body(t) if (ar or br) else 'pure ' + body(t), 2))
                rr = True
            else:
                text, rr = body(c.code), (ar or br)
        elif isinstance(last, ast.Raise):
            text, rr = self.raise_stmt(last), True
        else:
            self.bad(last, 'function may end without `return` (implicit None)')
        if head == 'v' and not hr:
            return text, rr
        if not hr and not rr:
            return '(let v : Locals := %s\n %s)' % (indent_rest(head, 4), indent_rest(text, 1)), False
        if hr:
            return '(do\n  let v : Locals ← %s\n  %s)' % (indent_rest(head, 4), indent_rest(text if rr else 'pure ' + text, 2)), True
        return '(let v : Locals := %s\n %s)' % (indent_rest(head, 4), indent_rest(text, 1)), True

    def to_int_result(self, ex, node):
        # results are Int (never Nat), so that the result type does not depend on the inference
        if prune(ex.ty) == NAT:
            ex = self.to_int(ex)
        t = prune(ex.ty)
        if t[0] == 'tuple':
            pass
        self.unify(self.ret_type, ex.ty, node)
        return ex

    def body_stmts(self):
        body = list(self.node.body)
        if body and isinstance(body[0], ast.Expr) and isinstance(body[0].value, ast.Constant) and isinstance(body[0].value.value, str):
            body = body[1:]
        return body

    def run(self, local_names):
        """one compilation pass with the current local types; returns (text, raises)"""
        self.aux = []
        self.tmp = 0
        self.nloops = 0
        self.assign_natness = {}
        self.may_raise = False
        self.names = {}
        for p, ty in self.params.items():
            self.names[p] = ('v.%s' % lean_ident(p), ty)
        for n in local_names:
            ty = self.local_types[n]
            if prune(ty) == INT and n in self.nat_locals:
                ty = NAT
            self.names[n] = ('v.%s' % lean_ident(n), ty)
        return self.tail(self.body_stmts())

    def compile(self):
        node = self.node
        a = node.args
        if a.vararg or a.kwarg or a.kwonlyargs or a.posonlyargs or node.decorator_list and not all(
                isinstance(d, ast.Name) and d.id == 'property' for d in node.decorator_list):
            self.bad(node, 'function signature with * / ** / keyword-only / decorators other than @property')
        argnames = [x.arg for x in a.args]
        if self.self_attrs is not None:
            if not argnames or argnames[0] != 'self':
                self.bad(node, 'method without self')
            argnames = argnames[1:]
        if argnames != list(self.params):
            self.bad(node, 'parameters %s differ from the translator specification %s' % (argnames, list(self.params)))
        for d in a.defaults:
            if not isinstance(d, ast.Constant):
                self.bad(node, 'non-literal default value')
        local_names = self.collect_locals()
        if 'self' in local_names:
            self.bad(node, 'assignment to self')
        for n in ast.walk(node):
            if isinstance(n, ast.Attribute) and isinstance(n.ctx, ast.Store) and not self.allow_attr_store:
                self.bad(n, 'attribute assignment')
        self.local_types = {n: self.initial_local_type(n) for n in local_names}
        # pass 1: type inference (Nat and Int are not distinguished)
        self.nat_locals = set()
        self.definite(self.body_stmts(), set(self.params))
        self.run(local_names)
        self.run(local_names)   # a second pass lets types found late reach earlier uses
        for n in local_names:
            if not resolved(self.local_types[n]):
                self.bad(node, 'cannot infer the type of local variable %s' % n)
        if not resolved(self.ret_type):
            self.bad(node, 'cannot infer the result type')
        # pass 2: Nat refinement of int locals (optimistic fixpoint)
        self.nat_locals = {n for n in local_names if prune(self.local_types[n]) == INT}
        while True:
            self.run(local_names)
            demote = {n for n in self.nat_locals if not all(self.assign_natness.get(n, [False]))}
            if not demote:
                break
            self.nat_locals -= demote
        text, raises = self.run(local_names)
        return local_names, text, raises

    def render(self, doc):
        local_names, text, raises = self.compile()
        ret = lean_type(self.ret_type)
        out = []
        simple = not local_names and not self.aux
        ns = self.lean_name
        params_sig = ''
        if self.self_attrs is not None:
            params_sig += ' (self : Self)'
        params_sig += ''.join(' (%s : %s)' % (lean_ident(p), lean_type(t)) for p, t in self.params.items())
        rty = 'Except Py.Exc %s' % lean_type(self.ret_type, False) if raises else ret
        if simple:
            # no local variables: parameters are used directly
            for p in self.params:
                text = re.sub(r'\bv\.%s\b' % re.escape(lean_ident(p)), lean_ident(p), text)
            out.append(doc)
            out.append('def %s%s : %s :=\n  %s' % (ns, params_sig, rty, indent_rest(text, 2)))
            return '\n'.join(out), raises
        fields = []
        for p, t in self.params.items():
            fields.append((lean_ident(p), lean_type(t), lean_ident(p)))
        for n in local_names:
            t = self.local_types[n]
            if prune(t) == INT and n in self.nat_locals:
                t = NAT
            fields.append((lean_ident(n), lean_type(t), default_value(t)))
        out.append('namespace %s' % ns)
        out.append('/-- the local variables of `%s` (parameters first) -/' % self.node.name)
        out.append('structure Locals where')
        for f, t, _ in fields:
            out.append('  %s : %s' % (f, t))
        out.append('')
        for a in self.aux:
            out.append(a)
            out.append('')
        out.append('end %s' % ns)
        out.append('')
        out.append('open %s in' % ns)
        out.append(doc)
        init = ', '.join('%s := %s' % (f, d) for f, _, d in fields)
        if self.recursive:
            # recursion on a fuel argument: every call of the function itself passes one unit less;
            # `.error .outOfFuel` at 0 (so `f fuel x = .ok y` shows that the fuel sufficed)
            if self.self_attrs is not None:
                self.bad(self.node, 'recursive method')
            sig = ' → '.join(['Nat'] + [lean_type(t, False) for t in self.params.values()] +
                             ['Except Py.Exc %s' % lean_type(self.ret_type, False)])
            pats0 = ', '.join(['0'] + ['_'] * len(self.params))
            pats1 = ', '.join(['fuel + 1'] + [lean_ident(p) for p in self.params])
            if not raises:
                text = '(pure %s)' % text
            out.append('def %s : %s\n  | %s => .error .outOfFuel\n  | %s =>\n    let v : Locals := { %s }\n    %s' % (
                ns, sig, pats0, pats1, init, indent_rest(text, 4)))
            return '\n'.join(out), True
        out.append('def %s%s : %s :=\n  let v : Locals := { %s }\n  %s' % (ns, params_sig, rty, init, indent_rest(text, 2)))
        return '\n'.join(out), raises


# =============================================================================================
# ---- stateful classes (block added for C15: the whole `dataquery.NodePathParser`) ----------------
# A class declared `'stateful': True` in SPEC: its methods read AND assign `self.<attr>` and call each other.
# Every method becomes   Cls.m (self : Cls.Self) (params…) : Except Py.Exc (Cls.Self × R)   (R = Unit for a
# method that returns nothing); `__init__` becomes  Cls.__init__ (params…) : Cls.Self.  Inside a method the
# record `v : Locals` has a field `self : Cls.Self` besides the parameters and local variables.
# Everything handled here is listed in notes/Tie.md ("Stateful classes").
BUILTIN_EXC = {'ValueError': 'valueError', 'IndexError': 'indexError', 'KeyError': 'keyError',
               'ZeroDivisionError': 'zeroDivisionError', 'TypeError': 'typeError'}


def self_path(e):
    """['a'] for `self.a`, ['a', 'b'] for `self.a.b`; None for anything else"""
    path = []
    while isinstance(e, ast.Attribute):
        path.append(e.attr)
        e = e.value
    if isinstance(e, ast.Name) and e.id == 'self' and path:
        return list(reversed(path))
    return None


def module_binds(mod, name):
    """is `name` bound at module level by an assignment, def or class (so that it is not the builtin)?"""
    return name in mod.assigns or name in mod.funcs or name in mod.classes or name in mod.globals_declared


def module_imports(mod, module, name=None):
    """`import module` (name None) or `from module import name` at module level, and the bound name not re-bound"""
    found = False
    for node in mod.tree.body:
        if name is None and isinstance(node, ast.Import):
            found = found or any(a.name == module and a.asname is None for a in node.names)
        if name is not None and isinstance(node, ast.ImportFrom) and node.module == module and node.level == 0:
            found = found or any(a.name == name and a.asname is None for a in node.names)
    bound = module if name is None else name
    stores = [n for n in ast.walk(mod.tree) if isinstance(n, ast.Name) and n.id == bound and isinstance(n.ctx, (ast.Store, ast.Del))]
    return found and not stores and not module_binds(mod, bound)


class ClassInfo(object):
    def __init__(self, name, node, attrs, spec):
        self.name, self.node, self.attrs, self.spec = name, node, attrs, spec
        self.methods = {}     # method name -> ast node (the methods named in SPEC)
        self.sigs = {}        # method name -> (params, result type), filled when the method has been translated
        self.writes = {}      # method name -> attributes it may assign / mutate, calls of other methods included
        self.calls = {}


def direct_writes_and_calls(node):
    writes, calls = set(), set()
    for n in ast.walk(node):
        if isinstance(n, ast.Attribute) and isinstance(n.ctx, (ast.Store, ast.Del)):
            p = self_path(n)
            if p:
                writes.add(p[0])
        if isinstance(n, ast.Call) and isinstance(n.func, ast.Attribute):
            p = self_path(n.func)
            if p and len(p) == 1:
                calls.add(p[0])          # self.m(...)
            elif p:
                writes.add(p[0])         # self.a.append(...), self.a.m(...): the object held in `a` changes
    return writes, calls


class MethodCompiler(FuncCompiler):
    allow_attr_store = True

    def __init__(self, mod, gen, node, lean_name, params, cls, classes, declared_locals, returns=None):
        FuncCompiler.__init__(self, mod, gen, node, lean_name, params, self_attrs=cls.attrs, returns=returns)
        self.cls = cls
        self.classes = classes            # name -> ClassInfo of the stateful classes translated so far
        self.declared_locals = declared_locals

    def initial_local_type(self, name):
        return self.declared_locals.get(name) or TV()

    # -- types ------------------------------------------------------------------------------
    @staticmethod
    def is_opt(ex):
        t = prune(ex.ty)
        return not isinstance(t, TV) and t[0] == 'opt'

    def unopt(self, ex):
        """a `T or None` value used where a `T` is required: `None` there is a TypeError"""
        if self.is_opt(ex):
            return self.lift([ex], lambda c: '(Py.unwrap %s)' % c[0], prune(ex.ty)[1], result_raises=True)
        return ex

    def coerce(self, ex, ty, node):
        ty, et = prune(ty), prune(ex.ty)
        if not isinstance(ty, TV) and ty[0] == 'opt':
            inner = prune(ty[1])
            if isinstance(et, TV):
                self.unify(et, ty, node)
                return ex
            if et[0] == 'opt':
                ei = prune(et[1])
                if inner == INTORSLICE and ei in (INT, NAT):
                    return self.lift([ex], lambda c: '(Option.map Py.IntOrSlice.int %s)' % c[0], ty)
                self.unify(et, ty, node)
                return ex
            x = self.coerce(ex, inner, node)
            return self.lift([x], lambda c: '(some %s)' % c[0], ty)
        if ty == INTORSLICE and not isinstance(et, TV) and et in (INT, NAT):
            x = self.to_int(ex)
            return self.lift([x], lambda c: '(Py.IntOrSlice.int %s)' % c[0], INTORSLICE)
        return FuncCompiler.coerce(self, ex, ty, node)

    def attr_type(self, path, node):
        cls, t = self.cls, None
        for i, a in enumerate(path):
            if cls is None or a not in cls.attrs:
                self.bad(node, 'attribute self.%s has no declared type in the translator specification' % '.'.join(path[:i + 1]))
            t = cls.attrs[a]
            tp = prune(t)
            cls = self.classes.get(tp[1]) if (not isinstance(tp, TV) and tp[0] == 'named') else None
        return t

    # -- expressions --------------------------------------------------------------------------
    def e_Constant(self, e):
        if e.value is None:
            return Ex('none', ('opt', TV()))
        return FuncCompiler.e_Constant(self, e)

    def e_Attribute(self, e):
        p = self_path(e)
        if p:
            return Ex('v.self.' + '.'.join(lean_ident(a) for a in p), self.attr_type(p, e))
        if (isinstance(e.value, ast.Name) and e.value.id == 'string' and e.attr == 'whitespace'
                and 'string' not in self.names and module_imports(self.mod, 'string')):
            return Ex(lean_str(string.whitespace), STR)   # the value in the interpreter that runs the check
        self.bad(e, 'attribute access is not in the table (only self.<attr>, self.<attr>.<attr>, string.whitespace)')

    def binop(self, e, a, b):
        return FuncCompiler.binop(self, e, self.unopt(a), self.unopt(b))

    def subscript(self, e, a, i):
        return FuncCompiler.subscript(self, e, self.unopt(a), self.unopt(i))

    def e_IfExp(self, e):
        c = self.as_bool(self.expr(e.test), e.test)
        a, b = self.expr(e.body), self.expr(e.orelse)
        if self.is_opt(a) and not self.is_opt(b):
            b = self.coerce(b, a.ty, e)
        elif self.is_opt(b) and not self.is_opt(a):
            a = self.coerce(a, b.ty, e)
        if {prune(a.ty), prune(b.ty)} == {INT, NAT}:
            a, b = self.to_int(a), self.to_int(b)
        self.unify(a.ty, b.ty, e)
        if a.raises or b.raises:
            ac = a.code if a.raises else '(pure %s)' % a.code
            bc = b.code if b.raises else '(pure %s)' % b.code
            return self.lift([c], lambda k: '(if %s then %s else %s)' % (k[0], ac, bc), a.ty, result_raises=True)
        return self.lift([c], lambda k: '(if %s then %s else %s)' % (k[0], a.code, b.code), a.ty)

    def e_Compare(self, e):
        if len(e.ops) != 1:
            self.bad(e, 'chained comparison')
        op = type(e.ops[0]).__name__
        right = e.comparators[0]
        if op in ('Eq', 'NotEq'):
            a, b = self.expr(e.left), self.expr(right)
            if self.is_opt(a) or self.is_opt(b):
                # `x == y` where one side may be None: equal iff both are the same value (None == None only)
                if not self.is_opt(a):
                    a = self.coerce(a, b.ty, e)
                elif not self.is_opt(b):
                    b = self.coerce(b, a.ty, e)
                self.unify(a.ty, b.ty, e)
                fmt = '(decide (%s = %s))' if op == 'Eq' else '(!decide (%s = %s))'
                return self.lift([a, b], lambda c: fmt % (c[0], c[1]), BOOL)
        if op in ('In', 'NotIn'):
            neg = '!' if op == 'NotIn' else ''
            if isinstance(right, (ast.Tuple, ast.List)) and right.elts:
                # membership in a tuple / list display: `==` against each element in turn
                a = self.expr(e.left)
                alts = [self.expr(x) for x in right.elts]
                for i, x in enumerate(alts):
                    if self.is_opt(a) and not self.is_opt(x):
                        alts[i] = self.coerce(x, a.ty, e)
                    else:
                        self.unify(a.ty, x.ty, e)
                return self.lift([a] + alts, lambda c: '(%s(%s))' % (neg, ' || '.join(
                    'decide (%s = %s)' % (c[0], y) for y in c[1:])), BOOL)
            b = self.expr(right)
            if not isinstance(prune(b.ty), TV) and self.kind(self.unopt(b), right) == 'str':
                a = self.unopt(self.expr(e.left))
                b = self.unopt(b)
                if self.kind(a, e.left) != 'str':
                    self.bad(e, '`in` between a %s and a str' % self.kind(a, e.left))
                return self.lift([a, b], lambda c: '(%sPy.strContains %s %s)' % (neg, c[1], c[0]), BOOL)
        if op in ('Lt', 'LtE', 'Gt', 'GtE'):
            a, b = self.unopt(self.expr(e.left)), self.unopt(self.expr(right))
            ka, kb = self.kind(a, e.left), self.kind(b, right)
            if ka not in ('int', 'nat') or kb not in ('int', 'nat'):
                self.bad(e, 'ordering comparison on %s and %s' % (ka, kb))
            if ka != kb:
                a, b = self.to_int(a), self.to_int(b)
            sym = {'Lt': '<', 'LtE': '≤', 'Gt': '>', 'GtE': '≥'}[op]
            return self.lift([a, b], lambda c: '(decide (%s %s %s))' % (c[0], sym, c[1]), BOOL)
        return FuncCompiler.e_Compare(self, e)

    def builtin(self, name):
        return name not in self.names and not module_binds(self.mod, name)

    def e_Call(self, e):
        f = e.func
        if isinstance(f, ast.Name) and not e.keywords and self.builtin(f.id):
            if f.id == 'len' and len(e.args) == 1:
                a = self.unopt(self.expr(e.args[0]))
                if self.kind(a, e) not in ('str', 'bytes', 'list', 'dict'):
                    self.bad(e, 'len() of a %s' % self.kind(a, e))
                return self.lift([a], lambda c: '(List.length %s)' % c[0], NAT)
            if f.id == 'int' and len(e.args) == 1:
                a = self.unopt(self.expr(e.args[0]))
                k = self.kind(a, e)
                if k == 'str':
                    return self.lift([a], lambda c: '(Py.intOfStr %s)' % c[0], INT, result_raises=True)
                if k in ('int', 'nat'):
                    return self.to_int(a)
                self.bad(e, 'int() of a %s' % k)
            if f.id == 'slice':
                oi = ('opt', INT)
                if len(e.args) == 1 and isinstance(e.args[0], ast.Starred):
                    xs = self.expr(e.args[0].value)
                    self.unify(xs.ty, ('list', oi), e)
                    return self.lift([xs], lambda c: '(Py.sliceOfList %s)' % c[0], INTORSLICE, result_raises=True)
                if 1 <= len(e.args) <= 3 and not any(isinstance(a, ast.Starred) for a in e.args):
                    args = [self.coerce(self.to_int(self.expr(a)), oi, e) for a in e.args]
                    if len(args) == 1:
                        build = lambda c: '(Py.IntOrSlice.slice none %s none)' % c[0]
                    elif len(args) == 2:
                        build = lambda c: '(Py.IntOrSlice.slice %s %s none)' % (c[0], c[1])
                    else:
                        build = lambda c: '(Py.IntOrSlice.slice %s %s %s)' % (c[0], c[1], c[2])
                    return self.lift(args, build, INTORSLICE)
                self.bad(e, 'slice() call form')
        if isinstance(f, ast.Name) and not e.keywords and f.id not in self.names:
            if f.id in self.gen.namedtuples and not any(isinstance(a, ast.Starred) for a in e.args):
                fields = self.gen.namedtuples[f.id]
                if len(e.args) != len(fields):
                    self.bad(e, '%s(...) with %d arguments' % (f.id, len(e.args)))
                args = [self.coerce(self.to_int(self.expr(a)), t, e) for a, t in zip(e.args, fields.values())]
                names = [lean_ident(k) for k in fields]
                return self.lift(args, lambda c: '({ %s } : %s)' % (', '.join('%s := %s' % (n, x) for n, x in zip(names, c)), f.id),
                                 ('named', f.id))
            if f.id in self.classes and '__init__' in self.classes[f.id].sigs and not any(isinstance(a, ast.Starred) for a in e.args):
                params, _ = self.classes[f.id].sigs['__init__']
                if len(e.args) != len(params):
                    self.bad(e, '%s(...) with %d arguments' % (f.id, len(e.args)))
                args = [self.coerce(self.to_int(self.expr(a)), t, e) for a, t in zip(e.args, params.values())]
                return self.lift(args, lambda c: '(%s.__init__ %s)' % (f.id, ' '.join(c)), ('named', f.id))
        if isinstance(f, ast.Attribute) and f.attr == 'find' and len(e.args) == 1 and not e.keywords and self.self_call(e) is None:
            recv = self.unopt(self.expr(f.value))
            arg = self.unopt(self.expr(e.args[0]))
            if self.kind(recv, e) == 'str' and self.kind(arg, e) == 'str':
                return self.lift([recv, arg], lambda c: '(Py.strFind %s %s)' % (c[0], c[1]), INT)
        if self.self_call(e) is not None:
            self.bad(e, 'call of a method of the object inside an expression (only as a statement, as the whole right-hand '
                        'side of an assignment, or as the argument of self.<list>.append)')
        return FuncCompiler.e_Call(self, e)

    # -- exceptions -----------------------------------------------------------------------------
    def effects(self, e):
        """the sub-expressions that may raise, in evaluation order, of an expression whose VALUE is not modelled
        (the message of an exception)"""
        if (isinstance(e, ast.Call) and isinstance(e.func, ast.Attribute) and e.func.attr == 'format'
                and isinstance(e.func.value, ast.Constant) and isinstance(e.func.value.value, str)):
            if e.keywords or any(isinstance(a, ast.Starred) for a in e.args):
                self.bad(e, 'format() with keyword / starred arguments in an exception message')
            auto = 0
            try:
                parsed = list(string.Formatter().parse(e.func.value.value))
            except ValueError as err:
                self.bad(e, 'format string: %s' % err)
            for _lit, field, spec, conv in parsed:
                if field is None:
                    continue
                if field != '' or spec != '' or conv not in (None, 'r', 's'):
                    self.bad(e, 'format field {%s!%s:%s} in an exception message' % (field, conv, spec))
                auto += 1
            if auto != len(e.args):
                self.bad(e, 'format(): %d fields, %d arguments' % (auto, len(e.args)))
            out = []
            for a in e.args:
                out += self.effects(a)
            return out
        ex = self.expr(e)
        return [ex] if ex.raises else []

    def raise_stmt(self, s, allow_effects=True):
        if s.cause is not None or s.exc is None:
            self.bad(s, 'bare raise / raise from')
        exc = s.exc
        effs = []
        if isinstance(exc, ast.Name):
            cls = exc.id
        elif isinstance(exc, ast.Call) and isinstance(exc.func, ast.Name) and not exc.keywords \
                and not any(isinstance(a, ast.Starred) for a in exc.args):
            name = exc.func.id
            if name in self.mod.funcs:
                # raise f(a, b) with a module-level  def f(p, q): return Cls(<message that cannot raise>)
                nodes = self.mod.funcs[name]
                if len(nodes) != 1 or module_binds(self.mod, name) and (name in self.mod.assigns or name in self.mod.classes):
                    self.bad(s, 'exception factory %s is not bound exactly once' % name)
                fn = nodes[0]
                body = [b for b in fn.body if not (isinstance(b, ast.Expr) and isinstance(b.value, ast.Constant))]
                fa = fn.args
                if (len(body) != 1 or not isinstance(body[0], ast.Return) or not isinstance(body[0].value, ast.Call)
                        or not isinstance(body[0].value.func, ast.Name) or body[0].value.keywords
                        or fa.vararg or fa.kwarg or fa.kwonlyargs or fa.posonlyargs or fn.decorator_list
                        or len(fa.args) != len(exc.args)):
                    self.bad(s, 'raise %s(...): %s is not of the form `def %s(p, ..): return Cls(...)`' % (name, name, name))
                inner = body[0].value
                cls = inner.func.id
                args = [self.expr(a) for a in exc.args]
                effs = [a for a in args if a.raises]
                saved = dict(self.names)
                try:
                    for p, a in zip(fa.args, args):
                        self.names[p.arg] = ('py2lean_message_argument', a.ty)
                    inner_effs = []
                    for a in inner.args:
                        inner_effs += self.effects(a)
                finally:
                    self.names = saved
                if inner_effs:
                    self.bad(s, 'the message built by %s may raise' % name)
            else:
                cls = name
                for a in exc.args:
                    effs += self.effects(a)
        else:
            self.bad(s, 'raise of something that is not ClassName(...) / factory(...)')
        if cls in self.mod.funcs or cls in self.mod.assigns or cls in self.names:
            self.bad(s, 'raise of %s, which is not a class name' % cls)
        self.may_raise = True
        err = '(Except.error (Py.Exc.raised "%s"))' % cls
        if not effs:
            return err
        if not allow_effects:
            self.bad(s, 'the arguments of this raise may raise themselves')
        # the arguments are evaluated first, left to right; one of them raising wins
        return '(do ' + '; '.join(['let _ ← %s' % x.code for x in effs] + [err]) + ')'

    # -- statements -------------------------------------------------------------------------------
    def self_call(self, e):
        """(attribute holding the receiver or None for self, ClassInfo, method name, argument nodes) for
        `self.m(..)` / `self.a.m(..)` with m a translated method; None otherwise"""
        if not (isinstance(e, ast.Call) and isinstance(e.func, ast.Attribute)):
            return None
        p = self_path(e.func)
        if not p:
            return None
        if len(p) == 1 and p[0] in self.cls.methods:
            return (None, self.cls, p[0], e)
        if len(p) == 2 and p[0] in self.cls.attrs:
            t = prune(self.cls.attrs[p[0]])
            k = self.classes.get(t[1]) if t[0] == 'named' else None
            if k is not None and p[1] in k.methods:
                return (p[0], k, p[1], e)
        return None

    def set_attr(self, path, ex, node):
        ty = self.attr_type(path, node)
        ex = self.coerce(self.to_int(ex) if prune(ty) != NAT else ex, ty, node)
        names = [lean_ident(a) for a in path]

        def build(val):
            inner = val
            for i in range(len(names) - 1, -1, -1):
                holder = 'v.self' + ''.join('.' + n for n in names[:i])
                inner = '{ %s with %s := %s }' % (holder, names[i], inner)
            return '{ v with self := %s }' % inner
        if ex.raises:
            t = self.fresh()
            return '(do let %s ← %s; pure %s)' % (t, ex.code, build(t)), True
        return build(ex.code), False

    def assign_target(self, tgt, ex, node):
        if isinstance(tgt, ast.Name):
            return self.set_local(tgt.id, ex, node)
        p = self_path(tgt)
        if p:
            return self.set_attr(p, ex, node)
        self.bad(node, 'assignment target is not in the table')

    def call_stmt(self, call, s, assign_to=None, append_to=None):
        recv, k, mname, e = call
        if e.keywords or any(isinstance(a, ast.Starred) for a in e.args):
            self.bad(s, 'method call with keyword / starred arguments')
        sig = k.sigs.get(mname)
        if sig is None:
            self.bad(s, 'call of %s.%s before it is translated (recursive methods are not in the table)' % (k.name, mname))
        params, rty = sig
        if len(e.args) != len(params):
            self.bad(s, 'call of %s.%s with %d arguments' % (k.name, mname, len(e.args)))
        args = [self.coerce(self.to_int(self.expr(a)), t, s) for a, t in zip(e.args, params.values())]
        lines, codes = ['(do'], []
        for a in args:
            if a.raises:
                u = self.fresh()
                lines.append('  let %s ← %s' % (u, a.code))
                codes.append(u)
            else:
                codes.append(a.code)
        t = self.fresh()
        selfcode = 'v.self' if recv is None else 'v.self.%s' % lean_ident(recv)
        lines.append('  let %s ← (%s.%s %s%s)' % (t, k.name, lean_ident(mname), selfcode, ''.join(' ' + c for c in codes)))
        if recv is None:
            lines.append('  let v : Locals := { v with self := %s.1 }' % t)
        else:
            lines.append('  let v : Locals := { v with self := { v.self with %s := %s.1 } }' % (lean_ident(recv), t))
        result = Ex('%s.2' % t, rty)
        if assign_to is not None or append_to is not None:
            if prune(rty) == UNIT:
                self.bad(s, 'the value of %s.%s, which returns nothing, is used' % (k.name, mname))
        if assign_to is not None:
            text, r = self.assign_target(assign_to, result, s)
        elif append_to is not None:
            # Python evaluates the list object before the call: the same list afterwards only if the callee leaves
            # that attribute alone
            if recv is not None or append_to[0] in k.writes[mname]:
                self.bad(s, 'self.%s.append(self.%s()) where %s may change self.%s' % (append_to[0], mname, mname, append_to[0]))
            lt = self.attr_type(append_to, s)
            tv = TV()
            self.unify(lt, ('list', tv), s)
            item = self.coerce(result, tv, s)
            cur = 'v.self.' + '.'.join(lean_ident(a) for a in append_to)
            text, r = self.set_attr(append_to, self.lift([item], lambda c: '(%s ++ [%s])' % (cur, c[0]), lt), s)
        else:
            text, r = 'v', False
        lines.append('  %s)' % (indent_rest(text, 2) if r else 'pure ' + indent_rest(text, 4)))
        self.may_raise = True
        return '\n'.join(lines), True

    def tuple_assign(self, s):
        tgt, val = s.targets[0], s.value
        if not isinstance(val, ast.Tuple) or len(val.elts) != len(tgt.elts) or any(isinstance(x, ast.Starred) for x in tgt.elts + val.elts):
            self.bad(s, 'tuple assignment other than `a, b = x, y`')
        # the right-hand sides are evaluated left to right first, then the targets are assigned left to right
        vals = [self.to_int(self.expr(x)) for x in val.elts]
        lines, temps, any_raise = [], [], False
        for x in vals:
            u = self.fresh()
            lines.append('let %s %s %s' % (u, '←' if x.raises else ':=', x.code))
            any_raise = any_raise or x.raises
            temps.append(Ex(u, x.ty))
        items = [self.assign_target(t, u, s) for t, u in zip(tgt.elts, temps)]
        any_raise = any_raise or any(r for _, r in items)
        if any_raise:
            out = ['(do'] + ['  ' + l for l in lines]
            for text, r in items[:-1]:
                out.append('  let v : Locals %s %s' % ('←' if r else ':=', indent_rest(text, 4)))
            text, r = items[-1]
            out.append('  %s)' % (indent_rest(text, 2) if r else 'pure ' + indent_rest(text, 4)))
            return '\n'.join(out), True
        out = ['(' + lines[0]] + [' ' + l for l in lines[1:]]
        for text, _ in items:
            out.append(' let v : Locals := %s' % indent_rest(text, 5))
        out.append(' v)')
        return '\n'.join(out), False

    def assert_stmt(self, s):
        if s.msg is not None:
            self.bad(s, 'assert with a message')
        fail = '(Except.error (Py.Exc.raised "AssertionError"))'
        t = s.test
        self.may_raise = True
        if (isinstance(t, ast.Call) and isinstance(t.func, ast.Name) and t.func.id == 'isinstance' and self.builtin('isinstance')
                and len(t.args) == 2 and not t.keywords and isinstance(t.args[1], ast.Name) and t.args[1].id == 'int'
                and self.builtin('int')):
            x = self.expr(t.args[0])
            tx = prune(x.ty)
            if not isinstance(tx, TV) and tx[0] == 'opt' and prune(tx[1]) in (INT, NAT):
                u = self.fresh()
                if x.raises:
                    return '(do let %s ← %s; if (Option.isSome %s) then pure v else %s)' % (u, x.code, u, fail), True
                return '(if (Option.isSome %s) then pure v else %s)' % (x.code, fail), True
            self.bad(s, 'assert isinstance(x, int) on a value that is not `int or None`')
        c = self.as_bool(self.expr(t), t)
        if c.raises:
            u = self.fresh()
            return '(do let %s ← %s; if %s then pure v else %s)' % (u, c.code, u, fail), True
        return '(if %s then pure v else %s)' % (c.code, fail), True

    def stmt(self, s):
        if isinstance(s, ast.Assign) and len(s.targets) == 1:
            tgt = s.targets[0]
            call = self.self_call(s.value)
            if call is not None:
                return self.call_stmt(call, s, assign_to=tgt)
            if isinstance(tgt, ast.Attribute):
                p = self_path(tgt)
                if not p:
                    self.bad(s, 'attribute assignment other than self.<attr> / self.<attr>.<attr>')
                return self.set_attr(p, self.expr(s.value), s)
            if isinstance(tgt, ast.Tuple):
                return self.tuple_assign(s)
        if isinstance(s, ast.AugAssign) and isinstance(s.target, ast.Attribute):
            p = self_path(s.target)
            if not p:
                self.bad(s, 'augmented assignment to an attribute other than self.<attr>')
            left = ast.Attribute(value=s.target.value, attr=s.target.attr, ctx=ast.Load())
            fake = ast.BinOp(left=left, op=s.op, right=s.value)
            ast.copy_location(fake, s)
            ast.copy_location(left, s)
            return self.set_attr(p, self.expr(fake), s)
        if isinstance(s, ast.Expr) and isinstance(s.value, ast.Call):
            c = s.value
            call = self.self_call(c)
            if call is not None:
                return self.call_stmt(call, s)
            if isinstance(c.func, ast.Attribute) and c.func.attr == 'append' and len(c.args) == 1 and not c.keywords:
                p = self_path(c.func.value)
                if p:
                    inner = self.self_call(c.args[0])
                    if inner is not None:
                        return self.call_stmt(inner, s, append_to=p)
                    lt = self.attr_type(p, s)
                    tv = TV()
                    self.unify(lt, ('list', tv), s)
                    item = self.coerce(self.to_int(self.expr(c.args[0])), tv, s)
                    cur = 'v.self.' + '.'.join(lean_ident(a) for a in p)
                    return self.set_attr(p, self.lift([item], lambda k: '(%s ++ [%s])' % (cur, k[0]), lt), s)
        if isinstance(s, ast.Assert):
            return self.assert_stmt(s)
        if isinstance(s, ast.Try):
            self.bad(s, '`try` that is not the last statement of the method')
        return FuncCompiler.stmt(self, s)

    def definite_other(self, s, assigned):
        if isinstance(s, ast.Assert):
            self.check_reads(s.test, assigned)
            return assigned
        if isinstance(s, ast.Try):
            self.definite(s.body, assigned)
            for h in s.handlers:
                self.definite(h.body, assigned)
            return assigned
        return FuncCompiler.definite_other(self, s, assigned)

    # -- the method -----------------------------------------------------------------------------
    def try_tail(self, s):
        if s.orelse or s.finalbody or len(s.handlers) != 1:
            self.bad(s, 'try with else / finally / several handlers')
        h = s.handlers[0]
        if h.name is not None or not isinstance(h.type, ast.Name) or h.type.id not in BUILTIN_EXC or not self.builtin(h.type.id):
            self.bad(s, 'except clause other than `except E:` with E one of %s' % ', '.join(sorted(BUILTIN_EXC)))
        for b in s.body:
            for n in ast.walk(b):
                if isinstance(n, (ast.Raise, ast.Assert, ast.While, ast.For, ast.Try)):
                    self.bad(n, '%s inside a try body' % type(n).__name__.lower())
                if isinstance(n, ast.Call):
                    f = n.func
                    if self.self_call(n) is not None or (isinstance(f, ast.Name) and not self.builtin(f.id)):
                        self.bad(n, 'call of translated code inside a try body (only primitives may raise there)')
        body, br = self.tail(s.body)
        if len(h.body) != 1 or not isinstance(h.body[0], ast.Raise):
            self.bad(s, 'except handler that is not a single raise')
        handler = self.raise_stmt(h.body[0], allow_effects=False)
        if not br:
            return body, False
        return '(Py.tryExcept %s\n  (fun e => decide (e = Py.Exc.%s))\n  %s)' % (indent_rest(body, 2), BUILTIN_EXC[h.type.id], handler), True

    def tail(self, stmts):
        """the statements ending the method: text of type Self × R / Except Py.Exc (Self × R)"""
        last = stmts[-1] if stmts else None
        head_stmts = stmts[:-1]
        if isinstance(last, ast.Return):
            if last.value is None:
                r = Ex('()', UNIT)
            else:
                if self.self_call(last.value) is not None:
                    self.bad(last, 'return of a method call (assign it to a local first)')
                r = self.to_int(self.expr(last.value))
            r = self.coerce(r, self.ret_type, last)
            fin = self.lift([r], lambda c: '(v.self, %s)' % c[0], self.ret_type)
            text, rr = fin.code, fin.raises
        elif isinstance(last, ast.If) and last.orelse:
            c = self.as_bool(self.expr(last.test), last.test)
            a, ar = self.tail(last.body)
            b, br = self.tail(last.orelse)
            if ar or br:
                if not ar:
                    a = '(pure %s)' % a
                if not br:
                    b = '(pure %s)' % b
            body = lambda k: '(if %s then\n    %s\n  else\n    %s)' % (k, indent_rest(a, 4), indent_rest(b, 4))
            if c.raises:
                t = self.fresh()
                text = '(do\n  let %s ← %s\n  %s)' % (t, c.code, indent_rest(body(t) if (ar or br) else 'pure ' + body(t), 2))
                rr = True
            else:
                text, rr = body(c.code), (ar or br)
        elif isinstance(last, ast.Raise):
            text, rr = self.raise_stmt(last), True
        elif isinstance(last, ast.Try):
            text, rr = self.try_tail(last)
        else:
            # the method ends without `return`: it returns None, which no caller may use
            head_stmts = stmts
            self.unify(self.ret_type, UNIT, self.node)
            text, rr = '(v.self, ())', False
        head, hr = self.block(head_stmts) if head_stmts else ('v', False)
        if head == 'v' and not hr:
            return text, rr
        if not hr:
            return '(let v : Locals := %s\n %s)' % (indent_rest(head, 4), indent_rest(text, 1)), rr
        return '(do\n  let v : Locals ← %s\n  %s)' % (indent_rest(head, 4), indent_rest(text if rr else 'pure ' + text, 2)), True

    def render(self, doc):
        local_names, text, raises = self.compile()
        ns = self.lean_name
        selfty = '%s.Self' % self.cls.name
        fields = [('self', selfty, 'self')]
        for p, t in self.params.items():
            fields.append((lean_ident(p), lean_type(t), lean_ident(p)))
        for n in local_names:
            t = self.local_types[n]
            if prune(t) == INT and n in self.nat_locals:
                t = NAT
            fields.append((lean_ident(n), lean_type(t), default_value(t)))
        out = ['namespace %s' % ns,
               '/-- the state of `%s.%s`: the object, the parameters, the local variables -/' % (self.cls.name, self.node.name),
               'structure Locals where']
        for f, t, _ in fields:
            out.append('  %s : %s' % (f, t))
        out.append('')
        for a in self.aux:
            out.append(a)
            out.append('')
        out.append('end %s' % ns)
        out.append('')
        out.append('open %s in' % ns)
        out.append(doc)
        params_sig = ' (self : %s)' % selfty + ''.join(' (%s : %s)' % (lean_ident(p), lean_type(t)) for p, t in self.params.items())
        init = ', '.join('%s := %s' % (f, d) for f, _, d in fields)
        if not raises:
            text = '(pure %s)' % text
        out.append('def %s%s : Except Py.Exc (%s × %s) :=\n  let v : Locals := { %s }\n  %s' % (
            ns, params_sig, selfty, lean_type(self.ret_type, False), init, indent_rest(text, 2)))
        return '\n'.join(out), True


def render_init(gen, info, node, params):
    """`__init__`: every statement is `self.<attr> = <expression that does not mention self>`, and every declared
    attribute is assigned exactly once; rendered as a structure literal"""
    mod = gen.mod
    a = node.args
    if a.vararg or a.kwarg or a.kwonlyargs or a.posonlyargs or node.decorator_list or [x.arg for x in a.args] != ['self'] + list(params):
        raise Py2LeanUnsupported(mod.relpath, node, '__init__ signature differs from the translator specification')
    ec = ExprCompiler(mod, gen)
    mc = MethodCompiler(mod, gen, node, '%s.__init__' % info.name, params, info, gen.stateful, {})
    mc.names = {p: (lean_ident(p), t) for p, t in params.items()}
    vals = {}
    body = [b for b in node.body if not (isinstance(b, ast.Expr) and isinstance(b.value, ast.Constant))]
    for s in body:
        ok = isinstance(s, ast.Assign) and len(s.targets) == 1 and self_path(s.targets[0]) is not None and len(self_path(s.targets[0])) == 1
        if not ok or any(isinstance(n, ast.Name) and n.id == 'self' for n in ast.walk(s.value)):
            raise Py2LeanUnsupported(mod.relpath, s, '__init__ statement other than `self.<attr> = <expression without self>`')
        attr = s.targets[0].attr
        if attr in vals or attr not in info.attrs:
            raise Py2LeanUnsupported(mod.relpath, s, '__init__ assigns self.%s twice, or it has no declared type' % attr)
        ex = mc.coerce(mc.to_int(mc.expr(s.value)), info.attrs[attr], s)
        if ex.raises:
            raise Py2LeanUnsupported(mod.relpath, s, '__init__ value that may raise')
        vals[attr] = ex.code
    missing = [k for k in info.attrs if k not in vals]
    if missing:
        raise Py2LeanUnsupported(mod.relpath, node, '__init__ does not assign the declared attribute(s) %s' % ', '.join(missing))
    lo, hi, _ = mod.src(node)
    sig = ''.join(' (%s : %s)' % (lean_ident(p), lean_type(t)) for p, t in params.items())
    text = '/-- %s:%d-%d  `%s.__init__` -/\ndef %s.__init__%s : %s.Self :=\n  { %s }' % (
        mod.relpath, lo, hi, info.name, info.name, sig, info.name,
        ', '.join('%s := %s' % (lean_ident(k), vals[k]) for k in info.attrs))
    return text, (lo, hi)


def render_named(gen, spec, func_texts):
    """namedtuples and stateful classes of one SPEC entry, in the order given"""
    mod = gen.mod
    gen.namedtuples = {}
    gen.stateful = {}
    for name, ns in spec.get('namedtuples', {}).items():
        # class Name(_Base): <docstring>   with   _Base = namedtuple('..', [field names])   at module level
        cnodes = mod.classes.get(name, [])
        if len(cnodes) != 1 or name in mod.assigns or name in mod.funcs:
            raise Py2LeanUnsupported(mod.relpath, 0, 'class %s not found exactly once' % name)
        cnode = cnodes[0]
        body = [b for b in cnode.body if not (isinstance(b, ast.Expr) and isinstance(b.value, ast.Constant)) and not isinstance(b, ast.Pass)]
        if body or len(cnode.bases) != 1 or not isinstance(cnode.bases[0], ast.Name) or cnode.keywords or cnode.decorator_list:
            raise Py2LeanUnsupported(mod.relpath, cnode, 'class %s is not a bare subclass of a namedtuple' % name)
        bnode = mod.const_node(cnode.bases[0].id, cnode)
        v = bnode.value
        ok = (isinstance(v, ast.Call) and isinstance(v.func, ast.Name) and v.func.id == 'namedtuple' and len(v.args) == 2
              and not v.keywords and isinstance(v.args[1], ast.List)
              and all(isinstance(x, ast.Constant) and isinstance(x.value, str) for x in v.args[1].elts)
              and module_imports(mod, 'collections', 'namedtuple'))
        if not ok or [x.value for x in v.args[1].elts] != list(ns['fields']):
            raise Py2LeanUnsupported(mod.relpath, bnode, 'the fields of namedtuple %s differ from the translator specification' % name)
        NAMED_KIND[name] = 'namedtuple'
        fields = {k: parse_type(t) for k, t in ns['fields'].items()}
        gen.namedtuples[name] = fields
        lo, hi, _ = mod.src(cnode)
        st = ['/-- %s:%d  namedtuple `%s` -/' % (mod.relpath, bnode.lineno, name), 'structure %s where' % name]
        for k, t in fields.items():
            st.append('  %s : %s' % (lean_ident(k), lean_type(t)))
        st.append('  deriving DecidableEq, Repr, Inhabited')
        func_texts.append('\n'.join(st))
        gen.items.append({'kind': 'namedtuple', 'name': name, 'lines': [bnode.lineno, hi]})
    for cname, cs in spec.get('classes', {}).items():
        if not cs.get('stateful'):
            continue
        cnodes = mod.classes.get(cname, [])
        if len(cnodes) != 1:
            raise Py2LeanUnsupported(mod.relpath, 0, 'class %s not found exactly once' % cname)
        cnode = cnodes[0]
        NAMED_KIND[cname] = 'class'
        info = ClassInfo(cname, cnode, {k: parse_type(t) for k, t in cs['attrs'].items()}, cs)
        defs = {}
        for n in cnode.body:
            if isinstance(n, ast.FunctionDef):
                defs.setdefault(n.name, []).append(n)
        for mname in cs['methods']:
            if len(defs.get(mname, [])) != 1:
                raise Py2LeanUnsupported(mod.relpath, cnode, 'method %s.%s not found exactly once' % (cname, mname))
            info.methods[mname] = defs[mname][0]
        # which attributes a method may change (calls of other methods of the object included), call order
        direct = {m: direct_writes_and_calls(n) for m, n in info.methods.items()}
        for m, (w, c) in direct.items():
            for callee in c:
                if callee in defs and callee not in info.methods:
                    raise Py2LeanUnsupported(mod.relpath, info.methods[m], 'call of self.%s, which is not in the translator specification' % callee)
            info.calls[m] = {x for x in c if x in info.methods}
        order, state = [], {}

        def visit(m):
            if state.get(m) == 1:
                raise Py2LeanUnsupported(mod.relpath, info.methods[m], 'recursive methods (%s)' % m)
            if state.get(m) == 2:
                return
            state[m] = 1
            for x in sorted(info.calls[m], key=lambda y: list(info.methods).index(y)):
                visit(x)
            state[m] = 2
            order.append(m)
        for m in info.methods:
            visit(m)
        for m in order:
            info.writes[m] = set(direct[m][0])
            for x in info.calls[m]:
                info.writes[m] |= info.writes[x]
        st = ['/-- the attributes of a `%s` instance (modelled by value; an attribute that holds an object of a translated' % cname,
              '    class is a nested record) -/', 'structure %s.Self where' % cname]
        for k in cs['attrs']:
            st.append('  %s : %s' % (lean_ident(k), lean_type(info.attrs[k])))
        st.append('  deriving DecidableEq, Repr, Inhabited')
        func_texts.append('\n'.join(st))
        gen.stateful[cname] = info
        for m in order:
            node = info.methods[m]
            ms = cs['methods'][m]
            params = {p: parse_type(t) for p, t in ms.get('params', {}).items()}
            lo, hi, _ = mod.src(node)
            if m == '__init__':
                text, _ = render_init(gen, info, node, params)
                info.sigs[m] = (params, ('named', cname))
                func_texts.append(text)
                gen.items.append({'kind': 'method', 'name': '%s.%s' % (cname, m), 'lines': [lo, hi], 'may_raise': False})
                continue
            mc = MethodCompiler(mod, gen, node, '%s.%s' % (cname, lean_ident(m)), params, info, gen.stateful,
                                {k: parse_type(t) for k, t in ms.get('locals', {}).items()},
                                returns=parse_type(ms['returns']) if ms.get('returns') else None)
            doc = '/-- %s:%d-%d  `%s.%s` -/' % (mod.relpath, lo, hi, cname, m)
            text, raises = mc.render(doc)
            info.sigs[m] = (params, prune(mc.ret_type))
            func_texts.append(text)
            gen.items.append({'kind': 'method', 'name': '%s.%s' % (cname, m), 'lines': [lo, hi], 'may_raise': True})


# =============================================================================================
# ---- functions in "flow" style (block added for C11 / C12: `decoder.generate_bufr_message`) --------------
# A function declared under 'flowfuncs' in SPEC may contain `return` inside loops, `try/except` whose handler goes on,
# `yield`, and calls of code that is NOT translated: those are declared as callbacks and become fields of a record
# `<function>.Env` of functions `args → Except Py.Exc result` (the theorem quantifies over them).  Every block is a
# term of type `Py.Flow Locals` (`next v` / `ret v` / `raise e v`: all three carry the variables).  A generator
# returns `List Y × Except Py.Exc Unit`: the values yielded, and how it ended.  See notes/Tie.md ("Flow functions").
EXC = ('exc',)


class FlowCompiler(MethodCompiler):
    allow_attr_store = True

    def __init__(self, mod, gen, node, lean_name, params, fs, records):
        cls = ClassInfo('py2lean_no_class', node, {}, {})
        MethodCompiler.__init__(self, mod, gen, node, lean_name, params, cls, {}, {k: parse_type(t) for k, t in fs.get('locals', {}).items()})
        self.self_attrs = None
        self.fs = fs
        self.records = records               # record type name -> {python attribute path: (lean field, type)}
        self.callbacks = fs.get('callbacks', {})
        self.used_callbacks = []             # in order of first use
        self.except_classes = []             # non-builtin classes named in `except`
        self.yield_type = parse_type(fs['yields']) if fs.get('yields') else None
        self.ignored = set(fs.get('ignored_params', []))
        frm = fs.get('fragment_from')
        if frm:
            # only the trailing statements of the function, from the first top-level statement whose source starts with
            # the given text; what they read must be a parameter of the fragment (definite-assignment analysis)
            body = FuncCompiler.body_stmts(self)
            idx = [i for i, st in enumerate(body) if (ast.get_source_segment('\n'.join(mod.src_lines), st) or '').startswith(frm)]
            if len(idx) != 1:
                self.bad(node, 'fragment start %r not found exactly once' % frm)
            frag = ast.FunctionDef(name=node.name, args=node.args, body=body[idx[0]:], decorator_list=node.decorator_list,
                                   returns=None, type_comment=None)
            ast.copy_location(frag, body[idx[0]])
            frag.end_lineno = node.end_lineno
            self.node = frag

    # -- expressions ------------------------------------------------------------------------------
    def attr_path(self, e):
        path = []
        while isinstance(e, ast.Attribute):
            path.append(e.attr)
            e = e.value
        if isinstance(e, ast.Name) and e.id in self.names:
            return e.id, list(reversed(path))
        return None, None

    def record_field(self, e):
        base, path = self.attr_path(e)
        if base is None:
            return None
        t = prune(self.names[base][1])
        if isinstance(t, TV) or t[0] != 'named' or t[1] not in self.records:
            return None
        fld = self.records[t[1]].get('.'.join(path))
        if fld is None:
            self.bad(e, 'attribute %s of a %s is not declared in the translator specification' % ('.'.join(path), t[1]))
        return base, fld

    def e_Attribute(self, e):
        rf = self.record_field(e)
        if rf is not None:
            base, (fld, ty) = rf
            return Ex('%s.%s' % (self.names[base][0], fld), ty)
        if (isinstance(e.value, ast.Name) and e.value.id == 'string' and e.attr == 'whitespace'
                and 'string' not in self.names and module_imports(self.mod, 'string')):
            return Ex(lean_str(string.whitespace), STR)
        self.bad(e, 'attribute access is not in the table (only declared attributes of a local record)')

    def e_Name(self, e):
        if e.id in self.names or e.id in ('True', 'False'):
            return FuncCompiler.e_Name(self, e)
        if e.id not in self.mod.assigns:
            # `from pybufrkit.<m> import NAME`: the constant of the other module, translated from ITS source
            for node in self.mod.tree.body:
                if isinstance(node, ast.ImportFrom) and node.level == 0 and (node.module or '').startswith('pybufrkit.') \
                        and any(a.name == e.id and a.asname is None for a in node.names) and not module_binds(self.mod, e.id):
                    return Ex(lean_ident(e.id), self.gen.require_imported_const(e.id, node.module, e))
        return FuncCompiler.e_Name(self, e)

    def subscript(self, e, a, i):
        return MethodCompiler.subscript(self, e, a, i)

    def e_Subscript(self, e):
        if isinstance(e.slice, ast.Slice):
            sl = e.slice
            if sl.step is not None:
                self.bad(e, 'slice with a step')
            a = self.unopt(self.expr(e.value))
            if self.kind(a, e) not in ('str', 'bytes', 'list'):
                self.bad(e, 'slicing of a %s' % self.kind(a, e))
            parts = [a]
            for b in (sl.lower, sl.upper):
                if b is None:
                    parts.append(Ex('none', ('opt', INT)))
                else:
                    x = self.to_int(self.unopt(self.expr(b)))
                    if self.kind(x, e) != 'int':
                        self.bad(e, 'slice bound of type %s' % self.kind(x, e))
                    parts.append(self.lift([x], lambda c: '(some %s)' % c[0], ('opt', INT)))
            return self.lift(parts, lambda c: '(Py.sliceSeq %s %s %s)' % (c[0], c[1], c[2]), a.ty)
        return FuncCompiler.e_Subscript(self, e)

    def e_Compare(self, e):
        if (len(e.ops) == 1 and isinstance(e.ops[0], (ast.In, ast.NotIn)) and isinstance(e.comparators[0], ast.Name)
                and e.comparators[0].id in self.names and e.comparators[0].id in self.fs.get('contains', {})):
            # `x in obj` for a local object whose `__contains__` is declared as a callback
            cb = self.fs['contains'][e.comparators[0].id]
            key = '%s.__contains__' % e.comparators[0].id
            self.callbacks.setdefault(key, {'lean': cb['lean'], 'receiver': e.comparators[0].id, 'returns': 'bool',
                                            'args': [('pos', cb['arg'])]})
            if key not in self.used_callbacks:
                self.used_callbacks.append(key)
            recv = self.expr(e.comparators[0])
            a = self.coerce(self.to_int(self.expr(e.left)), parse_type(cb['arg']), e)
            neg = '!' if isinstance(e.ops[0], ast.NotIn) else ''
            r = self.lift([recv, a], lambda c: '(env.%s %s %s)' % (cb['lean'], c[0], c[1]), BOOL, result_raises=True)
            if neg:
                r = self.lift([r], lambda c: '(!%s)' % c[0], BOOL)
            return r
        if len(e.ops) == 1 and isinstance(e.ops[0], (ast.Is, ast.IsNot)) and isinstance(e.comparators[0], ast.Constant) \
                and e.comparators[0].value is None:
            a = self.expr(e.left)
            if not self.is_opt(a):
                self.bad(e, '`is None` on a value that cannot be None')
            fmt = '(Option.isNone %s)' if isinstance(e.ops[0], ast.Is) else '(Option.isSome %s)'
            return self.lift([a], lambda c: fmt % c[0], BOOL)
        return MethodCompiler.e_Compare(self, e)

    def is_module_logger(self, name):
        nodes = self.mod.assigns.get(name, [])
        return (len(nodes) == 1 and isinstance(nodes[0], ast.Assign) and isinstance(nodes[0].value, ast.Call)
                and ast.unparse(nodes[0].value.func) == 'logging.getLogger')

    def as_bool(self, ex, node):
        t = prune(ex.ty)
        if not isinstance(t, TV) and t[0] == 'opt' and prune(t[1])[0] in ('str', 'bytes', 'list'):
            # truth value of `None`-or-sequence: None and the empty sequence are false
            return self.lift([ex], lambda c: '(Py.truthyOptSeq %s)' % c[0], BOOL)
        return FuncCompiler.as_bool(self, ex, node)

    def callback_of(self, e):
        if not isinstance(e, ast.Call):
            return None
        try:
            key = ast.unparse(e.func)
        except Exception:
            return None
        return key if key in self.callbacks else None

    def e_Call(self, e):
        key = self.callback_of(e)
        if key is not None:
            return self.callback_call(e, key)
        f = e.func
        if isinstance(f, ast.Attribute) and f.attr == 'find' and len(e.args) == 2 and not e.keywords:
            recv = self.unopt(self.expr(f.value))
            arg = self.unopt(self.expr(e.args[0]))
            st = self.to_int(self.unopt(self.expr(e.args[1])))
            k = self.kind(recv, e)
            if k in ('str', 'bytes') and self.kind(arg, e) == k and self.kind(st, e) == 'int':
                return self.lift([recv, arg, st], lambda c: '(Py.seqFind %s %s %s)' % (c[0], c[1], c[2]), INT)
        return MethodCompiler.e_Call(self, e)

    def callback_call(self, e, key):
        cb = self.callbacks[key]
        name = cb['lean']
        if key not in self.used_callbacks:
            self.used_callbacks.append(key)
        args = []
        if cb.get('receiver'):
            # a method of a local object: the object is the first argument; `None.method` is an AttributeError
            r = self.expr(ast.Name(id=cb['receiver'], ctx=ast.Load()))
            if self.is_opt(r):
                r = self.lift([r], lambda c: '(Py.unwrapAttr %s)' % c[0], prune(r.ty)[1], result_raises=True)
            args.append(r)
        a = self.node.args
        seen_pos, seen_kw = 0, set()
        want_pos = [x for x in cb['args'] if x[0] == 'pos']
        plain = [x for x in e.args if not isinstance(x, ast.Starred)]
        starred = [x for x in e.args if isinstance(x, ast.Starred)]
        if len(plain) != len(want_pos):
            self.bad(e, 'callback %s with %d positional arguments' % (key, len(plain)))
        # positional arguments first (Python evaluates them left to right, then *args, then keywords)
        for x, (_, ty) in zip(plain, want_pos):
            args.append(self.coerce(self.to_int(self.expr(x)), parse_type(ty), e))
        want_star = [x for x in cb['args'] if x[0] == 'varargs']
        if len(starred) != len(want_star) or any(not (isinstance(x.value, ast.Name) and a.vararg and x.value.id == a.vararg.arg) for x in starred):
            self.bad(e, 'callback %s: starred arguments other than the function\'s own *args passed through' % key)
        kwspec = {x[1]: x for x in cb['args'] if x[0] in ('kw', 'constkw')}
        want_kwargs = any(x[0] == 'kwargs' for x in cb['args'])
        got_kwargs = False
        kwvals = {}
        for k in e.keywords:
            if k.arg is None:
                if not (want_kwargs and isinstance(k.value, ast.Name) and a.kwarg and k.value.id == a.kwarg.arg):
                    self.bad(e, 'callback %s: ** argument other than the function\'s own **kwargs passed through' % key)
                got_kwargs = True
                continue
            if k.arg not in kwspec:
                self.bad(e, 'callback %s: keyword %s is not in the translator specification' % (key, k.arg))
            sp = kwspec[k.arg]
            if sp[0] == 'constkw':
                if not (isinstance(k.value, ast.Constant) and k.value.value == sp[2]):
                    self.bad(e, 'callback %s: keyword %s must be the literal %r' % (key, k.arg, sp[2]))
            else:
                kwvals[k.arg] = self.coerce(self.to_int(self.expr(k.value)), parse_type(sp[2]), e)
            seen_kw.add(k.arg)
        if want_kwargs != got_kwargs or seen_kw != set(kwspec):
            self.bad(e, 'callback %s: keywords differ from the translator specification' % key)
        for x in cb['args']:
            if x[0] == 'kw':
                args.append(kwvals[x[1]])
        rty = parse_type(cb['returns'])
        if cb.get('updates_receiver'):
            rty = ('tuple', rty, args[0].ty)      # (result, the receiver afterwards)
        return self.lift(args, lambda c: '(env.%s%s)' % (name, ''.join(' ' + x for x in c)), rty, result_raises=True)

    # -- statements: terms of type `Py.Flow Locals` ----------------------------------------------------
    def flow_assign(self, build, ex):
        """build(code) is a Locals term; ex may raise"""
        if ex.raises:
            t = self.fresh()
            return '(Py.Flow.eval v %s (fun %s => Py.Flow.next %s))' % (ex.code, t, build(t))
        return '(Py.Flow.next %s)' % build(ex.code)

    def set_local_flow(self, name, ex, node):
        text, raises = FuncCompiler.set_local(self, name, ex, node)
        # FuncCompiler.set_local renders `{ v with x := e }` or `(do let t ← e; pure { v with x := t })`
        if raises:
            m = re.match(r'\(do let (t\d+) ← (.*); pure (\{ v with .* \})\)$', text, re.S)
            return '(Py.Flow.eval v %s (fun %s => Py.Flow.next %s))' % (m.group(2), m.group(1), m.group(3))
        return '(Py.Flow.next %s)' % text

    def fstmt(self, s):
        if isinstance(s, ast.Expr):
            c = s.value
            if isinstance(c, ast.Constant) and isinstance(c.value, str):
                return None
            if isinstance(c, ast.Yield):
                if self.yield_type is None or c.value is None:
                    self.bad(s, 'yield in a function that is not declared a generator / yield without a value')
                x = self.coerce(self.to_int(self.expr(c.value)), self.yield_type, s)
                return self.flow_assign(lambda k: '{ v with py_yields := v.py_yields ++ [%s] }' % k, x)
            if self.callback_of(c) is not None:
                x = self.expr(c)
                cb = self.callbacks[self.callback_of(c)]
                if cb.get('updates_receiver'):
                    # a method that changes its receiver (a bit reader that advances): the new state of the object
                    t = self.fresh()
                    return '(Py.Flow.eval v %s (fun %s => Py.Flow.next { v with %s := %s.2 }))' % (
                        x.code, t, lean_ident(cb['receiver']), t)
                return '(Py.Flow.eval v %s (fun _ => Py.Flow.next v))' % x.code
            if (isinstance(c, ast.Call) and isinstance(c.func, ast.Attribute) and isinstance(c.func.value, ast.Name)
                    and c.func.value.id == 'log' and c.func.attr in ('debug', 'info', 'warning', 'error')
                    and 'log' not in self.names and self.is_module_logger('log')):
                effs = []
                for a in c.args:
                    effs += self.effects(a)
                if effs or c.keywords:
                    self.bad(s, 'log call whose arguments may raise')
                return None       # logging is not modelled
            if isinstance(c, ast.Call) and isinstance(c.func, ast.Name) and c.func.id == 'print' and self.builtin('print'):
                # output is not modelled; the arguments are evaluated (a message cannot raise)
                effs = []
                for a in c.args:
                    effs += self.effects(a)
                for k in c.keywords:
                    if not (k.arg == 'file' and isinstance(k.value, ast.Attribute) and isinstance(k.value.value, ast.Name)
                            and k.value.value.id == 'sys' and k.value.attr in ('stderr', 'stdout')):
                        effs += self.effects(k.value)
                if effs:
                    self.bad(s, 'print() whose arguments may raise')
                return None
            self.bad(s, 'expression statement is not in the table')
        if isinstance(s, ast.Pass):
            return None
        if isinstance(s, ast.Assign) and len(s.targets) == 1:
            tgt = s.targets[0]
            if isinstance(tgt, ast.Name):
                return self.set_local_flow(tgt.id, self.expr(s.value), s)
            if isinstance(tgt, ast.Attribute):
                rf = self.record_field(tgt)
                if rf is None:
                    self.bad(s, 'attribute assignment other than a declared attribute of a local record')
                base, (fld, ty) = rf
                x = self.coerce(self.to_int(self.expr(s.value)), ty, s)
                b = lean_ident(base)
                return self.flow_assign(lambda k: '{ v with %s := { v.%s with %s := %s } }' % (b, b, fld, k), x)
            if isinstance(tgt, ast.Tuple) and all(isinstance(t, ast.Name) for t in tgt.elts):
                x = self.expr(s.value)
                tx = prune(x.ty)
                if isinstance(tx, TV) or tx[0] != 'tuple' or len(tx) - 1 != len(tgt.elts):
                    self.bad(s, 'tuple unpacking of something that is not a tuple of %d elements' % len(tgt.elts))
                n = len(tgt.elts)

                def build(k):
                    out = 'v'
                    for i, t in enumerate(tgt.elts):
                        proj = k + ''.join('.2' for _ in range(i)) + ('.1' if i < n - 1 else '')
                        self.unify(self.local_types[t.id], tx[i + 1], s)
                        out = '{ %s with %s := %s }' % (out, lean_ident(t.id), proj)
                    return out
                if not x.raises:
                    t = self.fresh()
                    return '(let %s := %s; Py.Flow.next %s)' % (t, x.code, build(t))
                return self.flow_assign(build, x)
            self.bad(s, 'assignment target is not in the table')
        if isinstance(s, ast.AugAssign) and isinstance(s.target, ast.Name):
            fake = ast.BinOp(left=ast.Name(id=s.target.id, ctx=ast.Load()), op=s.op, right=s.value)
            ast.copy_location(fake, s)
            ast.copy_location(fake.left, s)
            return self.set_local_flow(s.target.id, self.expr(fake), s)
        if isinstance(s, ast.If):
            c = self.as_bool(self.expr(s.test), s.test)
            a = self.fblock(s.body)
            b = self.fblock(s.orelse) if s.orelse else '(Py.Flow.next v)'
            body = lambda k: '(if %s then\n    %s\n  else\n    %s)' % (k, indent_rest(a, 4), indent_rest(b, 4))
            if c.raises:
                t = self.fresh()
                return '(Py.Flow.eval v %s (fun %s =>\n  %s))' % (c.code, t, indent_rest(body(t), 2))
            return body(c.code)
        if isinstance(s, ast.Return):
            if s.value is not None:
                if not self.fs.get('returns') or self.yield_type is not None:
                    self.bad(s, '`return` with a value in a flow function without a declared result')
                x = self.coerce(self.to_int(self.expr(s.value)), parse_type(self.fs['returns']), s)
                if x.raises:
                    t = self.fresh()
                    return '(Py.Flow.eval v %s (fun %s => Py.Flow.ret { v with py_return := %s }))' % (x.code, t, t)
                return '(Py.Flow.ret { v with py_return := %s })' % x.code
            return '(Py.Flow.ret v)'
        if isinstance(s, ast.Raise):
            if s.cause is None and isinstance(s.exc, ast.Name) and s.exc.id in self.names and prune(self.names[s.exc.id][1]) == EXC:
                return '(Py.Flow.raise %s v)' % self.names[s.exc.id][0]
            text = MethodCompiler.raise_stmt(self, s)
            m = re.match(r'\(Except\.error (\(Py\.Exc\.raised "[^"]*"\))\)$', text)
            if m:
                return '(Py.Flow.raise %s v)' % m.group(1)
            # the arguments are evaluated first, left to right; one of them raising wins
            m = re.match(r'\(do ((?:let _ ← .*?; )+)\(Except\.error (\(Py\.Exc\.raised "[^"]*"\))\)\)$', text, re.S)
            if not m:
                self.bad(s, 'raise form, in a flow function')
            effs = re.findall(r'let _ ← (.*?); (?=let _ ←|$)', m.group(1), re.S)
            out = '(Py.Flow.raise %s v)' % m.group(2)
            for e in reversed(effs):
                out = '(Py.Flow.eval v %s (fun _ => %s))' % (e, out)
            return out
        if isinstance(s, ast.Try):
            return self.ftry(s)
        if isinstance(s, ast.While):
            return self.fwhile(s)
        self.bad(s, 'statement construct %s is not in the table (flow functions)' % type(s).__name__)

    def fblock(self, stmts):
        items = [x for x in (self.fstmt(s) for s in stmts) if x is not None]
        if not items:
            return '(Py.Flow.next v)'
        text = items[-1]
        for it in reversed(items[:-1]):
            text = '(Py.Flow.bind %s (fun (v : Locals) =>\n  %s))' % (indent_rest(it, 2), indent_rest(text, 2))
        return text

    def ftry(self, s):
        if s.orelse or s.finalbody or len(s.handlers) != 1:
            self.bad(s, 'try with else / finally / several handlers')
        h = s.handlers[0]
        if not isinstance(h.type, ast.Name):
            self.bad(s, 'except clause other than `except Cls [as e]:`')
        cname = h.type.id
        if cname in BUILTIN_EXC and self.builtin(cname):
            catches = '(fun e => decide (e = Py.Exc.%s))' % BUILTIN_EXC[cname]
        else:
            if cname in self.names or cname in self.mod.funcs or cname in self.mod.assigns:
                self.bad(s, 'except %s: not a class name' % cname)
            # which exceptions are instances of a class of the library is not modelled: a parameter
            if cname not in self.except_classes:
                self.except_classes.append(cname)
            catches = 'env.isinstance_%s' % cname
        body = self.fblock(s.body)
        if h.name is not None:
            if h.name not in self.local_types:
                self.bad(s, 'internal: exception variable')
            self.unify(self.local_types[h.name], EXC, s)
            hb = self.fblock(h.body)
            handler = '(fun (e : Py.Exc) (v : Locals) =>\n  let v : Locals := { v with %s := e }\n  %s)' % (lean_ident(h.name), indent_rest(hb, 2))
        else:
            handler = '(fun (_ : Py.Exc) (v : Locals) =>\n  %s)' % indent_rest(self.fblock(h.body), 2)
        return '(Py.Flow.tryExcept %s\n  %s\n  %s)' % (indent_rest(body, 2), catches, indent_rest(handler, 2))

    def fwhile(self, s):
        if s.orelse:
            self.bad(s, 'while ... else')
        for n in ast.walk(s):
            if isinstance(n, (ast.Break, ast.Continue)):
                self.bad(n, 'break / continue')
        t = s.test
        if not (isinstance(t, ast.Compare) and len(t.ops) == 1 and isinstance(t.ops[0], (ast.Lt, ast.LtE))):
            self.bad(s, 'while loop whose test is not `a < b` or `a <= b` (no fuel expression can be derived)')
        lo, hi = self.expr(t.left), self.expr(t.comparators[0])
        if lo.raises or hi.raises or self.kind(lo, t) not in ('int', 'nat') or self.kind(hi, t) not in ('int', 'nat'):
            self.bad(s, 'while loop test over non-int or raising expressions')
        extra = 1 if isinstance(t.ops[0], ast.Lt) else 2
        if prune(lo.ty) == NAT and prune(hi.ty) == NAT:
            fuel = '(%s - %s + %d)' % (hi.code, lo.code, extra)
        else:
            fuel = '((%s - %s).toNat + %d)' % (self.to_int(hi).code, self.to_int(lo).code, extra)
        cond = self.as_bool(self.expr(t), t)
        if cond.raises:
            self.bad(s, 'while loop test that may raise')
        body = self.fblock(s.body)
        self.nloops += 1
        name = 'while_%d' % self.nloops
        a, b, _ = self.mod.src(s)
        out = ['/-- %s:%d-%d  test of the `while` loop -/' % (self.mod.relpath, a, b),
               'def %s.cond (env : Env) (v : Locals) : Bool :=\n  %s' % (name, indent_rest(cond.code, 2)),
               '/-- %s:%d-%d  body of the `while` loop -/' % (self.mod.relpath, s.body[0].lineno, b),
               'def %s.body (env : Env) (v : Locals) : Py.Flow Locals :=\n  %s' % (name, indent_rest(body, 2)),
               '/-- the loop: structural recursion on the fuel; out of fuel is the explicit error `.outOfFuel` -/',
               'def %s.loop (env : Env) : Nat → Locals → Py.Flow Locals' % name,
               '  | 0, v => .raise .outOfFuel v',
               '  | fuel + 1, v =>',
               '    if %s.cond env v then' % name,
               '      match %s.body env v with' % name,
               '      | .next v => %s.loop env fuel v' % name,
               '      | .ret v => .ret v',
               '      | .raise e v => .raise e v',
               '    else .next v']
        self.aux.append('\n'.join(out))
        return '(%s.loop env %s v)' % (name, fuel)

    def collect_locals(self):
        names = FuncCompiler.collect_locals(self)
        for n in ast.walk(self.node):
            if isinstance(n, ast.ExceptHandler) and n.name and n.name not in names and n.name not in self.params:
                names.append(n.name)
        return names

    def definite_other(self, s, assigned):
        if isinstance(s, ast.Try):
            a = self.definite(s.body, assigned)
            for h in s.handlers:
                b = self.definite(h.body, set(assigned) | ({h.name} if h.name else set()))
                a = a & (b - ({h.name} if h.name else set()))
            return a
        return MethodCompiler.definite_other(self, s, assigned)

    def tail(self, stmts):
        return self.fblock(stmts), True

    def compile(self):
        # parameters that are declared "ignored" (passed through to callbacks only) are removed from the signature check
        node = self.node
        a = node.args
        argnames = [x.arg for x in a.args if x.arg not in self.ignored]
        if argnames != list(self.params) or a.kwonlyargs or a.posonlyargs or node.decorator_list:
            self.bad(node, 'parameters %s differ from the translator specification %s' % (argnames, list(self.params)))
        for nm in self.ignored:
            for n in ast.walk(node):
                if isinstance(n, ast.Name) and n.id == nm.lstrip('*') and isinstance(n.ctx, ast.Load):
                    ok = any(n is c or n is getattr(c, 'value', None) for c in ast.walk(node)
                             if isinstance(c, (ast.Starred, ast.keyword)))
                    par = self.parent_of(n)
                    okcb = isinstance(par, ast.Attribute) and self.is_callback_func(par)
                    if not ok and not okcb:
                        self.bad(n, 'the ignored parameter %s is used other than by passing it to a callback' % nm)
        for d in a.defaults:
            if not isinstance(d, ast.Constant):
                self.bad(node, 'non-literal default value')
        local_names = self.collect_locals()
        self.local_types = {n: self.initial_local_type(n) for n in local_names}
        self.nat_locals = set()
        self.definite(self.body_stmts(), set(self.params))
        self.run(local_names)
        self.run(local_names)
        for n in local_names:
            if not resolved(self.local_types[n]):
                self.bad(node, 'cannot infer the type of local variable %s' % n)
        text, _ = self.run(local_names)
        return local_names, text, True

    def parent_of(self, n):
        for c in ast.walk(self.node):
            for ch in ast.iter_child_nodes(c):
                if ch is n:
                    return c
        return None

    def is_callback_func(self, attr):
        try:
            return ast.unparse(attr) in self.callbacks
        except Exception:
            return False

    def render(self, doc):
        local_names, text, _ = self.compile()
        ns = self.lean_name
        fields = [(lean_ident(p), lean_type(t), lean_ident(p)) for p, t in self.params.items()]
        for n in local_names:
            t = self.local_types[n]
            fields.append((lean_ident(n), lean_type(t), default_value(t)))
        if self.yield_type is not None:
            fields.append(('py_yields', 'List %s' % lean_type(self.yield_type, False), '[]'))
        elif self.fs.get('returns'):
            rt0 = parse_type(self.fs['returns'])
            fields.append(('py_return', lean_type(rt0), default_value(rt0)))
        out = ['namespace %s' % ns,
               '/-- the code this function calls that is NOT translated, as parameters (the theorems quantify over them); a',
               '    callback is a function of the arguments listed in the translator specification that returns or raises;',
               '    `isinstance_<Cls>`: which exceptions an `except <Cls>` clause catches -/',
               'structure Env where']
        for key in self.used_callbacks:
            cb = self.callbacks[key]
            tys = []
            if cb.get('receiver'):
                tys.append(lean_type(prune(self.names[cb['receiver']][1])[1] if self.is_opt(Ex('', self.names[cb['receiver']][1])) else self.names[cb['receiver']][1], False))
            tys += [lean_type(parse_type(x[1]), False) for x in cb['args'] if x[0] == 'pos']
            tys += [lean_type(parse_type(x[2]), False) for x in cb['args'] if x[0] == 'kw']
            out.append('  /-- `%s(...)` -/' % key)
            rt = lean_type(parse_type(cb['returns']), False)
            if cb.get('updates_receiver'):
                rt = '(%s × %s)' % (rt, tys[0])
            out.append('  %s : %s' % (cb['lean'], ' → '.join(tys + ['Except Py.Exc %s' % rt])))
        for c in self.except_classes:
            out.append('  /-- `except %s`: is the exception an instance of that class -/' % c)
            out.append('  isinstance_%s : Py.Exc → Bool' % c)
        out.append('')
        out.append('/-- the variables of `%s` (parameters first)%s -/' % (self.node.name, '; `py_yields`: the values yielded so far' if self.yield_type else ''))
        out.append('structure Locals where')
        for f, t, _ in fields:
            out.append('  %s : %s' % (f, t))
        out.append('')
        for a in self.aux:
            out.append(a)
            out.append('')
        out.append('end %s' % ns)
        out.append('')
        out.append('open %s in' % ns)
        out.append(doc)
        params_sig = ' (env : %s.Env)' % ns + ''.join(' (%s : %s)' % (lean_ident(p), lean_type(t)) for p, t in self.params.items())
        init = ', '.join('%s := %s' % (f, d) for f, _, d in fields)
        if self.yield_type is not None:
            rty = 'List %s × Except Py.Exc Unit' % lean_type(self.yield_type, False)
            fin = '((Py.Flow.finish r).1.py_yields, (Py.Flow.finish r).2)'
        elif self.fs.get('returns'):
            # the final variables (the parameter objects as the code left them, `py_return`: the value returned) and how it ended
            rty = '%s.Locals × Except Py.Exc Unit' % ns
            fin = 'Py.Flow.finish r'
        else:
            rty = 'Except Py.Exc Unit'
            fin = '(Py.Flow.finish r).2'
        out.append('def %s%s : %s :=\n  let v : Locals := { %s }\n  let r : Py.Flow Locals := %s\n  %s' % (
            ns, params_sig, rty, init, indent_rest(text, 2), fin))
        return '\n'.join(out), True


def render_flow(gen, spec, func_texts):
    mod = gen.mod
    records = {}
    for rname, rs in spec.get('records', {}).items():
        NAMED_KIND[rname] = 'record'
        flds = {}
        st = ['/-- what the translated code reads or assigns of a `%s` object (attribute paths of the Python object; `other`:' % rname,
              '    everything else about it) -/', 'structure %s where' % rname]
        for path, ty in rs['fields'].items():
            fld = lean_ident(path.replace('.', '_'))
            flds[path] = (fld, parse_type(ty))
            st.append('  /-- `.%s` -/' % path)
            st.append('  %s : %s' % (fld, lean_type(parse_type(ty))))
        st.append('  other : Py.Obj')
        st.append('  deriving DecidableEq, Repr, Inhabited')
        records[rname] = flds
        func_texts.append('\n'.join(st))
    for fname, fs in spec.get('flowfuncs', {}).items():
        if fs.get('class'):
            # a method (`self` must be among the ignored parameters), possibly only its trailing statements ('fragment_from')
            cnodes = mod.classes.get(fs['class'], [])
            nodes = [n for c in cnodes for n in c.body if isinstance(n, ast.FunctionDef) and n.name == fs['method']] if len(cnodes) == 1 else []
        else:
            nodes = mod.funcs.get(fname, [])
        if len(nodes) != 1:
            raise Py2LeanUnsupported(mod.relpath, 0, 'function %s not found exactly once' % fname)
        node = nodes[0]
        params = {p: parse_type(t) for p, t in fs['params'].items()}
        fc = FlowCompiler(mod, gen, node, lean_ident(fname), params, fs, records)
        a, b, _ = mod.src(node)
        if fs.get('fragment_from'):
            a = fc.body_stmts()[0].lineno
            doc = '/-- %s:%d-%d  the statements of `%s.%s` from `%s` to its end -/' % (
                mod.relpath, a, b, fs['class'], fs['method'], fs['fragment_from'])
        else:
            doc = '/-- %s:%d-%d  `def %s` -/' % (mod.relpath, a, b, fname)
        text, _ = fc.render(doc)
        func_texts.append(text)
        gen.items.append({'kind': 'function', 'name': fname, 'lines': [a, b], 'may_raise': True})


# =============================================================================================
class ModuleGen(object):
    """the generated Lean file of one Python module"""

    def __init__(self, spec):
        self.spec = spec
        self.mod = ModuleCtx(spec['file'])
        self.const_order = []
        self.const_types = {}
        self.const_text = {}
        self.in_progress = set()
        self.items = []      # manifest

    def require_const(self, name, at):
        if name in self.const_types:
            return self.const_types[name]
        if name in self.in_progress:
            raise Py2LeanUnsupported(self.mod.relpath, at, 'cyclic module-level constant %s' % name)
        if name not in self.mod.assigns:
            ty = self.imported_const(name, at)      # (w5-codersrc) `from pybufrkit.<module> import NAME`
            if ty is not None:
                return ty
        node = self.mod.const_node(name, at)
        self.in_progress.add(name)
        ec = ExprCompiler(self.mod, self)
        ex = ec.expr(node.value)
        if ex.raises:
            raise Py2LeanUnsupported(self.mod.relpath, node, 'module-level constant %s whose value may raise' % name)
        ex = ec.to_int(ex)   # module constants are Int, never Nat (the type does not depend on the value)
        if not resolved(ex.ty):
            raise Py2LeanUnsupported(self.mod.relpath, node, 'cannot infer the type of %s' % name)
        self.in_progress.discard(name)
        a, b, src = self.mod.src(node)
        doc = '/-- %s:%s  `%s` -/' % (self.mod.relpath, a if a == b else '%d-%d' % (a, b), src.replace('-/', '- /').replace('\n', ' ⏎ '))
        self.const_text[name] = '%s\ndef %s : %s := %s' % (doc, lean_ident(name), lean_type(ex.ty), ex.code)
        self.const_types[name] = ex.ty
        self.const_order.append(name)
        self.items.append({'kind': 'const', 'name': name, 'lines': [a, b]})
        return ex.ty

    def imported_const(self, name, at):
        """(w5-codersrc) a constant imported by `from pybufrkit.<module> import NAME` from a module that has its own
        generated file, where NAME is one of the constants listed for that module in SPEC: the generated file of this
        module imports that generated file and opens the name (the constant is translated once, in its own file)"""
        for spec2 in SPEC:
            if spec2 is self.spec or name not in spec2.get('consts', []):
                continue
            if not module_imports(self.mod, 'pybufrkit.' + spec2['module'], name):
                continue
            ty = ModuleGen(spec2).require_const(name, at)
            if not hasattr(self, 'opened'):
                self.opened = {}
            self.opened.setdefault(spec2['module'], (gen_module_name(spec2), []))[1].append(name)
            self.const_types[name] = ty
            return ty
        return None

    def require_imported_const(self, name, module, at):
        """a constant imported with `from pybufrkit.<m> import NAME`: translated from the source of that module"""
        if name in self.const_types:
            return self.const_types[name]
        other = ModuleCtx(module.replace('.', '/') + '.py')
        node = other.const_node(name, at)
        ec = ExprCompiler(other, self)
        ex = ec.to_int(ec.expr(node.value))
        if ex.raises or not resolved(ex.ty):
            raise Py2LeanUnsupported(other.relpath, node, 'imported constant %s is not a plain value' % name)
        a, b, src = other.src(node)
        doc = '/-- %s:%s  `%s`  (imported into %s) -/' % (other.relpath, a, src.replace('-/', '- /').replace('\n', ' ⏎ '), self.mod.relpath)
        self.const_text[name] = '%s\ndef %s : %s := %s' % (doc, lean_ident(name), lean_type(ex.ty), ex.code)
        self.const_types[name] = ex.ty
        self.const_order.append(name)
        self.items.append({'kind': 'const', 'name': name, 'lines': [a, b], 'file': other.relpath, 'blob': other.blob})
        return ex.ty

    def render(self):
        spec = self.spec
        for name in spec.get('consts', []):
            self.require_const(name, 0)
        func_texts = []
        for fname, fs in spec.get('funcs', {}).items():
            nodes = self.mod.funcs.get(fname, [])
            if len(nodes) != 1:
                raise Py2LeanUnsupported(self.mod.relpath, 0, 'function %s not found exactly once' % fname)
            node = nodes[0]
            params = {p: parse_type(t) for p, t in fs['params'].items()}
            fc = compiler_class(fs)(self.mod, self, node, lean_ident(fname), params,
                                    returns=parse_type(fs['returns']) if fs.get('returns') else None,
                                    recursive=bool(fs.get('recursive')))
            fc.spec = fs
            a, b, _ = self.mod.src(node)
            doc = '/-- %s:%d-%d  `def %s` -/' % (self.mod.relpath, a, b, fname)
            text, raises = fc.render(doc)
            func_texts.append(text)
            self.items.append({'kind': 'function', 'name': fname, 'lines': [a, b], 'may_raise': raises})
        NAMED_KIND.clear()
        render_named(self, spec, func_texts)      # namedtuples and stateful classes (block "stateful classes" below)
        if spec.get('small_records'):             # w5-smallsrc: abstract records of objects that are only read
            from harness import py2lean_small
            py2lean_small.render_small_records(self, spec, func_texts)
        render_flow(self, spec, func_texts)       # records, functions in flow style (block "flow" below)
        for cname, cs in spec.get('classes', {}).items():
            if cs.get('stateful'):
                continue
            cnodes = self.mod.classes.get(cname, [])
            if len(cnodes) != 1:
                raise Py2LeanUnsupported(self.mod.relpath, 0, 'class %s not found exactly once' % cname)
            cnode = cnodes[0]
            attrs = {k: parse_type(v) for k, v in cs['attrs'].items()}
            methods = {}
            for n in cnode.body:
                if isinstance(n, ast.FunctionDef):
                    methods.setdefault(n.name, []).append(n)
            texts, used = [], set()
            for mname, ms in cs['methods'].items():
                if len(methods.get(mname, [])) != 1:
                    raise Py2LeanUnsupported(self.mod.relpath, cnode, 'method %s.%s not found exactly once' % (cname, mname))
                node = methods[mname][0]
                params = {p: parse_type(t) for p, t in ms.get('params', {}).items()}
                fc = compiler_class(ms)(self.mod, self, node, '%s.%s' % (cname, lean_ident(mname)), params, self_attrs=attrs,
                                        returns=parse_type(ms['returns']) if ms.get('returns') else None)
                fc.spec = ms
                a, b, _ = self.mod.src(node)
                doc = '/-- %s:%d-%d  `%s.%s` -/' % (self.mod.relpath, a, b, cname, mname)
                text, raises = fc.render(doc)
                used |= fc.used_attrs
                texts.append(text)
                self.items.append({'kind': 'method', 'name': '%s.%s' % (cname, mname), 'lines': [a, b], 'may_raise': raises})
            st = ['/-- the attributes of a `%s` instance that the translated methods read -/' % cname,
                  'structure %s.Self where' % cname]
            for k in cs['attrs']:
                st.append('  %s : %s' % (lean_ident(k), lean_type(attrs[k])))
            func_texts.append('\n'.join(st))
            func_texts.extend(texts)
        if spec.get('tree_walk'):                               # w5-smallsrc: descriptors.flat_member_ids
            from harness import py2lean_small
            py2lean_small.render_tree_walk(self, spec, func_texts)
        if spec.get('queue_walk'):                              # w5-smallsrc: BufrTemplate.original_descriptor_ids
            from harness import py2lean_small
            py2lean_small.render_queue_walk(self, spec, func_texts)
        if spec.get('iter_builder'):                            # w5-smallsrc: tables.py template builder
            from harness import py2lean_small
            py2lean_small.render_iter_builder(self, spec, func_texts)
        if spec.get('small_methods'):                           # w5-smallsrc: read-only methods
            from harness import py2lean_small
            py2lean_small.render_small_methods(self, spec, func_texts)
        for fname, fs in spec.get('fragments', {}).items():     # w5-smallsrc: harness/py2lean_small.py
            from harness import py2lean_small
            text, item = py2lean_small.render_fragment(self, fname, fs)
            func_texts.append(text)
            self.items.append(item)
        if spec.get('state'):
            # (w5-codersrc) procedures on objects with mutable attributes: harness/py2lean_state.py
            from harness import py2lean_state
            func_texts.extend(py2lean_state.render_state(self, py2lean_state.STATE_SPECS[spec['state']]))
        head = ['/- GENERATED by harness/py2lean.py from %s — do not edit; rewritten on every check.' % spec['file'],
                '   git blob of the source file: %s' % self.mod.blob,
                '   Python constructs and their Lean renderings: notes/Tie.md. -/',
                'import BufrModel.Gen.PyPrelude'] + ['import %s' % m for m in spec.get('imports', [])] + [
                'set_option linter.unusedVariables false',
                'namespace PyGen.%s' % spec['module'], '']
        for m2, (gm, names) in sorted(getattr(self, 'opened', {}).items()):   # (w5-codersrc) imported constants
            head.insert(head.index('import BufrModel.Gen.PyPrelude') + 1, 'import %s' % gm)
            if names:
                head.insert(len(head) - 1, 'open PyGen.%s (%s)' % (m2, ' '.join(lean_ident(n) for n in names)))
        body = []
        for name in self.const_order:
            body.append(self.const_text[name])
            body.append('')
        for t in func_texts:
            body.append(t)
            body.append('')
        tail = ['end PyGen.%s' % spec['module']]
        for it in self.items:
            it.setdefault('file', spec['file'])
            it.setdefault('blob', self.mod.blob)
            it['gen_module'] = gen_module_name(spec)
        return '\n'.join(head + body + tail) + '\n'


def compiler_class(fs):
    """the statement compiler of one SPEC entry: FuncCompiler, or its extension for the small functions"""
    if fs.get('compiler') == 'small':
        from harness import py2lean_small
        return py2lean_small.SmallCompiler
    return FuncCompiler


def gen_module_name(spec):
    return 'BufrModel.Gen.Py' + spec['module'][0].upper() + spec['module'][1:]


def gen_path(spec):
    return os.path.join(GEN_DIR, 'Py' + spec['module'][0].upper() + spec['module'][1:] + '.lean')


def failed_file(spec, err):
    """what is written when the translation of a module fails: a file that does not compile and says why"""
    msg = str(err).replace('"', "'").replace('\\', '/')
    return '\n'.join([
        '/- GENERATED by harness/py2lean.py from %s — TRANSLATION FAILED.' % spec['file'],
        '   The Python source uses a construct outside the translated subset (notes/Tie.md), or a translated',
        '   name has disappeared.  This file deliberately does not compile, so that every theorem that rests on',
        '   the generated definitions is reported as a broken proof obligation instead of being checked against',
        '   stale output. -/',
        'import BufrModel.Gen.PyPrelude',
        'namespace PyGen.%s' % spec['module'],
        '',
        '/-- Py2LeanUnsupported -/',
        'def py2lean_unsupported : False := "%s"' % msg,
        '',
        'end PyGen.%s' % spec['module'], ''])


_LAST = {'items': [], 'errors': []}


def render_all():
    """[(spec, path, text, items, error)]"""
    out = []
    for spec in SPEC:
        try:
            g = ModuleGen(spec)
            text = g.render()
            out.append((spec, gen_path(spec), text, g.items, None))
        except Py2LeanUnsupported as e:
            out.append((spec, gen_path(spec), failed_file(spec, e), [], e))
        except Exception as e:   # pragma: no cover
            # an internal error of the translator on an unforeseen source shape is a failed translation too
            # (broken tie, exit 1), never a silent fall-back to the previous output
            err = Py2LeanUnsupported(spec['file'], 0, 'translator internal error: %s: %s' % (type(e).__name__, e))
            out.append((spec, gen_path(spec), failed_file(spec, err), [], err))
    return out


def regenerate():
    """Write the generated files (only when the content changes).  Returns True when something changed."""
    changed = False
    items, errors = [], []
    for spec, path, text, its, err in render_all():
        old = None
        if os.path.exists(path):
            with open(path) as f:
                old = f.read()
        if old != text:
            with open(path, 'w') as f:
                f.write(text)
            changed = True
        items += its
        if err is not None:
            errors.append({'gen_module': gen_module_name(spec), 'file': spec['file'], 'line': err.line, 'what': err.what})
    _LAST['items'], _LAST['errors'] = items, errors
    return changed


def manifest():
    """what was translated at the last `regenerate()` of this process (computed when there was none)"""
    if not _LAST['items'] and not _LAST['errors']:
        items, errors = [], []
        for spec, path, text, its, err in render_all():
            items += its
            if err is not None:
                errors.append({'gen_module': gen_module_name(spec), 'file': spec['file'], 'line': err.line, 'what': err.what})
        _LAST['items'], _LAST['errors'] = items, errors
    return _LAST


def main():
    check = '--check' in sys.argv
    bad = 0
    for spec, path, text, its, err in render_all():
        old = open(path).read() if os.path.exists(path) else None
        status = 'FAILED: %s' % err if err else '%d items' % len(its)
        if check:
            print('%-40s %s%s' % (os.path.relpath(path, VERIF), status, '' if old == text else '  (differs from the file on disk)'))
            bad += (old != text) or bool(err)
        else:
            if old != text:
                with open(path, 'w') as f:
                    f.write(text)
            print('%-40s %s%s' % (os.path.relpath(path, VERIF), status, '' if old == text else '  (written)'))
            bad += bool(err)
    sys.exit(1 if bad else 0)


if __name__ == '__main__':
    # run the module under its import name, so that the extension modules (py2lean_small, py2lean_state), which
    # import `harness.py2lean`, see the same classes
    from harness import py2lean as _canonical
    _canonical.main()
