"""
Planted-mutation self-test for C13:  VERIF_REPO=<scratch worktree of pybufrkit> python -m harness.selftest_c13 [name ...]

Every mutation is applied to the scratch worktree named by VERIF_REPO (never to /repo), the quick check is run, the
outcome (exit code, first VIOLATION lines) is recorded and the worktree is restored with `git checkout -- .`.
A mutation counts as caught when the check exits 1 and prints a VIOLATION line.
"""
import os
import subprocess
import sys

VERIF = os.path.dirname(os.path.dirname(os.path.abspath(__file__)))
REPO = os.environ.get('VERIF_REPO', '')

MUTATIONS = [
    ('evicted-group-reused', 'pybufrkit/tables.py',
     # after an eviction the evicted group object is stored under the new key (wrong tables returned after eviction)
     [("""                for _ in range(len(self._groups) + 1 - MAXIMUM_NUMBER_OF_CACHED_TABLE_GROUPS):
                    self._groups.popitem()
""", """                for _ in range(len(self._groups) + 1 - MAXIMUM_NUMBER_OF_CACHED_TABLE_GROUPS):
                    _, evicted = self._groups.popitem()
                self._groups[table_group_key] = evicted
                return evicted
""")]),
    ('evict-oldest-instead-of-newest', 'pybufrkit/tables.py',
     # FIFO eviction instead of popitem's LIFO: results stay right, only the model/implementation tie can see it
     [("""                    self._groups.popitem()
""", """                    del self._groups[next(iter(self._groups))]
""")]),
    ('compiled-key-without-table-group', 'pybufrkit/templatecompiler.py',
     [("""        key_of_compiled_template = (
            tuple(template.original_descriptor_ids),
            table_group.key,
            TableGroupCacheManager.extra_entries_generation()
        )
""", """        key_of_compiled_template = tuple(template.original_descriptor_ids)
""")]),
    ('compiled-cache-unbounded', 'pybufrkit/templatecompiler.py',
     [("""                if len(self.cache) >= self.cache_max:
                    self.cache.popitem()
""", """                if len(self.cache) > self.cache_max:
                    self.cache.popitem()
""")]),
    ('wired-flag-never-set', 'pybufrkit/templatedata.py',
     [("""        self._is_wired = True

    def _wire_all_subsets""", """        self._is_wired = False

    def _wire_all_subsets""")]),
    ('wired-flag-set-before-wiring', 'pybufrkit/templatedata.py',
     # the defect that was fixed (F14c13), planted again
     [("""        try:
            self._wire_all_subsets()
        except Exception:""", """        self._is_wired = True
        try:
            self._wire_all_subsets()
        except ZeroDivisionError:""")]),
    ('associated-stack-shared-between-messages', 'pybufrkit/coder.py',
     # a coder register that lives on the class: survives into the next message when a decode dies inside a 204 block
     [("""        self.nbits_of_associated = []  # 204
""", """        self.nbits_of_associated = CoderState._ASSOC  # 204
"""), ("""class CoderState(object):
""", """class CoderState(object):
    _ASSOC = []
""")]),
    ('operator-width-written-into-cached-descriptor', 'pybufrkit/coder.py',
     # 201YYY applied by mutating the shared, cached Table B descriptor
     [("""            nbits = (descriptor.nbits +
                     state.nbits_offset +
                     state.bsr_modifier.nbits_increment)
""", """            if state.nbits_offset:
                descriptor.nbits += state.nbits_offset
                nbits = descriptor.nbits + state.bsr_modifier.nbits_increment
            else:
                nbits = (descriptor.nbits +
                         state.nbits_offset +
                         state.bsr_modifier.nbits_increment)
""")]),
    ('decoder-remembers-template', 'pybufrkit/decoder.py',
     # a hidden per-decoder memo of the template keyed by the descriptor list only (ignores the table version)
     [("""        bufr_template, table_group = bufr_message.build_template(self.tables_root_dir, normalize=1)
""", """        bufr_template, table_group = bufr_message.build_template(self.tables_root_dir, normalize=1)
        memo = self.__dict__.setdefault('_template_memo', {})
        bufr_template = memo.setdefault(tuple(bufr_message.unexpanded_descriptors.value), bufr_template)
""")]),
    ('new-refvals-kept-on-decoder', 'pybufrkit/decoder.py',
     # 203YYY reference values carried over to the next message handled by the same decoder
     [("""        state = CoderState(bufr_message.is_compressed.value, bufr_message.n_subsets.value)
""", """        state = CoderState(bufr_message.is_compressed.value, bufr_message.n_subsets.value)
        if bufr_message.is_compressed.value:
            state.new_refvals = self.__dict__.setdefault('_refvals', {})
""")]),
]


def sh(cmd, **kw):
    return subprocess.run(cmd, stdout=subprocess.PIPE, stderr=subprocess.STDOUT, text=True, **kw)


def main():
    if not REPO or os.path.realpath(REPO) == os.path.realpath('/repo'):
        print('set VERIF_REPO to a scratch worktree (never /repo)')
        sys.exit(2)
    if sh(['git', '-C', REPO, 'status', '--porcelain']).stdout.strip():
        print('scratch worktree is not clean')
        sys.exit(2)
    want = sys.argv[1:]
    results = []
    for name, path, edits in MUTATIONS:
        if want and name not in want:
            continue
        full = os.path.join(REPO, path)
        src = open(full).read()
        new = src
        ok = True
        for old, rep in edits:
            if new.count(old) != 1:
                ok = False
            new = new.replace(old, rep)
        if not ok:
            results.append((name, 'NOT-APPLICABLE (source text not found exactly once)', ''))
            print('%-48s %s\n    %s' % results[-1])
            continue
        try:
            open(full, 'w').write(new)
            p = sh([os.path.join(VERIF, 'check'), 'C13', '--tier', 'quick'], cwd=VERIF, env=dict(os.environ, VERIF_REPO=REPO))
            lines = p.stdout.split('\n')
            viol = [l for l in lines if l.startswith('VIOLATION')]
            first = next((lines[i + 1].strip() for i, l in enumerate(lines) if l.startswith('VIOLATION') and i + 1 < len(lines)), '')
            caught = p.returncode == 1 and bool(viol)
            results.append((name, 'CAUGHT' if caught else 'MISSED (exit %d)' % p.returncode, '%d violation line(s); first: %s' % (len(viol), first[:260])))
        finally:
            sh(['git', '-C', REPO, 'checkout', '--', '.'])
        print('%-48s %s\n    %s' % results[-1])
        sys.stdout.flush()
    missed = [r for r in results if not r[1].startswith('CAUGHT')]
    print('%d mutations, %d caught' % (len(results), len(results) - len(missed)))
    sys.exit(1 if missed else 0)


if __name__ == '__main__':
    main()
