"""
Cross-table-version input families (used by C13 and C07).

A coder / renderer / querent object that is re-used must not carry anything from a message of one table group into a
message of another.  What such a carry-over can get wrong are exactly the descriptors whose DEFINITION differs between
the two table groups.  This module derives them mechanically from the bundled tables (nothing is listed by hand):

  * `bundled_groups()`      every table group the tables directory of /repo can give: one per master table version
                            and, for every local directory <centre>_<subcentre>/<version>, one per master version of
                            LOCAL_MASTERS;
  * `element_variants()`    element id -> {coding (unit kind, scale, reference, width) -> groups}, ids with >= 2 codings;
  * `label_variants()`      element id -> {name/unit text -> groups} (what the text renderers print);
  * `sequence_variants()`   Table D id -> {flattened expansion with codings -> groups}, ids with >= 2 expansions
                            (the member list differs, or a member element is defined differently);

and builds FAMILIES from them: one template that uses such a descriptor in a construct in which a stale definition
does harm (marker operators 223255 / 224255 / 225255 / 232255 over the bit-mapped element, class 33 values after
222000, chains re-using the bit-map with 237000, associated fields, 203YYY reference values, 201 / 202 / 207 / 208,
fixed and delayed replication, Table D sequences), encoded once per table group (2-3 groups per family in which the
descriptor is defined differently).  Values come from the MODEL's walk in generate mode under the tables of each group;
every member is encoded and decoded by the implementation with FRESH objects and compared with the model
(`enc-data` / `dec-data` under the same tables) - that is the stateless reference the re-use histories are held against.
"""
import json
import os

from harness import core, tables_io
from harness import coder_io as C
from harness import coderprops as P

LOCAL_MASTERS = (13, 33)
MARKERS = (223, 224, 225, 232)


# ---------------------------------------------------------------------------------------------
# what the bundled tables define
class Group(object):
    __slots__ = ('name', 'wmo', 'local', 'sec1', 'b', 'd')

    def __init__(self, master, version, local):
        self.wmo = (str(master), '0_0', str(version))
        self.local = local
        self.name = 'v%d' % version + ('+%s/%s' % (local[1], local[2]) if local else '')
        self.sec1 = {'master_table_number': int(master), 'master_table_version': int(version), 'local_table_version': 0,
                     'originating_centre': 98, 'originating_subcentre': 0}
        if local:
            c, s = local[1].split('_')
            self.sec1.update(originating_centre=int(c), originating_subcentre=int(s), local_table_version=int(local[2]))
        self.b = self.d = None

    def load(self):
        if self.b is None:
            self.b, self.d = tables_io.read_group(self.wmo, self.local)
        return self

    def request(self):
        self.load()
        return tables_io.tables_request(self.b, self.d)


def bundled_groups():
    root = tables_io.tables_root()
    out = []
    for m in sorted(x for x in os.listdir(root) if x.isdigit()):
        wmo = os.path.join(root, m, '0_0')
        if not os.path.isdir(wmo):
            continue
        versions = sorted(int(x) for x in os.listdir(wmo) if x.isdigit())
        for v in versions:
            out.append(Group(m, v, None))
        for cs in sorted(os.listdir(os.path.join(root, m))):
            if cs == '0_0' or '_' not in cs:
                continue
            for lv in sorted((x for x in os.listdir(os.path.join(root, m, cs)) if x.isdigit()), key=int):
                if int(lv) == 0 or int(lv) > 255:
                    continue
                for v in LOCAL_MASTERS:
                    if v in versions:
                        out.append(Group(m, v, (m, cs, lv)))
    return out


def coding(e):
    return (tables_io.unit_kind(e[1]), int(e[2]), int(e[3]), int(e[4]))


def element_variants(groups):
    var = {}
    for g in groups:
        for i, e in g.load().b.items():
            var.setdefault(i, {}).setdefault(coding(e), []).append(g.name)
    return {i: v for i, v in var.items() if len(v) >= 2}


def label_variants(groups):
    var = {}
    for g in groups:
        for i, e in g.load().b.items():
            var.setdefault(i, {}).setdefault((e[0], e[1]), []).append(g.name)
    return {i: v for i, v in var.items() if len(v) >= 2}


def expansion(g, sid, depth=0, budget=None):
    """flattened expansion of a Table D row under the tables of `g` as a tuple of (id, coding) / ('rep', id) entries;
    None when the row is not a plain one (operators, delayed replication, undefined members, long)"""
    budget = budget if budget is not None else [40]
    if depth > 6 or sid not in g.d:
        return None
    out = []
    for m in g.d[sid][1]:
        m = int(m)
        f = m // 100000
        if f == 3:
            sub = expansion(g, m, depth + 1, budget)
            if sub is None:
                return None
            out.extend(sub)
        elif f == 2:
            return None
        elif f == 1:
            if m % 1000 == 0 or m % 1000 > 3:
                return None
            out.append(('rep', m))
        else:
            if m not in g.b or m // 1000 == 31:
                return None
            budget[0] -= 1
            if budget[0] < 0:
                return None
            out.append((m, coding(g.b[m])))
    return tuple(out)


def sequence_variants(groups):
    var = {}
    for g in groups:
        g.load()
        for sid in g.d:
            ex = expansion(g, sid)
            var.setdefault(sid, {}).setdefault(ex, []).append(g.name)
    out = {}
    for sid, v in var.items():
        v = {k: gs for k, gs in v.items() if k is not None}
        if len(v) >= 2:
            out[sid] = v
    return out


def change_class(c1, c2):
    return '+'.join(n for n, a, b in zip(('kind', 'scale', 'ref', 'nbits'), c1, c2) if a != b)


# ---------------------------------------------------------------------------------------------
class Catalogue(object):
    """everything derived from the tables, computed once per run"""

    def __init__(self):
        self.groups = bundled_groups()
        self.by_name = {g.name: g for g in self.groups}
        self.elements = element_variants(self.groups)
        self.labels = label_variants(self.groups)
        self.sequences = sequence_variants(self.groups)
        # pairs (id, coding A, coding B) by class of change, so that the rare classes (width, scale, reference) are not
        # drowned by the frequent one (unit text of code tables changed in one version step)
        self.by_class = {}
        for i, v in sorted(self.elements.items()):
            cods = sorted(v)
            for a in range(len(cods)):
                for b in range(a + 1, len(cods)):
                    self.by_class.setdefault(change_class(cods[a], cods[b]), []).append((i, cods[a], cods[b]))

    def summary(self):
        return {'table-groups': len(self.groups), 'elements-with-2+-codings': len(self.elements),
                'elements-with-2+-labels': len(self.labels), 'sequences-with-2+-expansions': len(self.sequences),
                'change-classes': {k: len(v) for k, v in sorted(self.by_class.items())}}

    def stable(self, gs, rng, k, kinds='nc', maxbits=24):
        """`k` element ids that every group of `gs` defines in the same way (fillers around the element under test)"""
        first = gs[0].load().b
        pool = []
        for i in sorted(first):
            if i // 1000 in (0, 31, 33) or i in self.elements:
                continue
            c = coding(first[i])
            if c[0] not in kinds or not (1 <= c[3] <= maxbits) or (c[0] == 's' and c[3] % 8):
                continue
            if all(i in g.load().b and coding(g.b[i]) == c for g in gs[1:]):
                pool.append(i)
        if not pool:
            raise core.MachineryError('no element common to the table groups %s' % [g.name for g in gs])
        return [rng.choice(pool) for _ in range(k)]


SHAPES = ('marker', 'marker', 'marker', 'chain', 'qa222', 'assoc', 'refval203', 'width201', 'scale202', 'inc207', 'string208',
          'fixedrep', 'delayedrep', 'plain', 'wide-assoc', 'seq', 'seq')
MARKER_SHAPES = ('marker', 'marker', 'chain', 'qa222')


def applicable(shape, i, cods):
    kinds = {c[0] for c in cods}
    X = i // 1000
    if X == 31:
        return shape == 'plain'
    if shape == 'qa222':
        return X == 33
    if shape in ('marker', 'chain'):
        return X != 33          # a class 33 target of a marker operator is the open finding F-C07-marker-class33
    if shape == 'refval203':
        return kinds == {'n'}
    if shape in ('width201', 'scale202', 'inc207'):
        return 'n' in kinds and 's' not in kinds
    if shape == 'string208':
        return kinds == {'s'}
    if shape in ('assoc', 'wide-assoc'):
        return True
    return True


def template_for(cat, rng, shape, E, gs, kind=None):
    """-> (ids, forced dict, info)"""
    S = cat.stable(gs, rng, 30 if shape == 'wide-assoc' else 4)
    forced = {}
    info = {'shape': shape}
    if shape in ('marker', 'chain'):
        kind = kind or rng.choice(MARKERS)
        pre = [S[0]] * rng.randint(0, 1) + [E] + [S[1]] * rng.randint(0, 2) + ([E] if rng.random() < 0.3 else [])
        bits = [0 if x == E else rng.randint(0, 1) for x in pre]
        zeros = bits.count(0)
        reuse = shape == 'chain' or rng.random() < 0.4
        ids = list(pre) + [kind * 1000] + ([236000] if reuse else []) + [101000 + len(bits), 31031]
        ids += {224: [8023], 225: [8024]}.get(kind, [])
        ids += [kind * 1000 + 255] * zeros if rng.random() < 0.5 else [101000 + zeros, kind * 1000 + 255]
        info['kinds'] = [kind]
        if shape == 'chain':
            for k2 in rng.sample(MARKERS, rng.randint(1, 2)):
                ids += [k2 * 1000, 237000] + {224: [8023], 225: [8024]}.get(k2, []) + [101000 + zeros, k2 * 1000 + 255]
                info['kinds'].append(k2)
        if rng.random() < 0.3:
            ids.append(S[2])
        forced[31031] = bits
    elif shape == 'qa222':
        pre = [S[0], S[1], S[2]][:rng.randint(1, 3)]
        bits = [rng.randint(0, 1) for _ in pre]
        bits[rng.randrange(len(bits))] = 0
        ids = pre + [222000, 101000 + len(bits), 31031] + [E] * bits.count(0)
        forced[31031] = bits
        info['kinds'] = [222]
    elif shape == 'assoc':
        ids = [204000 + rng.randint(1, 8), 31021, S[0], E] + [S[1]] * rng.randint(0, 1) + [204000, E]
    elif shape == 'wide-assoc':
        body = list(S)
        body.insert(rng.randrange(len(body)), E)
        ids = [204000 + rng.randint(1, 8), 31021] + body + [204000]
    elif shape == 'refval203':
        ids = [203000 + rng.randint(4, 14), E, 203255, S[0], E, 203000, E]
    elif shape == 'width201':
        ids = [201000 + rng.choice([126, 129, 130, 132]), E, S[0], 201000, E]
    elif shape == 'scale202':
        ids = [202000 + rng.choice([127, 129, 130]), E, 202000, S[0], E]
    elif shape == 'inc207':
        ids = [207000 + rng.randint(1, 2), E, S[0], 207000, E]
    elif shape == 'string208':
        ids = [208000 + rng.randint(1, 6), E, 208000, E]
    elif shape == 'fixedrep':
        ids = [102000 + rng.randint(2, 3), E, S[0], S[1]]
    elif shape == 'delayedrep':
        ids = [S[0], 102000, 31001, E, S[1]]
        forced[31001] = [rng.randint(1, 3)]
    elif shape == 'plain':
        ids = [S[0], E, S[1], E]
    else:
        raise AssertionError(shape)
    return ids, forced, info


def pick_groups(cat, rng, variants, k):
    """`k` groups with pairwise different definitions (one per distinct definition, chosen at random), preferring
    neighbouring master versions half of the time"""
    defs = rng.sample(sorted(variants, key=repr), min(k, len(variants)))
    names = []
    for d in defs:
        cand = variants[d]
        names.append(rng.choice(cand) if rng.random() < 0.5 else cand[0 if rng.random() < 0.5 else -1])
    return [cat.by_name[n] for n in names]


def build_families(drv, rng, n, shapes=SHAPES, cat=None):
    """-> (families, problems, stats).  problems: [(family name, group name, what)]: the implementation with FRESH
    objects and the model disagree on a member (reported by the caller)."""
    cat = cat or Catalogue()
    classes = sorted(cat.by_class)
    fams = []

    def attempt(shape):
        if shape == 'seq':
            if not cat.sequences:
                return None
            sid = rng.choice(sorted(cat.sequences))
            gs = pick_groups(cat, rng, cat.sequences[sid], rng.choice([2, 2, 3]))
            if len(gs) < 2:
                return None
            try:
                S = cat.stable(gs, rng, 2)
            except core.MachineryError:
                return None
            ids, forced, info = [S[0], sid] + ([S[1]] if rng.random() < 0.5 else []), {}, {'shape': 'seq'}
            E = sid
            cls = 'sequence'
        else:
            cls = rng.choice(classes)
            E, ca, cb = rng.choice(cat.by_class[cls])
            var = cat.elements[E]
            if not applicable(shape, E, [ca, cb]):
                return None
            k = rng.choice([2, 2, 3])
            sub = {c: var[c] for c in var if c in (ca, cb)}
            if k == 3 and len(var) > 2:
                extra = rng.choice([c for c in sorted(var) if c not in sub])
                sub[extra] = var[extra]
            gs = pick_groups(cat, rng, sub, k)
            if len(gs) < 2 or not applicable(shape, E, [coding(g.load().b[E]) for g in gs]):
                return None
            try:
                ids, forced, info = template_for(cat, rng, shape, E, gs)
            except core.MachineryError:
                return None
        nsub = rng.choice([1, 1, 2, 3])
        return {'name': 'xv%03d' % len(fams), 'shape': info['shape'], 'kinds': info.get('kinds', []), 'E': E, 'class': cls,
                'ids': ids, 'forced': forced, 'n': nsub, 'comp': rng.random() < 0.4, 'edition': rng.choice([4, 4, 4, 3]),
                'groups': [g.name for g in gs], 'rnd': C.rnd_bits(rng, 4000), 'members': []}

    # the shapes in turn; a shape for which no applicable element is drawn in 60 attempts is passed over for this round
    slot = attempts = 0
    while len(fams) < n and slot < 20 * n:
        f = attempt(shapes[slot % len(shapes)])
        attempts += 1
        if f is None and attempts < 60:
            continue
        if f is not None:
            fams.append(f)
        slot += 1
        attempts = 0
    # values per group from the model's generate mode, then model encode / decode
    by_group = {}
    for f in fams:
        for gname in f['groups']:
            by_group.setdefault(gname, []).append(f)
    reqs, where = [], []
    for gname in sorted(by_group):
        reqs.append(cat.by_name[gname].request())
        where.append(None)
        for f in by_group[gname]:
            nrep = 1 if f['comp'] else f['n']
            reqs.append({'op': 'gen-data', 'ids': f['ids'], 'n': f['n'], 'shared': f['comp'], 'rnd': f['rnd'],
                         'force': [[k, v * nrep] for k, v in sorted(f['forced'].items())]})
            where.append((f, gname))
    res = drv.batch(reqs)
    stats = {'generated': len(fams), 'gen-failed': 0, 'encode-refused': 0}
    members = {}
    for w, r in zip(where, res):
        if w is None:
            continue
        f, gname = w
        if 'err' in r:
            stats['gen-failed'] += 1
            continue
        members[(f['name'], gname)] = {'group': gname, 'vals': r['vals']}
    # implementation with fresh objects + model, group by group
    from pybufrkit.decoder import Decoder
    from pybufrkit.encoder import Encoder
    reqs, where = [], []
    problems = []
    for gname in sorted(by_group):
        g = cat.by_name[gname]
        reqs.append(g.request())
        where.append(None)
        for f in by_group[gname]:
            m = members.get((f['name'], gname))
            if m is None:
                continue
            js = C.make_message_json(f['ids'], P.py_inputs(m['vals']), f['comp'], edition=f['edition'], overrides=g.sec1)
            m['json'] = json.dumps(js)
            try:
                msg = Encoder().process(json.loads(m['json']), wire_template_data=False)
            except Exception as e:  # noqa
                m['enc'] = core.err_tag(e)
                stats['encode-refused'] += 1
                reqs.append({'op': 'enc-data', 'ids': f['ids'], 'compressed': f['comp'], 'vals': m['vals']})
                where.append((f, m, 'enc'))
                continue
            m['enc'] = 'ok'
            m['bytes'] = msg.serialized_bytes
            td = msg.template_data.value
            m['enc_subs'] = [{'d': [str(d) for d in td.decoded_descriptors_all_subsets[i]],
                              'l': sorted([a, o] for a, o in td.bitmap_links_all_subsets[i].items())} for i in range(f['n'])]
            used = (msg.table_group_key.wmo_tables_sn, msg.table_group_key.local_tables_sn)
            if used != (g.wmo, g.local):
                problems.append((f, m, 'the encoder used table group %s for a message that names %s' % (used, (g.wmo, g.local))))
            reqs.append({'op': 'enc-data', 'ids': f['ids'], 'compressed': f['comp'], 'vals': m['vals']})
            where.append((f, m, 'enc'))
            try:
                dm = Decoder().process(m['bytes'], wire_template_data=False)
                td = dm.template_data.value
                m['dec'] = ('ok', [{'d': [str(d) for d in td.decoded_descriptors_all_subsets[i]],
                                    'v': list(td.decoded_values_all_subsets[i]),
                                    'l': sorted([a, o] for a, o in td.bitmap_links_all_subsets[i].items())}
                                   for i in range(f['n'])], len(dm.serialized_bytes))
                used = (dm.table_group_key.wmo_tables_sn, dm.table_group_key.local_tables_sn)
                if used != (g.wmo, g.local):
                    problems.append((f, m, 'the decoder used table group %s for a message that names %s' % (used, (g.wmo, g.local))))
            except Exception as e:  # noqa
                m['dec'] = (core.err_tag(e), None, None)
            reqs.append({'op': 'dec-data', 'ids': f['ids'], 'compressed': f['comp'], 'n': f['n'], 'bits': C.data_bits(m['bytes'])})
            where.append((f, m, 'dec'))
    res = drv.batch(reqs)
    for w, r in zip(where, res):
        if w is None:
            continue
        f, m, what = w
        if what == 'enc':
            m['model_enc'] = r
            if m['enc'] == 'ok':
                c = P.Case([f['ids']], [], f['n'], f['comp'], f['edition'])
                why = P.compare_encode(c, ('ok', m['bytes'], m['enc_subs']), as_mapping(r))
            else:
                why = None if C.model_err(r) == m['enc'] else 'encoder status: implementation %s, model %s' % (m['enc'], C.model_err(r))
            if why:
                problems.append((f, m, 'fresh Encoder vs model: ' + why))
        else:
            m['model_dec'] = r
            why = P.compare_decode(m['dec'], as_mapping(r))
            if why:
                problems.append((f, m, 'fresh Decoder vs model: ' + why))
    out = []
    for f in fams:
        ms = [members[(f['name'], gname)] for gname in f['groups'] if (f['name'], gname) in members and members[(f['name'], gname)].get('enc') == 'ok']
        if len(ms) >= 2:
            f['members'] = ms
            out.append(f)
    stats['families'] = len(out)
    stats['messages'] = sum(len(f['members']) for f in out)
    return out, problems, stats


def as_mapping(resp):
    """the model records bitmap links as the list of assignments, the implementation as a dict: compare the final mapping"""
    for sub in (resp.get('subsets') or []):
        m = {}
        for a, o in sub['l']:
            m[a] = o
        sub['l'] = sorted([a, o] for a, o in m.items())
    return resp
