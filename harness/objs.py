"""
Implementation objects as an application keeps them.

pybufrkit's own command line, and every program written against it, creates ONE Decoder / Encoder / parser /
querent and feeds it message after message.  Every property of properties.jsonl is stated for "a decoder", not
for "a decoder that has never done anything else", so the implementation side of the correspondence checks does
not hand each case to a brand-new object: `decoder(**kw)` / `encoder(**kw)` return, per worker process and per
option set, one long-lived object that

  * was AGED by a fixed warm-up history when it was created (WARMUP below: lenient decode with
    ignore_value_expectation, metadata-only decode, compiled and uncompiled, failing decodes - truncated, damaged
    stop signature, unknown descriptor -, a scan with a filter that rejects everything, messages of several
    editions / table versions / with bitmaps and marker operators, an encode that is refused), and
  * keeps being re-used for all later cases of that process (so the cases of a run are each other's history).

With VERIF_OBJECTS=fresh every call gets a new object (used by `--replay` to tell a history-dependent failure from
a plain one: a replay first runs the case on an aged object, then on a fresh one, and says which of them fails).

The unchanged code must give the same answers either way (that is property C13); a difference is a violation of
the property under check observed through re-use, and the replay says so.
"""
import json
import os

from harness import core

POLICY = os.environ.get('VERIF_OBJECTS', 'aged')
_pool = {}
_warm = None
STATS = {'created': 0, 'reused': 0, 'warmup_ops': 0, 'warmup_failed': 0}


def policy():
    return os.environ.get('VERIF_OBJECTS', POLICY)


def _key(kind, kw):
    return kind + ':' + json.dumps(kw, sort_keys=True, default=repr)


def _warm_inputs():
    """bytes of a few sample messages of the repository (read once per process); missing files are skipped"""
    global _warm
    if _warm is not None:
        return _warm
    names = ['contrived.bufr', 'jaso_214.bufr', 'b005_89.bufr', 'IUSK73_AMMC_182300.bufr', '207003.bufr', 'amv2_87.bufr',
             'ISMD01_OKPR.bufr']
    out = []
    for n in names:
        p = os.path.join(core.REPO, 'tests', 'data', n)
        try:
            with open(p, 'rb') as f:
                out.append(f.read())
        except OSError:
            pass
    _warm = out
    return out


def _quiet(f):
    import contextlib
    import io
    STATS['warmup_ops'] += 1
    try:
        with contextlib.redirect_stderr(io.StringIO()), contextlib.redirect_stdout(io.StringIO()):
            return f()
    except BaseException as e:  # noqa - the history is allowed to contain failing operations; that is its point
        if isinstance(e, (KeyboardInterrupt, SystemExit)):
            raise
        STATS['warmup_failed'] += 1
        return None


def age_decoder(dec):
    """the fixed warm-up history of a Decoder (every operation may fail; failures are part of the history)"""
    from pybufrkit.decoder import generate_bufr_message
    ms = _warm_inputs()
    if not ms:
        return dec
    a = ms[0]
    _quiet(lambda: dec.process(a, ignore_value_expectation=True, wire_template_data=False))
    _quiet(lambda: dec.process(a, info_only=True))
    _quiet(lambda: dec.process(a[:len(a) // 2]))                        # truncated
    _quiet(lambda: dec.process(a[:-1] + b'8'))                          # damaged stop signature
    _quiet(lambda: dec.process(a[:-4] + b'\x00\x00\x00\x00', ignore_value_expectation=True, info_only=True))
    for b in ms[1:4]:
        _quiet(lambda: dec.process(b))                                  # other editions / table versions, wired
    _quiet(lambda: list(generate_bufr_message(dec, b'xx' + a + b'GTS' + ms[-1], info_only=True,
                                              filter_expr='${%n_subsets} > 100000')))
    _quiet(lambda: list(generate_bufr_message(dec, a[:20] + a, continue_on_error=True, wire_template_data=False)))
    for b in ms[4:]:
        _quiet(lambda: dec.process(b, wire_template_data=False))
    _quiet(lambda: dec.process(a))
    return dec


def age_encoder(enc):
    from pybufrkit.decoder import Decoder
    from pybufrkit.renderer import FlatJsonRenderer
    from pybufrkit.utils import JSON_DUMPS_KWARGS
    ms = _warm_inputs()
    for b in ms[:3]:
        s = _quiet(lambda: json.dumps(FlatJsonRenderer().render(Decoder().process(b, wire_template_data=False)),
                                      **JSON_DUMPS_KWARGS))
        if s is None:
            continue
        _quiet(lambda: enc.process(s, wire_template_data=False))
        bad = json.loads(s)
        try:
            bad[3][-1] = bad[3][-1][:1]                                  # descriptor list cut: values no longer fit
        except Exception:  # noqa
            pass
        _quiet(lambda: enc.process(json.dumps(bad), wire_template_data=False))   # an encode that is refused
    return enc


def _get(kind, make, age, kw):
    if policy() == 'fresh':
        STATS['created'] += 1
        return make()
    k = _key(kind, kw)
    o = _pool.get(k)
    if o is None:
        STATS['created'] += 1
        o = make()
        age(o)
        _pool[k] = o
    else:
        STATS['reused'] += 1
    return o


def decoder(**kw):
    from pybufrkit.decoder import Decoder
    return _get('dec', lambda: Decoder(**kw), age_decoder, kw)


def encoder(**kw):
    from pybufrkit.encoder import Encoder
    return _get('enc', lambda: Encoder(**kw), age_encoder, kw)


def reset():
    _pool.clear()
