"""
C14, stream `history`: templates are built by the FM-94 rules WHATEVER the process has seen before.

`BufrTableGroup.template_from_ids` runs a repair pass (`tables._fix_ncep_descriptors`) over every template once in-stream
table entries (NCEP / PrepBUFR table-definition messages, `TableGroupCacheManager.add_extra_entries`) have been
registered in the process, and every table group loaded from then on carries those entries on top of the table files.
The other streams of C14 build all their templates in a process that never saw such a message.  This stream repeats the
template-building correspondence in process states that did:

  state      `unrelated`: the registered entries define ids no descriptor of the list (nor anything it expands to)
             uses — one Table B entry, Table D entries only (one of them an NCEP-style member-less replication), both;
             `defining`: the entries define ids the lists use — elements that are in no table file, elements of the
             table files with other attributes (a class-31 factor among them), sequences that are in no table file,
             table-file sequences that no table-file row refers to, with members that refer to each other forwards
             and backwards, to table-file sequences and to undefined ids; NCEP-style sequences that consist of one
             member-less replication (`101000 031001`, `101000 031002`, `101YYY`), the refused variants (`102000 031001`)
             and ill-counted rows that keep members.
  lists      (1) every combination of fixed / delayed replication nested to depth 2, 3, 4 x every choice, per level, of
             whether the replication is followed by further descriptors in the list that holds it (336 lists per
             state); (2) the random well-counted (depth 4, X up to 63) and ill-counted lists of the `lists` stream, with
             the defined ids drawn often; (3) single Table D ids (`template_from_ids(id)`): every defined sequence
             and a sample of the table-file rows; (4) NCEP shapes: a member-less replication sequence followed by an
             element / a sequence / a fixed / a delayed replication / nothing, at top level and inside a replication.
  compared   implementation in that state (tree, original_descriptor_ids, flat_member_ids, Table B attributes of
             every leaf and factor) vs the Lean model (`build` over the table files extended by the entries —
             `TableDef.extend` — followed by `TableDef.fixNcep`: `templateFromIds T true`), and the model's own
             cross checks (WellCounted, counting specification, count-free expansion).
  oracles    (implementation / table files only) for a list that reaches no member-less replication: the template is
             IDENTICAL to the one the same implementation builds in the state without entries whenever the entries are
             unrelated to the list; original_descriptor_ids == the list; every replication owns exactly X ids;
             a well-counted list is not refused; always: flat ids == direct expansion over files + entries, every leaf
             carries the attributes of files + entries; NCEP shapes: the member-less replication owns exactly the ONE
             descriptor that follows the sequence.

The process-global state is replaced harness-side (a fresh `TableGroupCache` put in
`TableGroupCacheManager._TABLE_GROUP_CACHE`, entries registered through the public `add_extra_entries`, the previous
cache object put back afterwards) as harness/props/c20.py does; when that internal attribute does not exist the stream
is counted as skipped.
"""
import copy
import itertools
import json

from harness import core, tables_io

NAMES = ('tree', 'orig', 'flat', 'leaves')


class Unsupported(Exception):
    pass


def _manager():
    try:
        from pybufrkit import tables as T
        M, cls = T.TableGroupCacheManager, T.TableGroupCache
        M._TABLE_GROUP_CACHE, M.add_extra_entries    # noqa
    except (ImportError, AttributeError) as e:
        raise Unsupported('%s: %s' % (type(e).__name__, e))
    return M, cls


def b_json(eb):
    return {'%06d' % k: list(v) for k, v in eb.items()}


def d_json(ed):
    return {'%06d' % k: [v[0], ['%06d' % m for m in v[1]]] for k, v in ed.items()}


class CacheState(object):
    """the process-global table group cache replaced by a fresh one that holds the given in-stream entries"""

    def __init__(self, eb, ed):
        self.eb, self.ed = eb, ed

    def __enter__(self):
        self.M, cls = _manager()
        self.saved = self.M._TABLE_GROUP_CACHE
        self.mine = cls()
        self.M._TABLE_GROUP_CACHE = self.mine
        try:
            if self.eb or self.ed:
                self.M.add_extra_entries(copy.deepcopy(b_json(self.eb)), copy.deepcopy(d_json(self.ed)))
        except AttributeError as e:
            self.M._TABLE_GROUP_CACHE = self.saved
            raise Unsupported('%s: %s' % (type(e).__name__, e))
        return self

    def __exit__(self, *exc):
        self.M._TABLE_GROUP_CACHE = self.saved
        return False

    def outside(self, fn):
        """fn() evaluated in the state the process had before (no entries of this stream)"""
        self.M._TABLE_GROUP_CACHE = self.saved
        try:
            return fn()
        finally:
            self.M._TABLE_GROUP_CACHE = self.mine


# ---------------------------------------------------------------------------------------------
def referenced(d):
    out = set()
    for v in d.values():
        out.update(int(m) for m in v[1])
    return out


def reach(ids, d, lim=4000):
    """ids of the list and of everything it expands to over the Table D dictionary `d`"""
    seen, todo = set(), list(ids)
    while todo and len(seen) < lim:
        x = todo.pop()
        if x in seen:
            continue
        seen.add(x)
        if x >= 300000 and x in d:
            todo.extend(int(m) for m in d[x][1])
    return seen


def bare_reachable(ids, d, depth=0, memo=None):
    """does the list (or a sequence it expands to) hold a replication that gets NO member: X = 0, or nothing is left
    for it in the list that holds it.  Those are the templates the repair pass touches (or refuses)."""
    memo = {} if memo is None else memo

    def scope(i, end):
        while i < end:
            x = ids[i]
            if 100000 <= x < 200000:
                k = 2 if x % 1000 == 0 else 1
                lo, hi = min(i + k, end), min(i + k + x // 1000 % 100, end)
                if hi - lo <= 0 or scope(lo, hi):
                    return True
                i = hi
            else:
                if x >= 300000 and x in d and depth < 40:
                    if x not in memo:
                        memo[x] = False     # (cycle guard)
                        memo[x] = bare_reachable([int(m) for m in d[x][1]], d, depth + 1, memo)
                    if memo[x]:
                        return True
                i += 1
        return False
    return scope(0, len(ids))


# ---------------------------------------------------------------------------------------------
class State(object):
    def __init__(self, name, kind, eb, ed, hot_e=(), hot_s=(), ncep=()):
        self.name, self.kind, self.eb, self.ed = name, kind, eb, ed
        self.hot_e, self.hot_s, self.ncep = list(hot_e), list(hot_s), list(ncep)

    def replay(self):
        return {'name': self.name, 'kind': self.kind, 'b': b_json(self.eb), 'd': d_json(self.ed)}


UNITS = ['NUMERIC', 'CCITT IA5', 'CODE TABLE', 'FLAG TABLE', 'M', 'K', 'PA']


def b_entry(rng, i, old=None):
    for _ in range(50):
        e = ['HISTORY %06d' % i, rng.choice(UNITS), rng.randint(-2, 3), rng.choice([0, 0, -1024, 5]),
             rng.choice([1, 7, 8, 12, 16, 24]), 'x', 0, 1]
        if e[1] == 'CCITT IA5':
            e[4] = 8 * rng.randint(1, 6)
        if old is None or [tables_io.unit_kind(e[1])] + e[2:5] != [tables_io.unit_kind(old[1])] + [int(x) for x in old[2:5]]:
            return e
    raise core.MachineryError('history: no differing Table B entry')


def fresh(rng, lo, hi, n, avoid):
    out = []
    for _ in range(10000):
        if len(out) == n:
            return out
        i = rng.randrange(lo, hi)
        if i not in avoid and i not in out:
            out.append(i)
    raise core.MachineryError('history: no free ids in %d..%d' % (lo, hi))


def is_delayed(x):
    return 100000 <= x < 200000 and x % 1000 == 0


class RowPools(object):
    """what the rows of the defined sequences are drawn from (K.gen_item interface)"""

    def __init__(self, elems, factors, seqs):
        self.elems, self.factors, self.seqs, self.allseqs = elems, factors, seqs, seqs


def make_states(K, rng, fb, fd, tier):
    """the process states of one table group (fb / fd: merged table files)"""
    special = {K.E_UNDEF, K.S_UNDEF, 31099}
    refd = referenced(fd)
    if K.S_UNDEF in refd:
        raise core.MachineryError('history: the placeholder sequence id is referenced by a table file row')
    avoid = set(fb) | set(fd) | refd | special
    P0 = K.Pools(fb, fd, rng)
    states = []
    # ---- unrelated
    e1, = fresh(rng, 63200, 63255, 1, avoid)
    states.append(State('unrelated-b', 'unrelated', {e1: b_entry(rng, e1)}, {}))
    s1, s2, s3 = sorted(fresh(rng, 363200, 363255, 3, avoid))
    states.append(State('unrelated-d', 'unrelated', {}, {
        s1: ['HISTORY NCEP', [101000, 31001]],
        s2: ['HISTORY FWD', [rng.choice(P0.elems), s3, s1, rng.choice(P0.elems)]],
        s3: ['HISTORY', [rng.choice(P0.elems), 102002, rng.choice(P0.elems), rng.choice(P0.elems)]]}))
    e2, e3 = fresh(rng, 48000, 63200, 2, avoid)
    s4, = fresh(rng, 348000, 363200, 1, avoid)
    states.append(State('unrelated-bd', 'unrelated', {e2: b_entry(rng, e2), e3: b_entry(rng, e3)},
                        {s4: ['HISTORY', [e2, 101000, 31001, e3]]}))
    # ---- defining
    n_def = 3 if tier == 'quick' else 9
    for k in range(n_def):
        with_b, with_d = (k % 3 != 1), (k % 3 != 0)
        eb, ed, ncep = {}, {}, []
        if with_b:
            eb[K.E_UNDEF] = b_entry(rng, K.E_UNDEF)
            eb[31099] = ['HISTORY FACTOR', 'NUMERIC', 0, 0, rng.choice([4, 8, 16]), 'x', 0, 1]
            for i in rng.sample(P0.elems, 4) + ([31001] if rng.random() < 0.6 and 31001 in fb else []):
                eb[i] = b_entry(rng, i, fb[i])
            for i in fresh(rng, 48000, 63200, 2, avoid):
                eb[i] = b_entry(rng, i)
        hot_e = sorted(eb)
        if with_d:
            elems = P0.elems + hot_e * max(1, len(P0.elems) // (4 * max(1, len(hot_e))))
            unref = [i for i in P0.seqs if i not in refd]
            redef = rng.sample(unref, min(2, len(unref)))
            new = fresh(rng, 360001, 363200, 11, avoid) + [K.S_UNDEF]
            rng.shuffle(new)
            lower = [i for i in P0.seqs if i not in redef]
            a, b, c, bad, ill = new[:5]
            ed[a] = ['HISTORY NCEP 8', [101000, 31001]]
            ed[b] = ['HISTORY NCEP 16', [101000, 31002]]
            ed[c] = ['HISTORY NCEP FIXED', [101000 + rng.randint(1, 255)]]
            ed[bad] = ['HISTORY NCEP X2', [102000, 31001]]
            ed[ill] = ['HISTORY ILL', [103000, 31001, rng.choice(elems)]]
            ncep = [a, b, c]
            made = []
            for i in redef + new[5:]:
                RP = RowPools(elems, P0.factors, lower + made * 6 if made else lower)
                row = K.gen_list(rng, RP)
                if rng.random() < 0.35 and made:
                    # an NCEP sequence inside a row (not in the place of a replication factor)
                    at = [j for j in range(len(row) + 1) if j == 0 or not is_delayed(row[j - 1])]
                    row.insert(rng.choice(at), rng.choice([a, b, c]))
                row = row[:40]
                while row and is_delayed(row[-1]):
                    # a delayed replication without a factor makes TableD.__init__ fail for the whole table group
                    # (StopIteration): in-stream definitions, C20's matter
                    row.pop()
                row = row or [rng.choice(elems)]
                # no reference cycles: a row refers to table-file sequences and to rows made before it only
                later = (set(redef) | set(new)) - set(made) - {a, b, c, bad, ill}
                row = [rng.choice(elems) if x in later else x for x in row]
                ed[i] = ['HISTORY %06d' % i, row]
                made.append(i)
        states.append(State('defining-%d%s%s' % (k, '-b' if with_b else '', '-d' if with_d else ''), 'defining', eb, ed,
                            hot_e, sorted(ed), ncep))
    for s in states:
        for i, v in s.ed.items():
            v[1] = [int(m) for m in v[1]]
    return states


# ---------------------------------------------------------------------------------------------
def nest_cases(rng, P, hot):
    """fixed / delayed replication nested to depth 2..4, every combination of kinds x every choice of which of the
    replications is followed by further descriptors in the list that holds it"""
    def elem():
        return rng.choice(hot) if hot and rng.random() < 0.25 else rng.choice(P.elems)

    def leaf():
        r = rng.random()
        if r < 0.7:
            return [elem() for _ in range(rng.randint(1, 2))]
        if r < 0.9:
            return [rng.choice(P.seqs)]
        return [rng.choice([201129, 202130, 204008, 222000])]
    out = []
    for depth in (2, 3, 4):
        for kinds in itertools.product('FD', repeat=depth):             # innermost first
            for follow in itertools.product((0, 1), repeat=depth):
                inner = leaf()
                for lvl in range(depth):
                    body = [elem() for _ in range(rng.randint(0, 2))] + inner
                    if kinds[lvl] == 'D':
                        inner = [100000 + 1000 * len(body), rng.choice(P.factors)] + body
                    else:
                        inner = [100000 + 1000 * len(body) + rng.randint(1, 255)] + body
                    if follow[lvl]:
                        inner = inner + [elem() for _ in range(rng.randint(1, 2))]
                ids = ([elem()] if rng.random() < 0.5 else []) + inner
                out.append((ids, True, 'nest-%d' % depth))
    return out


def ncep_cases(K, rng, P, state):
    """(ids, wellformed, tag, expectation): a member-less replication sequence followed by ONE item of every kind;
    expectation = (index of the sequence in the list, ids of the item that follows it)"""
    out = []
    plain = [i for i in P.elems if i not in state.eb]
    seqs = [i for i in P.seqs if i not in state.ed]

    def e():
        return rng.choice(plain)
    followers = [lambda: [e()], lambda: [rng.choice(seqs)], lambda: [102000 + rng.randint(1, 255), e(), e()],
                 lambda: [102000, 31001, e(), e()], lambda: [103000 + rng.randint(1, 9), e(), 101000 + rng.randint(1, 9), e()],
                 lambda: [rng.choice([201130, 204008])]]
    for s in state.ncep:
        for f in followers:
            item = f()
            pre = [e() for _ in range(rng.randint(0, 2))]
            post = [e() for _ in range(rng.randint(0, 2))]
            out.append((pre + [s] + item + post, True, 'ncep-top', (len(pre), item)))
            # inside a replication: the sequence and its follower are two of the X ids
            body = pre + [s] + item
            out.append(([100000 + 1000 * len(body) + 2] + body + post, True, 'ncep-in-replication', None))
            out.append(([100000 + 1000 * len(body), 31001] + body + post, True, 'ncep-in-replication', None))
        # nothing follows / the follower is outside of the list that holds the sequence: refused by the code as it is
        out.append(([e(), s], True, 'ncep-last', None))
        out.append(([101000 + rng.randint(1, 9), s, e()], True, 'ncep-last', None))
        # two in a row: the first owns the (repaired) second
        out.append(([s, s, e(), e()], True, 'ncep-chain', None))
    return out


# ---------------------------------------------------------------------------------------------
def impl_full(K, group, ids):
    from pybufrkit.descriptors import flat_member_ids
    try:
        t = group.template_from_ids(*ids)
        return {'tree': [K.impl_render(m) for m in t.members], 'orig': list(t.original_descriptor_ids),
                'flat': flat_member_ids(t), 'leaves': K.impl_leaves(t.members, [])}
    except RecursionError:
        return {'err': 'recursion'}
    except Exception as e:  # StopIteration included
        return {'err': core.err_tag(e)[4:]}


def leaf_expect(bm, a):
    e = bm.get(a[0])
    if e is None:
        return [a[0], 9, 0, 0, 0]
    return [a[0], {'n': 0, 'c': 1, 's': 2}[tables_io.unit_kind(e[1])], int(e[2]), int(e[3]), int(e[4])]


def verdict(K, ids, wf, impl, base, model, bm, dm, state, expect=None):
    """-> (oracle message | None, correspondence message | None, facts)"""
    bare = bare_reachable(ids, dm)
    used = reach(ids, dm)
    related = any(x in state.eb or x in state.ed for x in used)
    omsg = None
    if not related and not bare and base is not None and impl != base:
        omsg = 'the template differs from the one built before unrelated in-stream table entries were registered'
    elif 'err' in impl:
        if wf and not bare:
            omsg = 'a well-counted list was refused (%s) once in-stream table entries are registered' % impl['err']
        elif impl['err'] != 'other':
            omsg = 'unexpected error family %s' % impl['err']
    else:
        if not bare and impl['orig'] != ids:
            omsg = 'original_descriptor_ids differs from the ids the template was built from'
        elif impl['flat'] != K.direct_expand(dm, ids):
            omsg = 'flat_member_ids differs from the direct expansion of the id list over table files + in-stream entries'
        elif not bare and K.counted_ok(ids) and not K.ownership_ok(impl['tree']):
            omsg = 'a replication does not own exactly its X ids'
        else:
            for a in impl['leaves']:
                if a != leaf_expect(bm, a):
                    omsg = 'leaf %06d carries %r, table files + in-stream entries say %r' % (a[0], a, leaf_expect(bm, a))
                    break
    if omsg is None and expect is not None:
        # NCEP shape at top level: [.. pre .., <member-less replication sequence>, <one item>, .. post ..]
        k, item = expect
        if 'err' in impl:
            omsg = 'a member-less replication sequence followed by a descriptor was refused (%s)' % impl['err']
        else:
            node = impl['tree'][k] if k < len(impl['tree']) else None
            mem = None if node is None or node[0] not in ('F', 'D') else (node[2] if node[0] == 'F' else node[3])
            if mem is None or len(mem) != 1 or len(impl['tree']) != len(ids) - len(item):
                omsg = 'the replication of a member-less replication sequence does not own exactly the one descriptor that follows it'
    cmsg = None
    mm = {k: model.get(k) for k in NAMES} if 'err' not in model else {'err': model['err']}
    if mm != impl:
        cmsg = 'model (build over extended tables + fixNcep) and implementation differ'
    elif 'err' not in model and model['origq'] != model['orig']:
        cmsg = 'queue and structural originalIds differ'
    elif model['wc'] != K.counted_ok(ids):
        cmsg = 'WellCounted disagrees with the recursive counting check'
    elif 'err' not in model and model['loose'] != model['flat']:
        cmsg = 'count-free expansion differs from the flattened tree'
    elif model['wc'] and 'err' not in model and model['spec'] is not None and model['spec'] != model['flat']:
        cmsg = 'counting specification differs from the flattened tree'
    elif 'err' not in model and not bare and not model['fixid']:
        cmsg = 'fixNcep changed a tree although the list reaches no member-less replication'
    return omsg, cmsg, {'bare': bare, 'related': related}


def model_reqs(cases):
    return [{'op': 'build', 'ids': c[0], 'fix': True, 'leaves': True} for c in cases]


def check_state(ctx, K, wmo_sn, local_sn, fb, fd, state, n_good, n_bad, n_rows):
    label = '/'.join(wmo_sn) + ('+' + '/'.join(local_sn) if local_sn else '') + ' ' + state.name
    bm, dm = dict(fb), dict(fd)
    bm.update(state.eb)
    dm.update(state.ed)
    treq = tables_io.tables_request(bm, dm)
    rng = ctx.rng('history:' + label)
    P = K.Pools(bm, dm, rng)
    if state.hot_e:
        P.elems = P.elems + state.hot_e * max(1, len(P.elems) // (3 * len(state.hot_e)))
    if state.hot_s:
        P.seqs = P.seqs + state.hot_s * max(1, len(P.seqs) // (2 * len(state.hot_s)))
    cases = [c + (None,) for c in nest_cases(rng, P, state.hot_e)]
    for i in range(n_good):
        cases.append((K.gen_deep(rng, P) if i % 10 == 0 else K.gen_list(rng, P), True, 'random', None))
    for i in range(n_bad):
        cases.append((K.break_counting(rng, K.gen_list(rng, P) if i % 7 else K.gen_deep(rng, P)), False, 'broken', None))
    rows = sorted(state.ed) + rng.sample(sorted(fd), min(n_rows, len(fd)))
    cases += [([i], True, 'row', None) for i in rows]
    cases += ncep_cases(K, rng, P, state)
    for ids, wf, tag, _ in cases:
        if wf and not K.counted_ok(ids):
            raise core.MachineryError('history: generator produced an ill-counted list %r (%s)' % (ids, tag))
    # the same implementation in the state the process had before: no entries
    group0 = K.impl_group(wmo_sn, local_sn)
    base = [impl_full(K, group0, c[0]) for c in cases]
    model = ctx.driver.batch([treq] + model_reqs(cases))[1:]
    with CacheState(state.eb, state.ed) as cs:
        try:
            group = K.impl_group(wmo_sn, local_sn)
        except Exception as e:
            ctx.case({'history': label, 'load': True})
            ctx.violation('table group %s cannot be loaded once the in-stream entries of state %s are registered: %s %s' % (
                label, state.name, type(e).__name__, str(e)[:200]),
                {'history': state.replay(), 'wmo_sn': wmo_sn, 'local_sn': local_sn, 'ids': [], 'load_error': core.err_tag(e)},
                signature={'kind': 'history-load', 'error': type(e).__name__})
            return
        ctx.count('history_states')
        ctx.count('history_states_' + state.kind)
        for (ids, wf, tag, expect), b0, m in zip(cases, base, model):
            impl = impl_full(K, group, ids)
            omsg, cmsg, facts = verdict(K, ids, wf, impl, b0, m, bm, dm, state, expect)
            ctx.case({'history': label, 'ids': ids}, nontrivial=True, sample=(tag == 'nest-4' and ctx.evaluations % 211 == 0))
            ctx.traces += 1
            ctx.count('history_lists')
            ctx.count('history_' + tag)
            ctx.count('history_related_to_entries' if facts['related'] else 'history_unrelated_to_entries')
            if facts['bare']:
                ctx.count('history_reaches_memberless_replication')
                ctx.count('history_memberless_refused' if 'err' in impl else 'history_memberless_repaired')
            if 'err' not in m and not m['fixid']:
                ctx.count('history_model_repair_changed_tree')
            if omsg and (omsg[:40], state.kind) in ctx.seen_list_failures:
                ctx.count('history_failing_again')
            elif omsg:
                ctx.seen_list_failures.add((omsg[:40], state.kind))
                small = shrink(ctx, K, cs, treq, group, wmo_sn, local_sn, ids, wf, bm, dm, state, omsg, expect)
                simpl = impl_full(K, group, small)
                sbase = cs.outside(lambda: impl_full(K, K.impl_group(wmo_sn, local_sn), small))
                ctx.violation('id list %s (%s; in-stream entries registered: B %s, D %s): %s; tree %s%s' % (
                    small[:40], label, sorted(state.eb), sorted(state.ed), omsg, json.dumps(simpl.get('tree', simpl))[:300],
                    '' if facts['related'] else '; before the entries were registered: %s' % json.dumps(sbase.get('tree', sbase))[:300]),
                    {'history': state.replay(), 'wmo_sn': wmo_sn, 'local_sn': local_sn, 'ids': small, 'original_ids': ids,
                     'wellformed': wf, 'impl': simpl, 'impl_without_entries': sbase},
                    signature={'kind': 'history-list', 'why': omsg[:40], 'state': state.kind, 'wellformed': wf})
            elif cmsg:
                ctx.corr_breaks.append({'history': state.replay(), 'wmo_sn': wmo_sn, 'local_sn': local_sn, 'ids': ids,
                                        'why': cmsg, 'impl': impl, 'model': m})


def shrink(ctx, K, cs, treq, group, wmo_sn, local_sn, ids, wf, bm, dm, state, omsg, expect):
    """greedy deletion of single ids while the same oracle keeps failing; bounded"""
    if expect is not None:
        return list(ids)
    cur, budget, changed = list(ids), 40, True
    while changed and budget > 0 and len(cur) > 1:
        changed = False
        for i in range(len(cur)):
            cand = cur[:i] + cur[i + 1:]
            budget -= 1
            if budget <= 0:
                break
            if wf and not K.counted_ok(cand):
                continue
            impl = impl_full(K, group, cand)
            base = cs.outside(lambda: impl_full(K, K.impl_group(wmo_sn, local_sn), cand))
            model = ctx.driver.batch([treq] + model_reqs([(cand,)]))[1]
            if verdict(K, cand, wf, impl, base, model, bm, dm, state)[0] == omsg:
                cur, changed = cand, True
                break
    return cur


# ---------------------------------------------------------------------------------------------
def run(ctx):
    from harness.props import c14 as K
    try:
        _manager()
    except Unsupported as e:
        ctx.count('history_skipped_no_process_state_access')
        ctx.notes.append('stream history skipped: the table group cache of the implementation cannot be replaced (%s)' % e)
        return
    q = ctx.tier == 'quick'
    plans = [(('0', '0_0', '33'), None, 120 if q else 600, 60 if q else 250, 80 if q else 300),
             (('0', '0_0', '33'), ('0', '98_0', '1'), 60 if q else 300, 30 if q else 120, 40 if q else 150)]
    for wmo_sn, local_sn, n_good, n_bad, n_rows in plans:
        fb, fd = tables_io.read_group(wmo_sn, local_sn)
        label = '/'.join(wmo_sn) + ('+' + '/'.join(local_sn) if local_sn else '')
        states = make_states(K, ctx.rng('history-states:' + label), fb, fd, ctx.tier)
        if local_sn and q:
            states = [states[1], states[2], states[-1]]
        for state in states:
            try:
                check_state(ctx, K, wmo_sn, local_sn, fb, fd, state, n_good, n_bad, n_rows)
            except Unsupported as e:
                ctx.count('history_skipped_no_process_state_access')
                ctx.notes.append('stream history: state %s skipped (%s)' % (state.name, e))


def replay(ctx, r):
    from harness.props import c14 as K
    h = r['history']
    eb = {int(k): v for k, v in h['b'].items()}
    ed = {int(k): [v[0], [int(m) for m in v[1]]] for k, v in h['d'].items()}
    state = State(h['name'], h['kind'], eb, ed)
    wmo_sn, local_sn = tuple(r['wmo_sn']), tuple(r['local_sn']) if r.get('local_sn') else None
    fb, fd = tables_io.read_group(wmo_sn, local_sn)
    bm, dm = dict(fb), dict(fd)
    bm.update(eb)
    dm.update(ed)
    ids, wf = r['ids'], r.get('wellformed', False)
    base = impl_full(K, K.impl_group(wmo_sn, local_sn), ids)
    model = ctx.driver.batch([tables_io.tables_request(bm, dm)] + model_reqs([(ids,)]))[1]
    with CacheState(eb, ed):
        impl = impl_full(K, K.impl_group(wmo_sn, local_sn), ids)
    print(json.dumps({'impl': impl, 'impl_without_entries': base, 'model': model}))
    omsg, cmsg, _ = verdict(K, ids, wf, impl, base, model, bm, dm, state)
    ctx.case({'history': h['name'], 'ids': ids})
    if omsg:
        ctx.violation('id list %s (in-stream entries registered): %s' % (ids[:40], omsg), r,
                      signature={'kind': 'history-list', 'why': omsg[:40], 'state': state.kind, 'wellformed': wf})
    elif cmsg:
        ctx.corr_breaks.append({'ids': ids, 'why': cmsg})
