"""
Shared by the encoder-side checks C02 (canonical bit stream) and C03 (round trip):

  * effective width / scale / reference of a numeric element under 201 / 202 / 203 / 207, computed
    here from Table B and the regulation's formulas (NOT taken from the model),
  * construction of on-grid model values from raw field contents,
  * exact comparison of model values, exact rounding (half to even) on Fractions,
  * the C02 oracle: well-formed frame, section 3 packing, canonical data bits (decoded by the MODEL
    decoder from the implementation's bytes), and the FM-94 column rule checked on the raw column
    structure (`col-parse`) of compressed data,
  * the flat-JSON round trip E(render(D(b))) of the implementation.
"""
import json
from fractions import Fraction

from harness import core, msgs
from harness import objs
from harness import coder_io as C
from harness import coderprops as P


class XCase(P.Case):
    """a case with explicitly chosen values: `expect` = the canonical values a decoder must return
    (strings padded / truncated to the field width), `kind` = which generator made it"""

    def __init__(self, parts, n, comp, edition, idx, valss, expect=None, kind='special'):
        P.Case.__init__(self, parts, [], n, comp, edition, idx)
        self.valss = valss
        self.expect = expect if expect is not None else valss
        self.kind = kind

    def replay(self):
        r = P.Case.replay(self)
        r['expect'] = self.expect
        r['kind'] = self.kind
        return r


def expect_of(c):
    return getattr(c, 'expect', None) or c.valss


def kind_of(c):
    return getattr(c, 'kind', 'generated')


# ---------------------------------------------------------------------------------------------
# element parameters under the operators (regulation formulas; DESIGN C01 "numeric rule")
def eff_params(b, eid, y201=0, y202=0, y207=0, newref=None):
    """-> (width, scale, reference) of numeric element `eid` with 201YYY / 202YYY / 207YYY in force and an
    optional 203 new reference value"""
    _, _, scale, ref, nbits = b[eid][:5]
    w = int(nbits) + ((y201 - 128) if y201 else 0) + (((10 * y207 + 2) // 3) if y207 else 0)
    s = int(scale) + ((y202 - 128) if y202 else 0) + y207
    r = (int(ref) if newref is None else newref) * 10 ** y207
    return w, s, r


def grid(raw, s, r):
    """the model value a field holding `raw` stands for: (raw + r) / 10^s"""
    if raw is None:
        return None
    q = raw + r
    return q if s == 0 else {'m': q, 's': s}


def frac(v):
    """model numeric value -> Fraction"""
    if isinstance(v, int):
        return Fraction(v)
    s = v['s']
    return Fraction(v['m']) / Fraction(10) ** s if s >= 0 else Fraction(v['m']) * Fraction(10) ** (-s)


def same_model_value(a, e):
    if a is None or e is None:
        return a is None and e is None
    ab = isinstance(a, dict) and 'b' in a
    eb = isinstance(e, dict) and 'b' in e
    if ab or eb:
        return ab and eb and a['b'] == e['b']
    return frac(a) == frac(e)


def same_decoded(a, e):
    """decoded model value vs canonical value; a missing character field decodes to its 0xFF bytes"""
    if e is None and isinstance(a, dict) and 'b' in a:
        return len(a['b']) > 0 and set(a['b']) == {'f'}
    return same_model_value(a, e)


def _unused(a, e):
    return frac(a) == frac(e)


def round_half_even(x):
    """Fraction -> nearest integer, ties to even"""
    f = x.numerator // x.denominator
    r = x - f
    if 2 * r < 1:
        return f
    if 2 * r > 1:
        return f + 1
    return f if f % 2 == 0 else f + 1


def scaled(x, s):
    """exact x * 10^s"""
    return x * Fraction(10) ** s if s >= 0 else x / Fraction(10) ** (-s)


def pad(hexs, nbytes):
    b = bytes.fromhex(hexs)[:nbytes]
    return (b + b' ' * (nbytes - len(b))).hex()


def first_byte_diff(a, b):
    return next((k for k, (x, y) in enumerate(zip(a, b)) if x != y), min(len(a), len(b)))


# ---------------------------------------------------------------------------------------------
# C02 oracle
def frame_oracle(c, b):
    try:
        fr = msgs.parse_frame(b)
    except Exception as e:  # noqa
        return 'frame', 'message does not parse as a BUFR frame: %r' % (e,)
    if fr['total'] != len(b) or fr['end'] != len(b) or b[-4:] != b'7777' or b[7] != c.edition:
        return 'frame', 'frame lengths inconsistent: declared %d, sections end at %d, produced %d bytes' % (fr['total'], fr['end'], len(b))
    if c.edition <= 3 and any(n % 2 for i, _, n in fr['sections'] if 1 <= i <= 4):
        return 'frame', 'edition %d section with an odd number of octets' % c.edition
    try:
        nsub, comp, ids = P.parse_section3(b)
    except Exception as e:  # noqa
        return 'section3', 'section 3 does not parse: %r' % (e,)
    if ids != c.ids:
        k = first_byte_diff(ids, c.ids)
        return 'section3', 'descriptor packing: section 3 holds %s where %s was given (position %d)' % (ids[k:k + 1], c.ids[k:k + 1], k)
    if nsub != c.n or comp != bool(c.comp):
        return 'section3', 'section 3 says %d subsets compressed=%s' % (nsub, comp)
    return None


def values_oracle(c, b, dec):
    """the implementation's data bits, decoded by the model decoder, must be the canonical values and
    leave nothing but zero padding (< 1 octet, < 2 for edition <= 3)"""
    if 'err' in dec:
        return 'undecodable', 'the data section does not decode (model decoder: %s)' % dec['err']
    exp = expect_of(c)
    subs = dec['subsets']
    if len(subs) != len(exp):
        return 'values', 'number of subsets'
    for i, (s, e) in enumerate(zip(subs, exp)):
        if len(s['v']) != len(e):
            return 'values', 'subset %d holds %d values, %d were given' % (i, len(s['v']), len(e))
        for k, (a, x) in enumerate(zip(s['v'], e)):
            if not same_decoded(a, x):
                return 'values', 'subset %d value %d (%s): the bits hold %s, the canonical value is %s' % (i, k, s['d'][k], json.dumps(a), json.dumps(x))
    rest = dec.get('rest', 0)
    bits = C.data_bits(b)
    if rest and set(bits[len(bits) - rest:]) - {'0'}:
        return 'padding', 'non-zero padding bits'
    if rest >= (16 if c.edition <= 3 else 8):
        return 'padding', '%d padding bits' % rest
    return None


def py_key(v):
    """a user value as the encoder compares it (`values.count(values[0])`)"""
    return C.to_py_input(v)


def column_oracle(c, cols):
    """FM-94 94.6.3 on the raw column structure: minimum, 6-bit width, increments reconstructing the raw
    values; all ones <-> missing; width 0 <-> the encoder saw all subsets agree"""
    if 'err' in cols:
        return 'undecodable', 'compressed columns do not parse (%s)' % cols['err']
    n = c.n
    exp = expect_of(c)
    for col in cols['cols']:
        k, w, idx = col['k'], col['w'], col['i']
        user = [vs[idx] for vs in c.valss]
        canon = [vs[idx] for vs in exp]
        keys = [py_key(v) for v in user]
        saw_equal = keys.count(keys[0]) == n
        where = 'column %d (%s, width %d)' % (idx, k, w)
        if k == 'r':
            sg, mag, nd = col['raw']
            if nd != 0 or not saw_equal or (sg == 1 and mag == 0) or user[0] != (-mag if sg else mag):
                return 'column', where + ': new reference value written as sign %d magnitude %d width %d for %s' % (sg, mag, nd, user[:3])
            continue
        nd, mn, diffs = col['nd'], col['min'], col['diffs']
        if (nd == 0) != saw_equal:
            return 'column-width', where + ': difference width %d although the subsets %s' % (nd, 'all agree' if saw_equal else 'differ')
        if k == 's':
            want = [('ff' * w) if v is None else pad(v['b'], w) for v in canon]
            if nd == 0:
                if mn != want[0]:
                    return 'column', where + ': all-equal string column holds %s, expected %s' % (mn, want[0])
                continue
            if nd != w or mn != '00' * w or diffs != want:
                return 'column', where + ': string column min=%s nd=%d diffs=%s, expected %s' % (mn, nd, diffs[:3], want[:3])
            continue
        if k == 'n':
            raws = []
            for v in canon:
                if v is None:
                    raws.append(None)
                    continue
                t = scaled(frac(v), col['scale'])
                q = round_half_even(t)
                raws.append(q - col['ref'])
        else:
            raws = list(canon)
        ones = (1 << w) - 1
        if nd == 0:
            want = ones if raws[0] is None else raws[0]
            if mn != want:
                return 'column', where + ': all-equal column holds %d, raw value is %s' % (mn, want)
            continue
        present = [r for r in raws if r is not None]
        if not present:
            return 'column', where + ': nothing present but width %d' % nd
        if len(diffs) != n:
            return 'column', where + ': %d increments for %d subsets' % (len(diffs), n)
        if mn != min(present):
            return 'column', where + ': minimum field %d, least raw value %d' % (mn, min(present))
        dones = (1 << nd) - 1
        for i, (r, d) in enumerate(zip(raws, diffs)):
            if (r is None) != (d == dones):
                return 'column-missing', where + ': subset %d %s but increment %d of %d bits' % (i, 'missing' if r is None else 'present', d, nd)
            if r is not None and mn + d != r:
                return 'column', where + ': subset %d increment %d on minimum %d does not give raw %d' % (i, d, mn, r)
    return None


def compare_spec(c, impl, model, spec):
    """the third stream: the bits the SPECIFICATION assigns (no encoder involved) against the
    implementation's section 4 and against the model encoder.  None when all agree."""
    st, b, subs = impl
    has = 'bits' in spec
    if spec.get('wf') and ('bits' in model) != has:
        return 'specification and model encoder disagree on acceptance (contradicts C02_data_bits_canonical)'
    if has and 'bits' in model and spec['bits'] != model['bits']:
        return 'specification and model encoder write different bits (contradicts C02_data_bits_canonical)'
    if st != 'ok':
        if has:
            return 'the specification assigns a bit stream, the implementation refuses (%s)' % st
        return None
    if not has:
        return 'the implementation encodes values to which the specification assigns no bit stream'
    pos, n = C.locate_sections(b)[4]
    sec4 = ''.join('{:08b}'.format(x) for x in b[pos:pos + n])
    if sec4 != spec['sec4']:
        k = next((k for k, (x, y) in enumerate(zip(sec4, spec['sec4'])) if x != y), min(len(sec4), len(spec['sec4'])))
        return ('section 4 differs from the specification (length, reserved octet, canonical bits, zero padding) at bit %d '
                '(implementation %d bits, specification %d)' % (k, len(sec4), len(spec['sec4'])))
    if 'msg' in spec:
        if spec['msg'] is None:
            return 'the specification assigns no whole message (a section value has no code), the implementation encodes one'
        wb = bytes.fromhex(spec['msg'])
        if wb != b:
            return ('whole message differs from the canonical message of the specification (Spec.canonMessageBits) at byte %d '
                    '(implementation %d, specification %d bytes)' % (first_byte_diff(wb, b), len(b), len(wb)))
    return None


class Result(object):
    __slots__ = ('c', 'impl', 'model', 'why_model', 'why_spec', 'spec', 'oracle', 'both_refused')

    def __init__(self, c, impl, model):
        self.c, self.impl, self.model = c, impl, model
        self.why_model = None
        self.why_spec = None          # implementation vs the SPECIFICATION's bits (driver op canon-bits)
        self.spec = None
        self.oracle = None
        self.both_refused = False


def evaluate_encode(drv, treq, cases):
    """C02: implementation encoder vs model encoder vs independently assembled message vs the bits of the
    SPECIFICATION (`Spec.canonDataBits`, theorem C02_data_bits_canonical), and the oracle on the
    implementation's bytes.  -> [Result]"""
    enc = P.run_encode(drv, treq, cases)
    reqs = [treq]
    plan = []
    for c, impl, model in enc:
        st, b, subs = impl
        ent = {'spec': len(reqs)}
        js0 = C.make_message_json(c.ids, P.py_inputs(c.valss), c.comp, edition=c.edition)
        reqs.append({'op': 'canon-bits', 'ids': c.ids, 'compressed': c.comp, 'vals': c.valss, 'edition': c.edition,
                     'sections': msgs.model_sections(js0, c.edition)})
        if st == 'ok':
            bits = C.data_bits(b)
            ent['dec'] = len(reqs)
            reqs.append({'op': 'dec-data', 'ids': c.ids, 'compressed': c.comp, 'n': c.n, 'bits': bits})
            if c.comp:
                ent['col'] = len(reqs)
                reqs.append({'op': 'col-parse', 'ids': c.ids, 'n': c.n, 'bits': bits})
            if 'bits' in model:
                js = C.make_message_json(c.ids, P.py_inputs(c.valss), c.comp, edition=c.edition)
                ent['msg'] = len(reqs)
                reqs.append(msgs.encode_req(js, c.edition, model['bits']))
            if getattr(c, 'idx', 0) % 4 == 1:
                # the same data in a message WITH section 2: implementation bytes vs the specification's message
                js2 = C.make_message_json(c.ids, P.py_inputs(c.valss), c.comp, edition=c.edition, sec2='')
                ent['impl2'] = C.impl_encode(js2)
                ent['spec2'] = len(reqs)
                reqs.append({'op': 'canon-bits', 'ids': c.ids, 'compressed': c.comp, 'vals': c.valss, 'edition': c.edition,
                             'sections': msgs.model_sections(js2, c.edition)})
        plan.append(ent)
    res = drv.batch(reqs)
    out = []
    for (c, impl, model), ent in zip(enc, plan):
        r = Result(c, impl, model)
        st, b, subs = impl
        r.why_model = P.compare_encode(c, impl, model)
        r.spec = res[ent['spec']]
        r.why_spec = compare_spec(c, impl, model, r.spec)
        if not r.why_spec and 'spec2' in ent:
            w2 = compare_spec(c, ent['impl2'], model, res[ent['spec2']])
            if w2:
                r.why_spec = 'with section 2: ' + w2
            else:
                r.spec = dict(r.spec, with_section2=True)
        if st != 'ok':
            if 'err' in model:
                r.both_refused = True
            else:
                r.oracle = ('refused', 'the encoder refuses (%s) values that conform to the template' % st)
            out.append(r)
            continue
        if 'msg' in ent and not r.why_model:
            whole = res[ent['msg']]
            if 'err' in whole:
                r.why_model = 'independent whole-message construction fails: %s' % whole['err']
            else:
                wb = bytes.fromhex(whole['hex'])
                if wb != b:
                    r.why_model = 'whole message differs from the independently constructed one at byte %d (%d vs %d bytes)' % (
                        first_byte_diff(wb, b), len(b), len(wb))
                elif C.replace_data(b, model['bits']) != b:
                    r.why_model = 'message differs from its own frame with the model data bits put in'
        r.oracle = frame_oracle(c, b) or values_oracle(c, b, res[ent['dec']])
        if r.oracle is None and 'col' in ent:
            r.oracle = column_oracle(c, res[ent['col']])
        out.append(r)
    return out


# ---------------------------------------------------------------------------------------------
# flat-JSON round trip of the implementation
def impl_reencode(b):
    """E(render(D(b))) -> ('ok', bytes) or (err_tag, None)"""
    from pybufrkit.decoder import Decoder
    from pybufrkit.encoder import Encoder
    from pybufrkit.renderer import FlatJsonRenderer
    from pybufrkit.utils import JSON_DUMPS_KWARGS
    try:
        msg = objs.decoder().process(b, wire_template_data=False)
        s = json.dumps(FlatJsonRenderer().render(msg), **JSON_DUMPS_KWARGS)
        out = objs.encoder().process(s, wire_template_data=False)
    except FileNotFoundError as e:
        # the Encoder looks tables up without the Decoder's fall-back to the default version (normalize=0)
        return 'no-tables', None
    except Exception as e:  # noqa
        return core.err_tag(e), None
    return 'ok', out.serialized_bytes
