"""
C17, the part "metadata-only decoding never interprets the data section" - as a matrix over BOTH entry points.

What is quantified over
  messages    one-bit messages of msgs.make_message (edition 2/3/4 x section 2 absent/empty/bits x n_subsets 0/1/2/many x
              uncompressed/compressed x 0..40 data bits per subset), messages over real templates from the coder
              pipeline (streams.gen_messages: replication, operators, bitmaps, strings, compressed), NCEP table-definition
              messages (generated with the C20 generator, and the real ones of tests/data/prepbufr.bufr, n_subsets 1 and
              0), a prepbufr observation message whose local descriptors are defined nowhere on disk, and the first message
              of every sample file;
  headers     EVERY data_category 0..255 x n_subsets class (0 / 1 / many), and per run a set of other header values written
              into the message with a layout-driven bit patch: master table number, master / local table versions that do
              not exist on disk, unknown centre / sub-centre, update sequence number, n_subsets contradicting the data
              (0, 1, 65535), the compressed flag flipped, the first descriptor of section 3 replaced by one no table knows;
  data        intact / random bytes / all 0xFF / all 0x00 between the 4-octet header of section 4 and its declared end,
              with the stop signature kept or damaged, or the stream cut right at the declared end of section 4
              (section 5 missing);
  entry       Decoder.process(info_only=True) (followed by nothing / junk), and generate_bufr_message(info_only=True)
              over streams of 1..4 such messages with separators, in four modes each: plain, continue_on_error,
              filter_expr, filter_expr + continue_on_error (the filter over data_category / n_subsets / edition /
              is_compressed, true for all / some / none of the messages).

Oracle (implementation alone): every message of the stream is delivered (with a filter: exactly those whose header
satisfies it), in order, with `serialized_bytes` = the declared total length taken from its position, sections 0-3 equal
to those of a FULL decode of the intact original (and the cut section 4 equal to the head of the full one), and nothing is
raised.  Where the intact original has no full decode (descriptor unknown, header contradicting the data) the sections
expected are those of the model's metadata-only decode.

Correspondence: `scan` (Msg.Stream.scan in info mode over the section model) on the same streams and modes: offsets,
lengths, outcome; `msg-decode` metadata-only on the damaged messages.
"""
import contextlib
import glob
import io
import os
import time

from harness import core, msgs, objs
from harness import streams as S

DATA_KINDS = ('intact', 'random', 'ff', 'zero', 'cut')
MODES = ('plain', 'continue', 'filter', 'filter+continue')
UNKNOWN_DESCRIPTORS = (0x3FFF, 0xFFFF, 0x3F00 | 0xFE)     # 0-63-255, 3-63-255, 0-63-254


# ---------------------------------------------------------------------------------------------
# layout-driven header patch (no pybufrkit code involved)
def field_pos(b, name):
    """(bit offset in the message, nbits, type) of a fixed-position parameter of sections 0, 1, 3; None if the edition's
    layout has no such parameter.  'descriptors' = the start of the descriptor list of section 3."""
    fr = msgs.parse_frame(b)
    for idx, off, n in fr['sections']:
        if idx not in (0, 1, 3):
            continue
        lay = msgs.layout_for(idx, fr['edition'] if idx else 0)
        pos = off * 8
        for p in lay['parameters']:
            if p['type'] == 'unexpanded_descriptors':
                if name == 'descriptors':
                    return pos, (off + n) * 8 - pos, 'descriptors'
                break
            if p['name'] == name:
                return pos, p['nbits'], p['type']
            if p['nbits'] == 0:
                break
            pos += p['nbits']
    return None


def patch(b, name, value):
    """the message with the header parameter overwritten (value reduced to the field width); None when not applicable"""
    fp = field_pos(b, name)
    if fp is None:
        return None
    pos, nbits, ty = fp
    if ty == 'descriptors':
        if nbits < 16:
            return None
        nbits = 16
    x = int.from_bytes(b, 'big')
    total = len(b) * 8
    shift = total - pos - nbits
    mask = ((1 << nbits) - 1) << shift
    x = (x & ~mask) | ((int(value) & ((1 << nbits) - 1)) << shift)
    return x.to_bytes(len(b), 'big')


def read_field(b, name):
    fp = field_pos(b, name)
    if fp is None:
        return None
    pos, nbits, ty = fp
    x = int.from_bytes(b, 'big')
    return (x >> (len(b) * 8 - pos - nbits)) & ((1 << nbits) - 1)


# ---------------------------------------------------------------------------------------------
class Base(object):
    """an intact message and what is expected of every metadata-only decode of it"""
    __slots__ = ('b', 'spec', 'frame', 'expect', 'full_ok', 'meta', 'big')

    def __init__(self, b, spec):
        self.b, self.spec = b, spec
        self.frame = msgs.parse_frame(b)
        self.expect = None          # [(index, params)] of the metadata-only decode: sections 0-3 + head of section 4
        self.full_ok = None
        self.meta = None
        self.big = len(b) > 3000

    def patched(self, name, value, label=None):
        nb = patch(self.b, name, value)
        if nb is None or nb == self.b:
            return None
        return Base(nb, dict(self.spec, patch=dict(self.spec.get('patch', {}), **{label or name: value})))


class VM(object):
    """one message as it is put into a stream: the intact original with its data section treated"""
    __slots__ = ('base', 'kind', 'stop_damaged', 'b', 'cut')

    def __init__(self, base, kind, rng):
        self.base, self.kind = base, kind
        fr = base.frame
        off4, n4 = [(off, n) for idx, off, n in fr['sections'] if idx == 4][0]
        b = bytearray(base.b[:fr['end']])
        fill = kind
        self.cut = kind == 'cut'
        if self.cut:
            fill = rng.choice(['intact', 'random', 'ff'])
        lo, hi = off4 + 4, off4 + n4
        if fill == 'random':
            b[lo:hi] = bytes(rng.randrange(256) for _ in range(hi - lo))
        elif fill == 'ff':
            b[lo:hi] = b'\xff' * (hi - lo)
        elif fill == 'zero':
            b[lo:hi] = b'\x00' * (hi - lo)
        self.stop_damaged = False
        if self.cut:
            b = b[:hi]
        elif kind != 'intact' and rng.random() < 0.5:
            self.stop_damaged = True
            b[hi:hi + 4] = bytes(rng.choice(b'7\x00\xff8 fr') for _ in range(4))
            if bytes(b[hi:hi + 4]) == b'7777':
                b[hi] = 0
        self.b = bytes(b)

    def spec(self):
        return dict(self.base.spec, data=self.kind, stop_damaged=self.stop_damaged)

    def meta(self):
        return self.base.meta

    @property
    def declared(self):
        return self.base.frame['total']

    @property
    def slack(self):
        """octets behind the message's own bytes that its declared total length spans"""
        return max(0, self.declared - len(self.b))


# ---------------------------------------------------------------------------------------------
def _set(js, edition, has2, name, value):
    """set a header parameter in an encoder input of msgs.make_message"""
    present = [0, 1] + ([2] if has2 else []) + [3, 4, 5]
    for index, vals in zip(present, js):
        lay = msgs.layout_for(index, edition if index else 0)
        for i, p in enumerate(lay['parameters']):
            if p['name'] == name:
                vals[i] = value
                return True
    return False


def one_bit_bases(ctx, rng):
    out = []
    ks = [0, 1, 5, 8, 13, 40]
    for ed in (2, 3, 4):
        for s2i, s2 in enumerate((None, '', msgs.rand_bits(rng, rng.choice([8, 16, 24])))):
            for n in (0, 1, 2, rng.choice([3, 5, 9])):
                for comp in (False, True):
                    k = rng.choice(ks)
                    js, payload = msgs.make_message(rng, ed, k, s2, n)
                    if comp and not n and rng.random() < 0.6:
                        continue        # (compressed, no subsets) has no full decode: kept, but rarer
                    if comp and n:
                        _set(js, ed, s2 is not None, 'is_compressed', True)
                    e = msgs.impl_encode(js, True)
                    if 'err' in e:
                        ctx.count('info-matrix:encoder-refused')
                        continue
                    b = bytes.fromhex(e['hex'])
                    spec = {'src': 'one-bit', 'ed': ed, 'sec2': s2, 'n': n, 'k': k, 'comp': bool(comp and n)}
                    base = Base(b, spec)
                    if comp and not n:
                        # the encoder refuses compressed data without subsets: set the flag in the produced message
                        base = base.patched('is_compressed', 1) or base
                        base.spec['comp'] = True
                    out.append(base)
    return out


def template_bases(ctx, rng, count):
    out = []
    for m in S.gen_messages(ctx.driver, rng, count, level=2, max_subsets=4):
        out.append(Base(m.b, {'src': 'template', 'ed': m.edition, 'n': m.n, 'comp': bool(m.comp), 'ids': m.ids,
                              'sec2': m.sec2}))
    return out


def tabledef_bases(ctx, rng, count):
    """NCEP-style table definition messages (data category 11) from the generator of C20"""
    out = []
    try:
        from harness import coder_io as C
        from harness.props import c20
        for i in range(count):
            g = c20.StreamGen(rng, 13, False)
            m = g.def_message('add')
            ed = rng.choice([3, 4])
            js = C.make_message_json(c20.DEF_IDS, [c20.def_values(m)], False, edition=ed,
                                     overrides={'data_category': 11, 'master_table_version': 13, 'originating_centre': 7,
                                                'originating_subcentre': 3, 'local_table_version': 0})
            st, b, _ = C.impl_encode(js)
            if st != 'ok':
                ctx.count('info-matrix:tabledef-encoder-refused')
                continue
            out.append(Base(b, {'src': 'tabledef-generated', 'ed': ed, 'n': 1, 'comp': False,
                                'entries': [len(m['a']), len(m['b']), len(m['d'])]}))
    except Exception as e:  # noqa - the generator belongs to another property; the real file below remains
        ctx.notes.append('C20 table-definition generator not usable here: %r' % (e,))
    return out


def file_bases(ctx, limit):
    out = []
    for f in sorted(glob.glob(os.path.join(core.REPO, 'tests', 'data', '*.bufr'))):
        s = open(f, 'rb').read()
        name = os.path.basename(f)
        pos = 0
        k = 0
        want = (0, 1, 12) if name == 'prepbufr.bufr' else (0,)
        while k <= max(want):
            i = s.find(b'BUFR', pos)
            if i < 0:
                break
            try:
                fr = msgs.parse_frame(s[i:])
            except Exception:  # noqa
                break
            if fr['end'] != fr['total'] or i + fr['end'] > len(s):
                break
            if k in want and fr['end'] <= limit:
                out.append(Base(s[i:i + fr['end']], {'src': 'file', 'file': name, 'message': k}))
            pos = i + fr['end']
            k += 1
    return out


# ---------------------------------------------------------------------------------------------
def n_class(base):
    n = read_field(base.b, 'n_subsets')
    return 'n0' if n == 0 else 'n1' if n == 1 else 'many'


def fill_expectations(ctx, bases):
    """sections 0-3 (+ head of section 4) of a full decode of the intact original; model fallback where there is none"""
    todo = []
    for base in bases:
        full = msgs.impl_decode(base.b, info_only=False)
        full.pop('_msg', None)
        ctx.traces += 1
        if 'err' not in full:
            secs = [(s['index'], s['params']) for s in full['sections']]
            exp = [x for x in secs if x[0] <= 3]
            s4 = [x for x in secs if x[0] == 4]
            if not s4 or len(exp) + 2 != len(secs):
                ctx.violation('full decode of a generated message returned sections %s' % [x[0] for x in secs],
                              {'hex': base.b.hex()[:4000], 'spec': base.spec}, signature={'kind': 'info-data', 'entry': 'full'})
                continue
            head = [p for p in s4[0][1] if p[0] != 'template_data']
            base.expect = exp + [(4, head)]
            base.full_ok = True
            ctx.count('info-matrix:expected-from-full-decode')
        else:
            base.full_ok = False
            todo.append(base)
            ctx.count('info-matrix:no-full-decode(%s)' % full['err'])
    if todo:
        for base, mo in zip(todo, ctx.driver.batch([msgs.decode_req(b.b, 0, True) for b in todo])):
            mo = msgs.strip_model_decode(mo)
            if 'err' in mo:
                ctx.count('info-matrix:model-refuses-intact')
                continue
            base.expect = [(s['index'], s['params']) for s in mo['sections']]
    ok = []
    for base in bases:
        if base.expect is None:
            continue
        vals = {}
        for idx, params in base.expect:
            for name, tv in params:
                vals.setdefault(name, tv[1])
        base.meta = {'edition': vals.get('edition'), 'n_subsets': vals.get('n_subsets'),
                     'data_category': vals.get('data_category'), 'is_compressed': int(bool(vals.get('is_compressed')))}
        ok.append(base)
    return ok


class _Meta(object):
    def __init__(self, m):
        self.m = m

    def meta(self):
        return self.m


def table_state():
    """the process-global in-stream table definitions (what a table-definition message registers)"""
    try:
        from pybufrkit.tables import TableGroupCacheManager
        c = TableGroupCacheManager._TABLE_GROUP_CACHE
        return (len(c.extra_b_entries), len(c.extra_d_entries), getattr(c, 'extra_entries_generation', None))
    except Exception:  # noqa
        return None


def quiet_scan(s, info_only, cont, filter_expr, limit):
    """-> ([(serialized_bytes, [(index, params)])], outcome)"""
    from pybufrkit.decoder import generate_bufr_message
    import itertools
    items = []
    outcome = 'done'
    try:
        with contextlib.redirect_stderr(io.StringIO()):
            gen = generate_bufr_message(objs.decoder(), s, info_only=info_only, continue_on_error=cont,
                                        filter_expr=filter_expr, wire_template_data=False)
            for m in itertools.islice(gen, limit):
                items.append((m.serialized_bytes, [(x.get_metadata('index'), msgs.canon_section(x)) for x in m.sections]))
            if len(items) >= limit:
                outcome = 'limit'
    except Exception as e:  # noqa
        outcome = core.err_tag(e)
        S.LAST_EXC.clear()
        S.LAST_EXC.update(S.exc_detail(e))
    return items, outcome


def as_lists(x):
    return [[i, [[n, list(t)] for n, t in ps]] for i, ps in x]


def check_process(ctx, vm, rng):
    """entry point 1: Decoder.process(info_only=True) on the treated message (+ nothing / junk behind it)"""
    tail = b'' if vm.cut else bytes(rng.randrange(256) for _ in range(rng.choice([0, 0, 3, 9])))
    info = msgs.impl_decode(vm.b + tail, info_only=True)
    info.pop('_msg', None)
    ctx.traces += 1
    ctx.count('info-matrix:process:' + vm.kind)
    ctx.case({'entry': 'process', 'spec': vm.spec(), 'len': len(vm.b)}, nontrivial=vm.kind != 'intact')
    sig = {'kind': 'info-data', 'entry': 'process', 'data': vm.kind}
    if 'err' in info:
        ctx.violation('Decoder.process(info_only=True) fails with %s on a message whose data section is %s (%s)' % (
            info['err'], vm.kind, vm.spec()), {'info_matrix': replay_obj(vm.b + tail, [(0, vm)], 'process')}, signature=sig)
        return None
    got = [(s['index'], s['params']) for s in info['sections']]
    if as_lists(got) != as_lists(vm.base.expect):
        ctx.violation('Decoder.process(info_only=True) on a message whose data section is %s returns other sections 0-3 / '
                      'section 4 head than the %s of the intact original (%s)' % (
                          vm.kind, 'full decode' if vm.base.full_ok else 'model', vm.spec()),
                      {'info_matrix': replay_obj(vm.b + tail, [(0, vm)], 'process'), 'got': got, 'expected': vm.base.expect},
                      signature=sig)
        return None
    return info


def replay_obj(stream, placed, mode, filt=None):
    return {'stream': stream.hex(), 'mode': mode, 'filter': filt,
            'messages': [{'pos': pos, 'intact': vm.base.b.hex(), 'spec': vm.spec()} for pos, vm in placed]}


def build_stream(rng, vms):
    s = b''
    placed = []
    seps = []
    for i, vm in enumerate(vms):
        kind, sep = S.separator(rng)
        if i == 0 and rng.random() < 0.5:
            kind, sep = 'empty', b''
        need = placed[-1][1].slack if placed else 0
        if len(sep) < need:
            # the declared total length of the message before reaches past its own bytes (stream cut at the end of its
            # section 4, or a total length declared too large): it takes these octets of the separator with it
            kind, sep = 'noise%d' % need, S.noise(rng, need + rng.randint(0, 8))
        seps.append(kind)
        s += sep
        placed.append((len(s), vm))
        s += vm.b
    if not vms[-1].cut:
        s += rng.choice([b'', b'', b'\r\r\n\x03', b'BUF', b'tail', S.noise(rng, rng.randint(1, 9))])
    elif rng.random() < 0.5:
        s += S.noise(rng, rng.randint(1, 8))
    return s, placed, seps


def eval_stream(ctx, s, placed, mode, filt):
    """oracle on one scan; returns (item bytes, outcome) for the correspondence, or None after a violation"""
    cont = 'continue' in mode
    expr, clauses, pred = filt if 'filter' in mode else (None, None, None)
    want = [(pos, vm) for pos, vm in placed if pred is None or pred(vm.meta())]
    before = table_state()
    items, outcome = quiet_scan(s, True, cont, expr, len(placed) + 2)
    after = table_state()
    ctx.traces += 1
    ctx.count('info-matrix:scan:' + mode)
    sig = {'kind': 'info-data', 'entry': 'scan', 'mode': mode}
    bad = None
    culprit = None
    if outcome != 'done':
        detail = dict(S.LAST_EXC) if outcome.startswith('err') else {}
        bad = 'ends with %s%s instead of delivering all messages' % (
            outcome, ' (%s in %s)' % (detail.get('exc'), detail.get('where')) if detail else '')
        culprit = len(items)
    elif len(items) != len(want):
        bad = 'delivers %d messages, %d expected' % (len(items), len(want))
        got_bytes = [x[0] for x in items]
        for k, (pos, vm) in enumerate(want):
            if s[pos:pos + vm.declared] not in got_bytes:
                culprit = k
                break
    else:
        for k, ((gb, gs), (pos, vm)) in enumerate(zip(items, want)):
            if gb != s[pos:pos + vm.declared]:
                bad = 'message %d: serialized_bytes are not the declared %d octets from its position (got %d octets)' % (
                    k, vm.declared, len(gb))
            elif as_lists(gs) != as_lists(vm.base.expect):
                bad = 'message %d: sections 0-3 / section 4 head differ from the %s of the intact original' % (
                    k, 'full decode' if vm.base.full_ok else 'model')
            if bad:
                culprit = k
                break
    if not bad and after != before:
        bad = ('changed the process-wide table definitions (%s -> %s: B entries, D entries, generation): the data section of a '
               'table-definition message was decoded' % (before, after))
        tds = [k for k, (pos, vm) in enumerate(want) if vm.meta()['data_category'] == 11]
        culprit = tds[0] if tds else None
    if bad:
        w = want[culprit][1] if culprit is not None and culprit < len(want) else None
        ctx.violation('metadata-only scan (%s%s) of a stream of %d messages %s%s' % (
            mode, ', filter %r' % expr if expr else '', len(placed), bad,
            '; message concerned: %s' % (w.spec(),) if w else ''),
            {'info_matrix': replay_obj(s, placed, mode, [expr, clauses] if expr else None)}, signature=sig)
        return None
    return [x[0] for x in items], outcome


def make_filter(rng, vms):
    expr, clauses, pred = S.make_filter(rng, [_Meta(vm.meta()) for vm in vms])
    return expr, clauses, pred


# ---------------------------------------------------------------------------------------------
def plan_bases(ctx, rng):
    quick = ctx.tier == 'quick'
    pools = {'one-bit': one_bit_bases(ctx, rng), 'template': template_bases(ctx, rng, 14 if quick else 60),
             'tabledef': tabledef_bases(ctx, rng, 2 if quick else 8), 'file': file_bases(ctx, 20000 if quick else 10 ** 9)}
    small = [b for k in ('one-bit', 'template', 'tabledef') for b in pools[k]]
    small += [b for b in pools['file'] if not b.big]
    by_class = {'n0': [], 'n1': [], 'many': []}
    for b in small:
        by_class[n_class(b)].append(b)
    planned = []
    # 1. every data category x class of n_subsets
    for c in range(256):
        for cls in ('n0', 'n1', 'many'):
            src = rng.choice(by_class[cls])
            nb = src.patched('data_category', c)
            planned.append(nb or src)
    # 2. other header values that select code paths / tables
    others = [('master_table_number', [1, 10, rng.randrange(2, 256)]),
              ('master_table_version', [0, 1, rng.randrange(40, 255), 255]),
              ('local_table_version', [1, 2, rng.randrange(3, 255), 255]),
              ('originating_centre', [rng.randrange(1, 256), 255, 65535]),
              ('originating_subcentre', [rng.randrange(1, 256), 65535]),
              ('update_sequence_number', [rng.randrange(1, 256)]),
              ('n_subsets', [0, 1, 65535, rng.randrange(2, 65535)]),
              ('length', ['+1', '+%d' % rng.randrange(2, 9), '-1', '-%d' % rng.randrange(2, 5)]),
              ('is_compressed', [0, 1]),
              ('is_section2_presents', []),      # never patched: it moves the sections (covered by generation)
              ('descriptors', list(UNKNOWN_DESCRIPTORS))]
    for name, values in others:
        for v in values:
            for rep in range(2 if quick else 6):
                src = rng.choice(small)
                if name == 'length':        # a declared total length that is not the sum of the sections
                    nb = src.patched(name, src.frame['total'] + int(v), label='length' + v)
                else:
                    nb = src.patched(name, v, label='first_descriptor' if name == 'descriptors' else None)
                if nb is None:
                    ctx.count('info-matrix:patch-not-applicable:' + name)
                    continue
                if rng.random() < 0.5:      # together with a data category (incl. the table-definition one)
                    nb = nb.patched('data_category', rng.choice([11, 11, rng.randrange(256)])) or nb
                planned.append(nb)
    # 3. real messages as they are, and with other categories
    for b in pools['file'] + pools['tabledef']:
        planned.append(b)
        for c in ([11, rng.randrange(256)] if not b.big else [11]):
            nb = b.patched('data_category', c)
            if nb is not None:
                planned.append(nb)
    ctx.notes.append('info matrix: bases one-bit %d, template %d, table definitions generated %d, sample-file messages %d; '
                     'planned intact originals %d' % (len(pools['one-bit']), len(pools['template']), len(pools['tabledef']),
                                                     len(pools['file']), len(planned)))
    return planned


def run(ctx):
    rng = ctx.rng('info-matrix')
    t0 = time.time()
    with contextlib.redirect_stderr(io.StringIO()):
        bases = fill_expectations(ctx, plan_bases(ctx, rng))
    breaks = []
    vms = []
    cats = set()
    quick = ctx.tier == 'quick'
    for base in bases:
        cls = n_class(base)
        cats.add((base.meta['data_category'], cls))
        kinds = list(DATA_KINDS)
        if quick:
            # quick tier: all-zero data on a fifth of the originals; messages without subsets get three of the treatments
            if base.big or rng.random() < 0.8:
                kinds.remove('zero')
            if cls == 'n0':
                kinds = rng.sample(kinds, 3)
        for kind in kinds:
            vms.append(VM(base, kind, rng))
    ctx.notes.append('info matrix: %d message variants; (data category, n_subsets class) pairs covered: %d of 768' % (
        len(vms), len(cats)))
    t1 = time.time()
    # entry point 1
    model_reqs, model_impl = [], []
    for vm in vms:
        info = check_process(ctx, vm, rng)
        if info is not None and vm.kind != 'intact' and (not vm.base.big) and rng.random() < 0.25:
            model_reqs.append(msgs.decode_req(vm.b, 0, True))
            model_impl.append(info)
    for req, im, mo in zip(model_reqs, model_impl, ctx.driver.batch(model_reqs)):
        ctx.traces += 1
        mo = msgs.strip_model_decode(mo)
        if mo != im:
            breaks.append({'req': {k: (v if k != 'hex' else v[:4000]) for k, v in req.items()}, 'impl': im, 'model': mo})
    t2 = time.time()
    # entry point 2: streams of 1..4
    order = list(vms)
    rng.shuffle(order)
    streams = []
    i = 0
    while i < len(order):
        n = rng.choice([1, 2, 2, 3, 3, 4])
        streams.append(order[i:i + n])
        i += n
    reqs, impl_obs = [], []
    for chunk in streams:
        s, placed, seps = build_stream(rng, chunk)
        filt = make_filter(rng, chunk)
        big = any(vm.base.big for vm in chunk)
        ctx.case({'entry': 'scan', 'n': len(chunk), 'specs': [vm.spec() for vm in chunk], 'seps': seps},
                 nontrivial=any(vm.kind != 'intact' for vm in chunk))
        ctx.count('info-matrix:stream-of-%d' % len(chunk))
        for mode in MODES:
            r = eval_stream(ctx, s, placed, mode, filt)
            if r is None:
                break
            if rng.random() < ((0.1 if big else 0.5) if mode == 'plain' else (0.0 if big else 0.12)) * (1 if quick else 2):
                reqs.append(S.scan_req(s, True, 'continue' in mode, filt[1] if 'filter' in mode else None))
                impl_obs.append((s, mode, r))
    t3 = time.time()
    for req, (s, mode, (ib, io_)), mo in zip(reqs, impl_obs, ctx.driver.batch(reqs)):
        ctx.traces += 1
        mb = S.model_items(s, mo)
        if mb != ib or mo['outcome'] != io_:
            breaks.append({'scan': mode, 'stream': s.hex()[:4000], 'filter': req['filter'],
                           'impl': [[len(x) for x in ib], io_], 'model': [mo['items'], mo['outcome']]})
    ctx.notes.append('info matrix: %d streams x %d modes; model scans %d, model metadata-only decodes %d' % (
        len(streams), len(MODES), len(reqs), len(model_reqs)))
    ctx.notes.append('info matrix wall: generation + full decodes %.1fs, Decoder.process %.1fs, scans %.1fs, model scans %.1fs' % (
        t1 - t0, t2 - t1, t3 - t2, time.time() - t3))
    return breaks


def replay(ctx, rp):
    """re-evaluate a recorded stream: the expectation is recomputed from the recorded intact originals"""
    s = bytes.fromhex(rp['stream'])
    placed = []
    bases = []
    for m in rp['messages']:
        base = Base(bytes.fromhex(m['intact']), m.get('spec') or {})
        bases.append(base)
    with contextlib.redirect_stderr(io.StringIO()):
        fill_expectations(ctx, bases)
    for m, base in zip(rp['messages'], bases):
        vm = VM.__new__(VM)
        vm.base, vm.kind, vm.stop_damaged, vm.cut = base, (m.get('spec') or {}).get('data', '?'), False, False
        vm.b = s[m['pos']:m['pos'] + base.frame['end']]
        placed.append((m['pos'], vm))
    if rp['mode'] == 'process':
        pos, vm = placed[0]
        info = msgs.impl_decode(s, info_only=True)
        info.pop('_msg', None)
        got = None if 'err' in info else [(x['index'], x['params']) for x in info['sections']]
        ok = got is not None and as_lists(got) == as_lists(vm.base.expect)
        print('replay process: %s' % ('holds' if ok else 'FAILS: %s' % (info.get('err') or 'other sections')))
        if not ok:
            ctx.violation('replay: Decoder.process(info_only=True) %s' % (info.get('err') or 'returns other sections'),
                          {'info_matrix': rp}, signature={'kind': 'info-data', 'entry': 'process'})
        return
    filt = None
    if rp.get('filter'):
        expr, clauses = rp['filter']
        ops = {'==': lambda a, b: a == b, '!=': lambda a, b: a != b, '<': lambda a, b: a < b,
               '<=': lambda a, b: a <= b, '>': lambda a, b: a > b, '>=': lambda a, b: a >= b}
        filt = (expr, clauses, lambda meta: all(ops[op](meta[n.lstrip('%')], k) for n, op, k in clauses))
    r = eval_stream(ctx, s, placed, rp['mode'], filt)
    print('replay scan (%s): %s' % (rp['mode'], 'holds' if r is not None else 'FAILS'))
