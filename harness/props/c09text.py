"""
C09, text formats - flat text and nested text of the template data and their converters back to the flat form.

Theorems: lean/BufrModel/Props/C09Text.lean over the model lean/BufrModel/View/Text.lean (renderers and converters
character by character; value tokens, element names and `ast.literal_eval` are parameters).  This module is the tie
between that model and /repo, called from harness/props/c09.py as `run_text(ctx)`:

  * hypotheses `ReprOK` of the theorems, TESTED on every flat value met (Python's repr / ast.literal_eval): the
    token evaluates back to the value, has no white space at either end, a non-bytes token holds no blank and does
    not end in a quote, a bytes token is b<q>...<q> without an inner " b<q>"; the tuple token of a flag table value
    evaluates to a tuple whose first item is the value.  The model's `isPySpace` against `str.isspace` on every
    code point.
  * correspondence, per message: the implementation's template-data lines of FlatTextRenderer / NestedTextRenderer
    against the model's lines (driver op `text`, `reprV` instantiated with Python's repr of each flat value, names
    and flag-table ids taken from the implementation's descriptors) - literally, every character; the
    implementation's `subsets_flat_text_to_flat_json` / `subsets_nested_text_to_flat_json` (values and the line index
    they stop at) against the model's converters run on the IMPLEMENTATION's lines (the model returns the text it
    would hand to ast.literal_eval, the harness evaluates it); the decidable side conditions of the theorems
    (`len_ok`, `side_ok`, `text_ok`) must hold on every message whose wiring pass succeeds.
  * element and sequence names: a share of the messages is rendered a second time with the names of its descriptors
    replaced (in this process only, restored afterwards) by hostile ones: empty, longer than the column, holding
    " b'", "->", "-> A", "# ---", "######", "<<<<<<", " = ", quotes, trailing blanks, non-ASCII and non-breaking spaces.
  * oracle first: a model/implementation disagreement is reported as a failing input only when the implementation's
    own round trip (text -> flat == flat JSON) fails on that message; otherwise `no-failing-input-found`.
"""
import ast
import json
import multiprocessing
import os
import random

from harness import core, tables_io
from harness import coder_io as C
from harness import coderprops as P
from harness import views_io as V

QUOTES = ('"', "'")

TRICKY_NAMES = [
    '', 'X', 'A', '3', '#', '->', '-> A', '-> A01001 X 5', "b'x'", " b'", ' b"', "x b'y", 'a = b', '# --- 1 of 2 replications ---',
    '###### subset 1 of 1 ######', '<<<<<< section 5 >>>>>>', '######', '<<<<<<', "it's", 'say "hi"', 'TRAILING   ', '   LEADING',
    'None', '(1, [2])', 'caf\xe9 \xff', 'NBSP\xa0', '\xa0', 'tab\tinside', 'dots....', '....', '. . .', 'X' * 57, 'X' * 58, 'Y' * 67,
    'Y' * 68, 'Z' * 90, 'long name with blanks ' * 5, 'W' * 66 + '\xe9\xe9\xe9', "Q' ", 'Q" ', '5', '-1', "'", '"', '\\', "\\'",
    'NAME ENDING IN b', "NAME ENDING IN  b'", 'A12345', '301001 SEQ', '\u3000wide', 'x\u2009y',
]


# ---------------------------------------------------------------------------------------------
# hypotheses of the theorems (structure ReprOK in Lean), tested with Python's own repr / literal_eval
def repr_hypotheses(v, bits=None):
    """-> list of violated hypotheses for the flat value `v` (and its flag-table tuple when `bits` is given)"""
    bad = []
    tok = repr(v)
    try:
        back = ast.literal_eval(tok)
        if not V.strict_equal(back, v):
            bad.append('eval_repr')
    except Exception:  # noqa
        bad.append('eval_repr')
    if not tok or tok[0].isspace() or tok[-1].isspace():
        bad.append('edges')
    if isinstance(v, bytes):
        q = tok[-1]
        if not (len(tok) >= 3 and tok[0] == 'b' and tok[1] == q and q in QUOTES and tok[:-1].rfind(' b' + q) == -1):
            bad.append('bytes_tok')
    else:
        if ' ' in tok or tok[-1] in QUOTES:
            bad.append('plain_tok')
    if bits is not None:
        ftok = repr((v, bits))
        try:
            back = ast.literal_eval(ftok)
            if not (isinstance(back, tuple) and V.strict_equal(back[0], v)):
                bad.append('eval_flag')
        except Exception:  # noqa
            bad.append('eval_flag')
        if not ftok or ftok[0].isspace() or ftok[-1].isspace():
            bad.append('flag_edges')
    return bad


# ---------------------------------------------------------------------------------------------
def named_descriptors(msg, td):
    """every descriptor object of the message that has a `name` (decoded entries, template tree), by identity"""
    found = {}

    def visit(d):
        if id(d) in found:
            return
        if hasattr(d, 'name'):
            found[id(d)] = d
        f = getattr(d, 'factor', None)
        if f is not None:
            visit(f)
        for m in getattr(d, 'members', None) or []:
            visit(m)

    for m in td.template.members:
        visit(m)
    for descs in td.decoded_descriptors_all_subsets:
        for d in descs:
            if hasattr(d, 'name') and id(d) not in found:
                found[id(d)] = d
    return list(found.values())


def owners_against_links(td):
    """The `-> N` column of the flat text (bitmap_links) names the owner of every bitmap-linked value; in the
    hierarchical view (what the nested formats print) that value must hang on exactly that owner.
    -> None or a description of the first attribute on a wrong owner."""
    from pybufrkit import templatedata as T
    for k in range(td.n_subsets):
        links = td.bitmap_links_all_subsets[k]

        def visit(nodes, seen):
            for n in nodes:
                if isinstance(n, T.DelayedReplicationNode):
                    r = visit([n.factor], seen)
                    if r:
                        return r
                if hasattr(n, 'members'):
                    r = visit(n.members, seen)
                    if r:
                        return r
                if isinstance(n, T.NoValueDataNode):
                    continue
                for a in getattr(n, 'attributes', []):
                    if id(a) in seen:
                        continue
                    seen.add(id(a))
                    if a.index in links and not isinstance(a, T.AssociatedFieldNode) and links[a.index] != n.index:
                        return 'subset %d: value %d hangs on entry %d, the flat text links it to entry %d' % (
                            k + 1, a.index + 1, n.index + 1, links[a.index] + 1)
            return None

        r = visit(td.decoded_nodes_all_subsets[k], set())
        if r:
            return r
    return None


def td_part(text):
    """lines as the converters see them (`splitlines()[1:]`), index of the first subset header, index of the section
    header that ends the template data"""
    lines = text.splitlines()[1:]
    i0 = next((i for i, l in enumerate(lines) if l.startswith('######')), None)
    if i0 is None:
        return lines, None, None
    i5 = next((i for i in range(i0, len(lines)) if lines[i].startswith('<<<<<<')), len(lines))
    return lines, i0, i5


def observe_text(b, fuzz=None, max_values=None):
    """Implementation side for message bytes `b`.  fuzz: None or a seed for replacing the names."""
    from pybufrkit.decoder import Decoder
    from pybufrkit.renderer import FlatTextRenderer, FlatJsonRenderer, NestedTextRenderer
    from pybufrkit import utils as U
    out = {}
    try:
        msg = Decoder().process(b, wire_template_data=False)
    except Exception as e:  # noqa
        out['decode'] = core.err_tag(e)
        return out
    out['decode'] = 'ok'
    key = msg.table_group_key
    out['tables'] = [key.wmo_tables_sn, key.local_tables_sn, key.tables_root_dir]
    td = msg.template_data.value
    out['n_subsets'] = msg.n_subsets.value
    out['compressed'] = bool(msg.is_compressed.value)
    lens = [len(v) for v in td.decoded_values_all_subsets]
    out['n_values'] = sum(lens)
    if max_values is not None and sum(lens) > max_values:
        out['decode'] = 'skipped:large'
        return out
    named = named_descriptors(msg, td)
    saved = [(d, d.name) for d in named]
    try:
        if fuzz is not None:
            r = random.Random(fuzz)
            by_id = {}
            for d in named:
                if d.id not in by_id:
                    by_id[d.id] = r.choice(TRICKY_NAMES)
                d.name = by_id[d.id]
        names = {}
        for d in named:
            names[d.id] = d.name
        flags = set()
        hyp = {}
        nvals = 0
        for descs, vals in zip(td.decoded_descriptors_all_subsets, td.decoded_values_all_subsets):
            for d, v in zip(descs, vals):
                bits = None
                if getattr(d, 'unit', None) == 'FLAG TABLE':
                    flags.add(d.id)
                    if v is not None:
                        bits = [i + 1 for i, c in enumerate('{:0{}b}'.format(v, d.nbits)) if c == '1']
                nvals += 1
                for h in repr_hypotheses(v, bits):
                    hyp.setdefault(h, repr(v)[:60])
        out['hyp_bad'] = hyp
        out['hyp_values'] = nvals
        out['names'] = sorted(names.items())
        out['flags'] = sorted(flags)
        out['name_lens'] = [len(n) for n in names.values()]
        out['reprs'] = [[repr(v) for v in vals] for vals in td.decoded_values_all_subsets]
        out['len_ok'] = [len(a) == len(c) for a, c in zip(td.decoded_descriptors_all_subsets, td.decoded_values_all_subsets)]
        flat = FlatJsonRenderer().render(msg)
        flat_td = td.decoded_values_all_subsets
        stages = {}
        out['stages'] = stages

        def stage(name, render, convert_all, convert_subsets):
            st = {}
            stages[name] = st
            try:
                text = render()
            except RecursionError:
                st['render'] = 'err:other'
                st['exc'] = 'RecursionError'
                return
            except Exception as e:  # noqa
                st['render'] = core.err_tag(e)
                st['exc'] = '%s: %s' % (type(e).__name__, str(e)[:120])
                return
            st['render'] = 'ok'
            # the round trip of the whole message (the property's statement)
            try:
                back = convert_all(text)
                d = V.first_strict_diff(back, flat)
                st['roundtrip'] = 'ok' if d is None else 'differs at %s: %r vs %r' % (list(d[0]), d[1], d[2])
            except Exception as e:  # noqa
                st['roundtrip'] = 'raises %s: %s' % (type(e).__name__, str(e)[:100])
            lines, i0, i5 = td_part(text)
            if i0 is None:
                st['lines'] = None
                return
            st['lines'] = lines[i0:i5]
            st['tail'] = lines[i0:]
            # the loop the model mirrors, observed directly
            try:
                idx, data = convert_subsets(lines, i0)
                st['back'] = {'rest': len(lines) - idx, 'data': data}
                st['back_equal'] = V.first_strict_diff(data, flat_td) is None
            except Exception as e:  # noqa
                st['back'] = {'err': core.err_tag(e), 'exc': '%s: %s' % (type(e).__name__, str(e)[:100])}

        stage('flat_text', lambda: FlatTextRenderer().render(msg), U.flat_text_to_flat_json, U.subsets_flat_text_to_flat_json)
        try:
            msg.wire()
            out['wire'] = 'ok'
        except Exception as e:  # noqa
            out['wire'] = core.err_tag(e)
        if out['wire'] == 'ok':
            out['owner_bad'] = owners_against_links(td)
            stage('nested_text', lambda: NestedTextRenderer().render(msg), U.nested_text_to_flat_json, U.subsets_nested_text_to_flat_json)
    finally:
        for d, n in saved:
            d.name = n
    return out


def text_request(ids, obs, b):
    st = obs['stages']
    return {'op': 'text', 'ids': ids, 'compressed': obs['compressed'], 'n': obs['n_subsets'], 'bits': C.data_bits(b),
            'reprs': obs['reprs'], 'names': [[k, v] for k, v in obs['names']], 'flags': obs['flags'],
            'impl_flat': st.get('flat_text', {}).get('tail'), 'impl_nested': st.get('nested_text', {}).get('tail')}


def eval_tokens(toks, untuple):
    """what the converter makes of the token texts the model extracted; raises what literal_eval raises"""
    out = []
    for sub in toks:
        row = []
        for t in sub:
            v = ast.literal_eval(t)
            if untuple and isinstance(v, tuple):
                v = v[0]
            row.append(v)
        out.append(row)
    return out


def first_line_diff(a, m):
    for i, (x, y) in enumerate(zip(a, m)):
        if x != y:
            k = next((k for k, (p, q) in enumerate(zip(x, y)) if p != q), min(len(x), len(y)))
            return 'line %d differs at column %d: implementation %r, model %r' % (i, k, x[:140], y[:140])
    if len(a) != len(m):
        return '%d lines (implementation) vs %d (model); first extra: %r' % (
            len(a), len(m), (a[len(m)] if len(a) > len(m) else m[len(a)])[:120])
    return None


def compare_back(name, st, mb, untuple):
    """implementation's subsets_*_to_flat_json on its own lines against the model's converter on the same lines"""
    ib = st.get('back')
    if ib is None or mb is None:
        return None
    if 'err' in mb:
        if 'err' in ib:
            return None
        return '%s -> flat: model err:%s, implementation ok' % (name, mb['err'])
    try:
        vals = eval_tokens(mb['toks'], untuple)
    except Exception as e:  # noqa
        if 'err' in ib:
            return None
        return '%s -> flat: a token extracted by the model does not evaluate (%s), implementation ok' % (name, type(e).__name__)
    if 'err' in ib:
        return '%s -> flat: implementation raises %s, model ok' % (name, ib.get('exc'))
    if mb['rest'] != ib['rest']:
        return '%s -> flat: stops %d lines before the end (implementation) vs %d (model)' % (name, ib['rest'], mb['rest'])
    d = V.first_strict_diff(ib['data'], vals)
    if d is not None:
        return '%s -> flat: values differ at %s: implementation %r, model %r' % (name, list(d[0]), d[1], d[2])
    return None


def correspondence(obs, model):
    """-> list of (stage, why)"""
    bad = []
    if 'err' in model:
        return [('decode', 'model does not decode (%s), implementation does' % model['err'])]
    st = obs['stages']
    ft = st.get('flat_text', {})
    if ft.get('render') == 'ok' and ft.get('lines') is not None:
        d = first_line_diff(ft['lines'], model['flat_lines'])
        if d:
            bad.append(('flat_text', 'flat text: ' + d))
        why = compare_back('flat text', ft, model.get('flat_back_impl'), True)
        if why:
            bad.append(('flat_text', why))
    elif ft.get('render') not in (None, 'ok'):
        bad.append(('flat_text', 'flat text: implementation fails to render (%s), the model renders' % ft.get('exc')))
    if model['len_ok'] != obs['len_ok'] or not all(model['len_ok']):
        bad.append(('flat_text', 'descriptor and value lists differ in length: %s / %s' % (obs['len_ok'], model['len_ok'])))
    nt = st.get('nested_text')
    mn = model['nested_lines']
    if nt is None:
        if not isinstance(mn, dict):
            bad.append(('nested_text', 'nested text: wiring fails in the implementation (%s), model ok' % obs.get('wire')))
    elif nt.get('render') != 'ok':
        if not isinstance(mn, dict):
            bad.append(('nested_text', 'nested text: implementation fails to render (%s), model ok' % nt.get('exc')))
    elif isinstance(mn, dict):
        bad.append(('nested_text', 'nested text: model err:%s, implementation renders' % mn['err']))
    elif nt.get('lines') is not None:
        d = first_line_diff(nt['lines'], mn)
        if d:
            bad.append(('nested_text', 'nested text: ' + d))
        why = compare_back('nested text', nt, model.get('nested_back_impl'), False)
        if why:
            bad.append(('nested_text', why))
        # decidable hypotheses of the nested text theorem: must hold whenever the pass succeeds
        if not all(x is True for x in model['side_ok']) or not all(x is True for x in model['text_ok']):
            bad.append(('nested_text_side', 'side conditions of C09_nested_text_to_flat_partial do not hold: side_ok %s text_ok %s' % (
                model['side_ok'], model['text_ok'])))
    if model.get('flat_lines_ok') is False or model.get('nested_lines_ok') is False:
        bad.append(('lines_ok', 'a rendered line holds a line boundary or the text ends in an empty line (linesOK false): '
                                'join/splitlines would not give the lines back'))
    # the theorems, evaluated: the model's converters on the model's own lines give back the tokens of the flat values
    for key, name in (('flat_back_model', 'flat'), ('nested_back_model', 'nested')):
        mb = model.get(key)
        if isinstance(mb, dict) and 'toks' in mb and name == 'nested' and not (
                all(x is True for x in model['side_ok']) and all(x is True for x in model['text_ok'])):
            continue
        if isinstance(mb, dict) and 'toks' in mb:
            want = obs['reprs']
            got = mb['toks']
            if name == 'flat':
                # flag table tokens are tuples; compare by value
                try:
                    got_v = eval_tokens(got, True)
                    want_v = eval_tokens(want, False)
                    ok = V.first_strict_diff(got_v, want_v) is None and mb['rest'] == 1
                except Exception:  # noqa
                    ok = False
            else:
                ok = got == want and mb['rest'] == 1
            if not ok:
                bad.append((name + '_theorem', 'the model\'s %s text converter on the model\'s own lines does not return the flat values '
                                               '(theorem instance fails; hypotheses broken?)' % name))
    return bad


def oracle(obs):
    """the property on the implementation alone: text -> flat == flat JSON, for the whole message"""
    bad = []
    if obs.get('owner_bad'):
        bad.append(('nested_owner', 'the nested view hangs a bitmap-linked value on another owner than the flat text names: ' + obs['owner_bad']))
    for name, st in obs.get('stages', {}).items():
        if st.get('render') != 'ok':
            if name == 'flat_text' or obs.get('wire') == 'ok':
                bad.append((name, 'rendering failed: %s' % st.get('exc')))
        elif st.get('roundtrip') != 'ok':
            bad.append((name, 'converted text != flat JSON: %s' % st.get('roundtrip')))
    return bad


# ---------------------------------------------------------------------------------------------
def evaluate(args):
    b, fuzz, max_values = args
    try:
        return observe_text(b, fuzz=fuzz, max_values=max_values)
    except Exception:  # noqa
        import traceback
        return {'harness_error': traceback.format_exc()[-1500:]}


def slim(obs):
    """drop what the parent process does not need (after the comparison was made in the worker)"""
    for k in ('reprs',):
        obs.pop(k, None)
    for st in obs.get('stages', {}).values():
        for k in ('lines', 'tail', 'back'):
            st.pop(k, None)


def slim_model(model):
    return {k: v for k, v in model.items() if k in ('err', 'side_ok', 'text_ok', 'len_ok')}


def report(ctx, kind, stage, why, ids, b, tag=None, failing=True, extra=None):
    sig = {'kind': kind, 'stage': 'text:' + stage}
    try:
        from harness.props import c09 as base
        sig.update({'assoc_in_force_over': base.assoc_loud(ids) if ids else [], 'qa_resumed': bool(ids) and base.qa_resumed(ids)})
    except Exception:  # noqa
        pass
    if tag:
        sig['shape'] = tag
    rep = {'ids': ids, 'message_hex': b.hex() if b is not None else None, 'why': why, 'format': stage}
    rep.update(extra or {})
    ctx.violation('%s %s: %s (ids %s)' % (kind, stage, why, (ids or [])[:40]), rep, signature=sig, no_failing_input=not failing)


def check_one(ctx, ids, b, obs, model=None, diffs=None, tag=None, fuzz=None):
    """oracle first, then the correspondence; -> True when something was reported"""
    if 'harness_error' in obs:
        raise core.MachineryError('text observation failed: ' + obs['harness_error'])
    if obs.get('decode') != 'ok':
        return False
    extra = {'name_fuzz_seed': fuzz} if fuzz is not None else None
    ctx.count('text:values-hypotheses-tested', obs.get('hyp_values', 0))
    for h, ex in (obs.get('hyp_bad') or {}).items():
        # a hypothesis of the theorems is false for a value the implementation produced: the theorems do not
        # cover this message; nothing is wrong with the implementation unless its round trip fails (oracle below)
        ctx.violation('hypothesis ReprOK.%s of the text theorems fails for the value %s' % (h, ex),
                      {'ids': ids, 'message_hex': b.hex() if b is not None else None, 'hypothesis': h, 'value': ex},
                      signature={'kind': 'hypothesis', 'stage': 'text:' + h}, no_failing_input=True)
    bad = oracle(obs)
    reported = False
    for stage, why in bad[:1]:
        report(ctx, 'oracle', stage, why, ids, b, tag=tag, extra=extra)
        reported = True
    if diffs is None and model is not None:
        diffs = correspondence(obs, model)
    for stage, why in (diffs or [])[:1]:
        # a disagreement between model and implementation: a failing input only if the implementation's own
        # round trip fails on it (reported above); otherwise the tie is broken, not (visibly) the property
        report(ctx, 'correspondence', stage, why, ids, b, tag=tag, failing=False, extra=extra)
        reported = True
    return reported


def run_text(ctx, drv=None, pool=None):
    """entry point for harness/props/c09.py"""
    drv = drv or ctx.driver or core.Driver()
    own_pool = pool is None
    if own_pool:
        pool = multiprocessing.Pool(min(14, os.cpu_count() or 2))
    try:
        probe = drv.batch([{'op': 'text', 'probe': 'spaces'}])[0]['spaces']
        py = [c for c in range(0x110000) if chr(c).isspace()]
        if probe != py:
            ctx.violation('the model\'s isPySpace differs from str.isspace: %s' % sorted(set(probe) ^ set(py))[:10],
                          {'model': probe, 'python': py}, signature={'kind': 'hypothesis', 'stage': 'text:isspace'}, no_failing_input=True)
        ctx.count('text:isspace-code-points', 0x110000)
        # the model's splitlines / join against str.splitlines / '\n'.join on strings built around every line boundary
        r = ctx.rng('text-splitlines')
        alphabet = ['\n', '\r', '\r\n', '\x0b', '\x0c', '\x1c', '\x1d', '\x1e', '\x85', '\u2028', '\u2029', 'a', ' ', '', 'xy', '\x1f', '\t', '\xa0']
        texts = [''.join(r.choice(alphabet) for _ in range(r.randint(0, 8))) for _ in range(300)]
        resp = drv.batch([{'op': 'text', 'probe': 'splitlines', 'texts': texts}])[0]
        for t, ls, jn in zip(texts, resp['lines'], resp['joined']):
            if ls != t.splitlines() or jn != '\n'.join(t.splitlines()):
                ctx.violation('the model\'s splitlines/join differs from Python on %r: %r vs %r' % (t, ls, t.splitlines()),
                              {'text': t, 'model': ls, 'python': t.splitlines()},
                              signature={'kind': 'hypothesis', 'stage': 'text:splitlines'}, no_failing_input=True)
                break
        ctx.count('text:splitlines-strings', len(texts))
        treq = tables_io.group_request()
        run_text_generated(ctx, drv, treq, pool)
        run_text_corpus(ctx, pool)
    finally:
        if own_pool:
            pool.terminate()


BITMAP_POOL = [1001, 1002, 2001, 4001, 4002, 5002, 10004, 11001, 11002, 12001, 12004, 13003]


def bitmap_shapes(rng, k):
    """uncompressed (and compressed) messages whose bitmap selects, subset by subset, DIFFERENT elements (same number
    of zero bits, so the descriptor lists of the subsets are equal): quality information, substituted / replaced
    values, first-order and difference statistics -> (ids, forced-per-subset function, tag)"""
    out = []
    for _ in range(k):
        m = rng.randint(2, 6)
        z = rng.randint(1, m - 1)
        elems = [rng.choice(BITMAP_POOL) for _ in range(m)]
        kind = rng.choice(['222', '223', '224', '225', '232'])
        rep_m, rep_z = 101000 + m, 101000 + z
        if kind == '222':
            ids = elems + [222000, rep_m, 31031, rep_z, 33007]
        elif kind == '223':
            ids = elems + [223000, rep_m, 31031, rep_z, 223255]
        elif kind == '232':
            ids = elems + [232000, rep_m, 31031, rep_z, 232255]
        elif kind == '224':
            ids = elems + [224000, rep_m, 31031, 8023, rep_z, 224255]
        else:
            ids = elems + [225000, rep_m, 31031, 8024, rep_z, 225255]
        out.append((ids, m, z, 'bitmap-per-subset'))
    return out


def build_shapes(ctx, drv, treq):
    """the shapes the property names (harness/props/c09.py SHAPES + strings), compressed and not, as message bytes;
    all value lists come from ONE driver batch"""
    from harness.props import c09 as base
    rng = ctx.rng('text-shapes')
    shapes = list(base.SHAPES) + base.string_shapes(rng, 16 if ctx.tier == 'quick' else 120)
    plan = []
    reqs = [treq]
    for ids, forced, tag in shapes:
        for comp in (False, True):
            n = rng.randint(1, 3)
            force = [[k, list(v) * (1 if comp else n)] for k, v in sorted(forced.items())]
            reqs.append({'op': 'gen-data', 'ids': ids, 'n': n, 'shared': comp, 'rnd': C.rnd_bits(rng, 3000), 'force': force})
            plan.append((ids, tag, comp))
    for ids, m, z, tag in bitmap_shapes(rng, 24 if ctx.tier == 'quick' else 300):
        n = rng.randint(2, 3)
        comp = rng.random() < 0.2
        bits = []
        for _ in range(1 if comp else n):
            row = [0] * z + [1] * (m - z)
            rng.shuffle(row)
            bits += row
        reqs.append({'op': 'gen-data', 'ids': ids, 'n': n, 'shared': comp, 'rnd': C.rnd_bits(rng, 3000), 'force': [[31031, bits]]})
        plan.append((ids, tag, comp))
    items = []
    for (ids, tag, comp), r in zip(plan, drv.batch(reqs)[1:]):
        if 'err' in r:
            ctx.count('text:shape-not-built')
            continue
        st, b, _ = C.impl_encode(C.make_message_json(ids, P.py_inputs(r['vals']), comp, edition=4))
        if st != 'ok':
            ctx.count('text:shape-not-built')
            continue
        items.append((ids, b, tag))
    return items


def run_text_generated(ctx, drv, treq, pool):
    rng = ctx.rng('text-main')
    count = 360 if ctx.tier == 'quick' else 6000
    items = build_shapes(ctx, drv, treq)
    done = 0
    while done < count:
        k = min(300, count - done)
        cases = []
        for level in (0, 1, 2):
            cases += P.gen_cases(rng, k // 3, level=level)
        done += len(cases)
        cases = P.gen_values(drv, treq, cases, rng)
        for c in cases:
            js = C.make_message_json(c.ids, P.py_inputs(c.valss), c.comp, edition=c.edition)
            st, b, _ = C.impl_encode(js)
            if st == 'ok':
                items.append((c.ids, b, None))
    # every message with the table names, one in two a second time with hostile names
    jobs = []
    for ids, b, tag in items:
        jobs.append((ids, b, tag, None))
        if rng.random() < 0.5 or tag is not None:
            jobs.append((ids, b, tag, rng.randrange(1 << 30)))
    for lo in range(0, len(jobs), 400):
        part = jobs[lo:lo + 400]
        obss = pool.map(evaluate, [(b, fuzz, None) for (_, b, _, fuzz) in part], chunksize=8)
        live = [(j, o) for j, o in zip(part, obss) if 'harness_error' in o or o.get('decode') == 'ok']
        for j, o in live:
            if 'harness_error' in o:
                raise core.MachineryError('text observation failed: ' + o['harness_error'])
        models = drv.batch([treq] + [text_request(ids, o, b) for (ids, b, _, _), o in live])[1:]
        for ((ids, b, tag, fuzz), obs), model in zip(live, models):
            ctx.case({'text': True, 'ids': ids, 'n': obs['n_subsets'], 'compressed': obs['compressed'], 'fuzz': fuzz},
                     nontrivial=obs['n_values'] > 0, sample=False)
            ctx.traces += 1
            ctx.count('text:messages')
            if fuzz is not None:
                ctx.count('text:hostile-names')
            if obs.get('wire') == 'ok':
                ctx.count('text:nested-rendered')
            if any(n > 67 for n in obs.get('name_lens', [])):
                ctx.count('text:name-longer-than-column')
            if obs['flags']:
                ctx.count('text:flag-table-values')
            if tag:
                ctx.count('text:shape:' + tag)
            check_one(ctx, ids, b, obs, model=model, tag=tag, fuzz=fuzz)


def corpus_compare(args):
    """worker: observation + model + comparison for one file (only the verdict travels back)"""
    path, max_values = args
    try:
        with open(path, 'rb') as f:
            raw = f.read()
        raw = raw[raw.find(b'BUFR'):]
        obs = observe_text(raw, max_values=max_values)
        if obs.get('decode') != 'ok':
            return obs, None, None
        wmo_sn, local_sn, root = obs['tables']
        tb, td = tables_io.read_group(tuple(wmo_sn), tuple(local_sn) if local_sn else None, root)
        nsub, comp, ids = P.parse_section3(raw)
        model = core.Driver().batch([tables_io.tables_request(tb, td), text_request(ids, obs, raw)])[1]
        obs['diffs'] = correspondence(obs, model)
        slim(obs)
        return obs, slim_model(model), ids
    except core.MachineryError as e:
        return {'harness_error': 'machinery: %s' % e}, None, None
    except Exception:  # noqa
        import traceback
        return {'harness_error': traceback.format_exc()[-1500:]}, None, None


def run_text_corpus(ctx, pool):
    d1 = os.path.join(core.REPO, 'tests', 'data')
    d2 = os.path.join(core.REPO, 'tests', 'benchmark_data')
    files = [os.path.join(d1, f) for f in sorted(os.listdir(d1)) if f.endswith('.bufr') and 'prepbufr' not in f and 'invalid' not in f]
    bench = [os.path.join(d2, f) for f in sorted(os.listdir(d2)) if f.endswith('.bufr')]
    quick = ctx.tier == 'quick'
    if quick:
        r = ctx.rng('text-corpus')
        r.shuffle(bench)
        bench = sorted(bench[:30])
    files += bench
    results = pool.map(corpus_compare, [(p, 15000 if quick else None) for p in files], chunksize=1)
    for path, (obs, model, ids) in zip(files, results):
        name = os.path.basename(path)
        if 'harness_error' in obs:
            raise core.MachineryError('text observation failed on %s: %s' % (name, obs['harness_error']))
        if obs.get('decode') != 'ok':
            ctx.count('text:corpus-skipped:' + str(obs.get('decode')))
            continue
        ctx.case({'text': True, 'file': name, 'values': obs['n_values']}, nontrivial=True, sample=False)
        ctx.traces += 1
        ctx.count('text:corpus-files')
        if any(n > 67 for n in obs.get('name_lens', [])):
            ctx.count('text:corpus:name-longer-than-column')
        check_one(ctx, ids, None, obs, diffs=obs.get('diffs') or [], tag='file:' + name)


# ---------------------------------------------------------------------------------------------
def replay_text(ctx, rep):
    """replay of a violation reported by this module (called from c09.replay when 'format' is in the replay)"""
    b = bytes.fromhex(rep['message_hex'])
    obs = observe_text(b, fuzz=rep.get('name_fuzz_seed'))
    model = ctx.driver.batch([tables_io.group_request(), text_request(rep['ids'], obs, b)])[1]
    print('replay(text): oracle %s; correspondence %s' % (oracle(obs) or 'holds', correspondence(obs, model) or 'agrees'))
    check_one(ctx, rep['ids'], b, obs, model=model, fuzz=rep.get('name_fuzz_seed'))


if __name__ == '__main__':
    # stand-alone: python -m harness.props.c09text [seed] [tier]
    import sys
    import time
    seed = int(sys.argv[1]) if len(sys.argv) > 1 else 0
    tier = sys.argv[2] if len(sys.argv) > 2 else 'quick'
    ctx = core.Context('C09', tier, seed)
    ctx.driver = core.Driver()
    t0 = time.time()
    run_text(ctx)
    print(json.dumps({k: v for k, v in sorted(ctx.dist.items()) if k.startswith('text:')}, indent=1))
    print('C09 text: tier=%s seed=%d evaluations=%d traces=%d violations=%d known=%d wall=%.1fs' % (
        tier, seed, ctx.evaluations, ctx.traces, ctx.violations, len(ctx.known_hits), time.time() - t0))
    sys.exit(1 if ctx.violations else 0)
