"""
C11 — a byte stream is split into exactly the messages it contains.

Theorems: lean/BufrModel/Props/C11.lean (over an abstract per-offset decoder with the frame property;
the section model has it: C12_ofSections_frame; the filter is an arbitrary predicate).
Tie: streams of 0..8 generated messages (editions 2-4, compressed or not, 1-3 subsets, optional section 2,
character payloads and local bits carrying `BUFR` / `7777` byte aligned) and corpus files, joined by
separators {empty, GTS-like headings, noise without the signature, `BUF`, `BU`, `B`, noise ending in a
partial signature}, scanned by `generate_bufr_message` and by the model's `scan` (section model + coder
model on the same tables) in both modes, with and without a filter over %data_category / %n_subsets /
%edition / %is_compressed (true for all / some / none of the messages).
Systematic product (`run_grid`): mode {full, info-only} x continue-on-error {off, on} x filter {none, and EVERY
pattern of kept / rejected messages of streams of 1..5 messages: true for all, for some, for none} x the
separator after each message from {empty, 1, 2, 3, 4, 5 bytes, `BUF`, `BU`, `B`, `7777`, CR CR LF, GTS heading,
noise}, rotated so that every (kept/rejected, separator, kept/rejected next) transition occurs in every mode.
General filters (`run_filters`, harness/filters.py): expressions over EVERY metadata parameter name of every
section layout, bare and section-qualified, compared (== != < <= > >=, `not`, truthiness, `in`, `is None`,
containment, two queries, and / or combinations) with values that occur in the stream including 0 / False /
'' on messages whose free section parameters are 0 as well as non-zero.
Oracle (on the implementation alone): the yielded `serialized_bytes` are exactly the known pieces for
which the filter holds (the expression evaluated directly, with Python operators, on the parameter values
found by a plain scan of the sections of a fresh full decode of each piece), in order; `command_split`
writes exactly those pieces and their concatenation is the concatenation of the messages; `info -c` counts them.
"""
import argparse
import contextlib
import io
import itertools
import json
import os
import shutil
import subprocess
import sys
import tempfile

from harness import core, tables_io
from harness import coderprops as P
from harness import streams as S
from harness import filters as F
from harness import defstreams as DS

PROP = 'C11'

META = dict(
    claimed=True,
    text='Kernel-checked theorems about the Lean model of generate_bufr_message (signature search, decode at the offset, '
         'advance by decoded / declared length, filter on the metadata-only decode, unmatched branch, error branch) for ALL '
         'streams sep0 m1 sep1 .. mk sepk of valid messages and signature-free separators, any per-offset decoder with the '
         'frame property (proved for the section model), both modes, with and without filter (an arbitrary predicate): exactly '
         'the messages, at their offsets, with their bytes; inner signatures ignored; concatenation of the pieces = the messages; '
         'a rejected message advances by exactly its length when only metadata is read and never beyond it in either mode, and '
         'the message after it is found for any separator including the empty one; fuel never runs out. '
         'Plus model-vs-implementation correspondence and the oracle on generated and corpus streams, command_split and the CLI: '
         'random streams; the systematic product mode x continue-on-error x every kept/rejected pattern of up to 5 messages x '
         'separator after each message (empty, 1-5 bytes, BUF, BU, B, 7777, CR CR LF, GTS heading, noise); filter expressions over '
         'every metadata parameter name of every section layout, bare and section-qualified, compared with values occurring in the '
         'stream including 0 / False / empty (== != < <= > >= not in is-None containment, and/or combinations), expected selection '
         'from the expression evaluated directly on the parameter values of a fresh full decode of each piece.',
    technique='Lean 4 theorems (induction over the list of pieces, no-border lemma for BUFR) + checked model/implementation correspondence',
    note='Source tie: decoder.generate_bufr_message is re-translated from the repository into Lean on every check (harness/py2lean.py, Gen/PyDecoder.lean; the code it calls is a record of callbacks, the generator is the list of yielded values plus how it ended) and C11_src_generate_eq proves, for every byte string, every combination of info_only / continue_on_error / filter_expr and all callbacks (length.value >= 0, the table-definition calls do not raise), that it yields exactly the items of the model scan and ends as the model says (exhausted / an exception of the same class / does not terminate where the model reports an advance by 0); C12_src_resume_policy reads the continue-on-error skip (+1 in info-only mode, else + length.value of a metadata-only decode, else +1) off the translated source. In the theorems the filter is an arbitrary predicate on the metadata-only decoding; the checked correspondence evaluates a '
         'modelled fragment of Python expressions (Lang/FilterExpr.lean: comparison, not, and/or, in, is None over None/int/bool/str/'
         'bytes/list). The filter sees the metadata-only decode: template_data and section 5 (stop_signature) are not in it '
         '(%stop_signature is None there); such expressions are compared model-vs-implementation only. The table-definition side '
         'effect of category-11 messages is C20\'s and is not exercised here. Quirk mirrored and documented: '
         'info-only scanning of a message whose declared total length is 0 never terminates (model outcome `loops`).',
)


def build_stream(rng, pool, kmax=8):
    k = rng.choice([0, 1, 1, 2, 2, 3, 3, 4, 5, 6, 7, 8][:kmax + 4])
    k = min(k, kmax)
    sel = [rng.choice(pool) for _ in range(k)]
    kinds = []
    kind, s = S.separator(rng)
    kinds.append(kind)
    offs = []
    for m in sel:
        offs.append(len(s))
        s += m.b
        kind, sep = S.separator(rng)
        kinds.append(kind)
        s += sep
    return s, sel, offs, kinds


class Case(object):
    """keep[i]: True / False (the filter holds / does not hold for message i), F.RAISES (evaluating it is an error:
    a non-library exception that ends the scan there) or F.OUTSIDE (the expression refers to something the
    metadata-only decode does not have: no oracle, model and implementation are still compared)"""
    __slots__ = ('s', 'sel', 'offs', 'kinds', 'info_only', 'cont', 'fexpr', 'fmodel', 'ftree', 'keep', 'idx', 'part')

    def __init__(self):
        self.fexpr = self.fmodel = self.ftree = None
        self.part = 'random'


def make_case(rng, pool, idx, kmax=8):
    c = Case()
    c.idx = idx
    c.s, c.sel, c.offs, c.kinds = build_stream(rng, pool, kmax)
    c.info_only = rng.random() < 0.5
    c.cont = rng.random() < 0.3
    if rng.random() < 0.45:
        c.fexpr, c.fmodel, pred = S.make_filter(rng, c.sel)
        c.keep = [bool(pred(m.meta())) for m in c.sel]
    else:
        c.fexpr = c.fmodel = None
        c.keep = [True] * len(c.sel)
    return c


def has_oracle(c):
    return F.OUTSIDE not in c.keep


def expected(c):
    """-> (pieces the scan has to yield, outcome)"""
    out = []
    for m, k in zip(c.sel, c.keep):
        if k == F.RAISES:
            return out, 'err:other'
        if k is True:
            out.append(m.b)
    return out, 'done'


def req_of(c):
    return S.scan_req(c.s, c.info_only, c.cont, c.fmodel, fexpr=c.ftree)


def evaluate(c, resp):
    """-> description of what is wrong, or None"""
    items, out = S.impl_scan(c.s, info_only=c.info_only, continue_on_error=c.cont, filter_expr=c.fexpr,
                             limit=len(c.sel) + 3)
    if has_oracle(c):
        exp, eout = expected(c)
        if out != eout:
            return 'oracle: the scan of a stream of valid messages ended with %s after %d of %d messages (expected: %s)' % (
                out, len(items), len(exp), eout)
        if items != exp:
            k = next((i for i, (a, b) in enumerate(zip(items, exp)) if a != b), min(len(items), len(exp)))
            return 'oracle: yielded pieces differ from the messages of the stream at index %d (%d yielded, %d expected; lengths %s vs %s)' % (
                k, len(items), len(exp), [len(x) for x in items[:10]], [len(x) for x in exp[:10]])
    mi = S.model_items(c.s, resp)
    if resp['outcome'] != out or mi != items:
        return 'correspondence: model scan gives %s %s, implementation %s %s' % (
            resp['outcome'], [(o, n) for o, n, _ in resp['items']][:10], out, [len(x) for x in items[:10]])
    if has_oracle(c) and out == 'done':
        exp_offs = [o for o, k in zip(c.offs, c.keep) if k is True]
        if [o for o, _, _ in resp['items']] != exp_offs:
            return 'model offsets %s differ from the known offsets %s' % ([o for o, _, _ in resp['items']], exp_offs)
    return None


def replay_obj(c, why):
    return {'stream_hex': c.s.hex(), 'pieces': [[o, len(m.b)] for o, m in zip(c.offs, c.sel)], 'keep': c.keep,
            'info_only': c.info_only, 'continue_on_error': c.cont, 'filter_expr': c.fexpr, 'filter_model': c.fmodel,
            'filter_tree': c.ftree, 'separators': c.kinds, 'part': c.part, 'case_index': c.idx, 'why': why}


def signature(c, why):
    return {'kind': why.split(':')[0], 'info_only': c.info_only, 'filter': c.fexpr is not None, 'part': c.part}


def shrink(drv, treq, c, why):
    """drop messages (with the separator before them) while the case still fails in the same way"""
    kind = why.split(':')[0]
    best, bwhy = c, why
    changed = True
    budget = 30
    while changed and budget > 0 and len(best.sel) > 1:
        changed = False
        for k in range(len(best.sel)):
            budget -= 1
            c2 = Case()
            c2.idx, c2.info_only, c2.cont, c2.fexpr, c2.fmodel = best.idx, best.info_only, best.cont, best.fexpr, best.fmodel
            c2.ftree, c2.part = best.ftree, best.part
            start = best.offs[k]
            end = best.offs[k] + len(best.sel[k].b)
            c2.s = best.s[:start] + best.s[end:]
            c2.sel = best.sel[:k] + best.sel[k + 1:]
            c2.keep = best.keep[:k] + best.keep[k + 1:]
            c2.offs = best.offs[:k] + [o - (end - start) for o in best.offs[k + 1:]]
            c2.kinds = best.kinds
            pieces = []
            pos = 0
            ok = True
            for o, m in zip(c2.offs, c2.sel):
                if S.SIG in c2.s[pos:o]:
                    ok = False           # two separators joined into something that contains the signature
                pos = o + len(m.b)
            if not ok or S.SIG in c2.s[pos:]:
                continue
            r = drv.batch([treq, req_of(c2)])[1]
            w2 = evaluate(c2, r)
            if w2 and w2.split(':')[0] == kind:
                best, bwhy = c2, w2
                changed = True
                break
    return best, bwhy


def classify_filter(c):
    if c.fexpr is None:
        return 'no-filter'
    if not c.sel:
        return 'filter-empty-stream'
    if F.OUTSIDE in c.keep:
        return 'filter-outside-metadata-only-decode'
    if F.RAISES in c.keep:
        return 'filter-raises'
    if all(c.keep):
        return 'filter-all'
    if not any(c.keep):
        return 'filter-none'
    return 'filter-some'


def account(ctx, drv, treq, c, r):
    """bookkeeping of one case + comparison (oracle, correspondence); a failing case is shrunk once per shape"""
    inner = any(m.inner for m in c.sel)
    partial = any(k in ('BUF', 'BU', 'B', 'noise+BUF') for k in c.kinds)
    ctx.case({'stream': c.s.hex()[:64], 'n': len(c.sel), 'info_only': c.info_only, 'filter': c.fexpr,
              'len': len(c.s)},
             nontrivial=len(c.sel) >= 2 and (inner or partial or c.fexpr is not None),
             sample=len(ctx.samples) < 4 and len(c.sel) >= 2)
    ctx.traces += 1
    ctx.count('part:' + c.part)
    ctx.count('messages-%d' % len(c.sel))
    ctx.count('info-only' if c.info_only else 'full')
    ctx.count('continue-on-error' if c.cont else 'raise-on-error')
    ctx.count(classify_filter(c))
    if inner:
        ctx.count('stream-with-inner-signature')
    for k in set(c.kinds):
        ctx.count('sep:' + k)
    for m in c.sel:
        ctx.count('msg:edition-%d' % m.edition)
        ctx.count('msg:compressed' if m.comp else 'msg:uncompressed')
        if m.sec2 is not None:
            ctx.count('msg:section2')
    # the metadata-only span ends with section 4 (what an unmatched message advances by in full mode)
    if has_oracle(c) and F.RAISES not in c.keep:
        for (o, n_, span), m in zip(r['items'], [m for m, k in zip(c.sel, c.keep) if k is True]):
            if c.info_only and span != len(m.b) - 4:
                ctx.violation('model: metadata-only span %d of a %d-byte message is not length-4' % (span, len(m.b)),
                              replay_obj(c, 'span'), signature={'kind': 'span'})
    why = evaluate(c, r)
    if why:
        sig = signature(c, why)
        key = core.chash(sig)
        if key in ctx._seen_viol:          # already reported in this shape: count it, do not shrink again
            ctx.violation(why, replay_obj(c, why), signature=sig)
        else:
            small, w2 = shrink(drv, treq, c, why)
            ctx.violation(w2, replay_obj(small, w2), signature=signature(small, w2))
            ctx._seen_viol.add(key)


def run_cases(ctx, drv, treq, cases, chunk=300):
    for i in range(0, len(cases), chunk):
        part = cases[i:i + chunk]
        res = drv.batch([treq] + [req_of(c) for c in part])[1:]
        for c, r in zip(part, res):
            account(ctx, drv, treq, c, r)


def run_generated(ctx, drv, treq, count, rng):
    done = 0
    chunk = 300
    while done < count:
        n = min(chunk, count - done)
        pool = S.gen_messages(drv, rng, 70)
        if len(pool) < 10:
            raise core.MachineryError('message generation failed')
        cases = [make_case(rng, pool, done + i) for i in range(n)]
        done += n
        run_cases(ctx, drv, treq, cases)


# ---------------------------------------------------------------------------------------------
# systematic product: mode x continue-on-error x pattern of kept / rejected messages x separator after each message
SEPS = ['empty', 'n1', 'n2', 'n3', 'n4', 'n5', 'BUF', 'BU', 'B', '7777', 'crcrlf', 'gts', 'noise']


def sep_bytes(rng, kind):
    if kind == 'empty':
        return b''
    if kind[0] == 'n' and kind[1:].isdigit():
        return S.noise(rng, int(kind[1:]))
    if kind in ('BUF', 'BU', 'B', '7777'):
        return kind.encode()
    if kind == 'crcrlf':
        return b'\r\r\n'
    if kind == 'gts':
        return rng.choice(S.GTS)
    if kind == 'noise':
        return S.noise(rng, rng.randint(6, 40))
    raise ValueError(kind)


def assemble(rng, c, msgs_, kinds):
    """kinds[0]: the leading separator, kinds[i + 1]: the separator after message i"""
    s = sep_bytes(rng, kinds[0])
    offs = []
    for m, k in zip(msgs_, kinds[1:]):
        offs.append(len(s))
        s += m.b + sep_bytes(rng, k)
    c.s, c.sel, c.offs, c.kinds = s, list(msgs_), offs, list(kinds)


class MetaPool(object):
    """messages whose free section parameters are 0 / False / all-zero as well as non-zero, with the parameter
    values of each (fresh full decode, plain scan of the sections)"""

    def __init__(self, drv, rng, count, level=1, max_subsets=2):
        self.msgs = S.gen_messages(drv, rng, count, level=level, max_subsets=max_subsets, tweak=F.tweak)
        if len(self.msgs) < 10:
            raise core.MachineryError('message generation failed')
        self.metas = [F.Meta(m.b) for m in self.msgs]
        self.atoms = F.atoms()

    def filter_with_both(self, rng, need_true, need_false, tries=40):
        """a general filter that is true for some and false for some messages of the pool (as needed), and the
        indices of those; messages for which it raises or that it cannot be evaluated on are left out"""
        for _ in range(tries):
            f = F.make(rng, self.metas, self.atoms)
            st = [f.status(m) for m in self.metas]
            t = [i for i, x in enumerate(st) if x is True]
            fa = [i for i, x in enumerate(st) if x is False]
            if (t or not need_true) and (fa or not need_false):
                return f, t, fa
        raise core.MachineryError('no filter found that separates the message pool')


def grid_plan(rotations, rotations_nofilter):
    """[(info_only, cont, pattern or None, separator kinds)]: every pattern of kept (True) / rejected (False)
    messages of 1..5 messages, `rotations` assignments of separators each; pattern None = no filter (0..5 messages)"""
    out = []
    n = len(SEPS)
    for info in (False, True):
        for cont in (False, True):
            pi = 0
            for k in range(0, 6):
                for j in range(rotations_nofilter):
                    off = (pi * rotations_nofilter + j) % n
                    out.append((info, cont, None, k, [SEPS[(3 * off + 1) % n]] + [SEPS[(off + 5 * i) % n] for i in range(k)]))
                pi += 1
            pi = 0
            for k in range(1, 6):
                for pat in itertools.product([True, False], repeat=k):
                    for j in range(rotations):
                        off = (pi * rotations + j) % n
                        out.append((info, cont, pat, k, [SEPS[(3 * off + 1) % n]] + [SEPS[(off + 5 * i) % n] for i in range(k)]))
                    pi += 1
    return out


def run_grid(ctx, drv, treq, rng, rotations, rotations_nofilter):
    pool = MetaPool(drv, rng, 70)
    plan = grid_plan(rotations, rotations_nofilter)
    cases = []
    trans = set()
    for idx, (info, cont, pat, k, kinds) in enumerate(plan):
        c = Case()
        c.idx, c.part, c.info_only, c.cont = idx, 'grid', info, cont
        if pat is None:
            sel = [rng.randrange(len(pool.msgs)) for _ in range(k)]
            c.keep = [True] * k
        else:
            f, t, fa = pool.filter_with_both(rng, any(pat), not all(pat))
            sel = [rng.choice(t if keep else fa) for keep in pat]
            c.fexpr, c.ftree = f.expr, f.tree
            c.keep = list(pat)
        assemble(rng, c, [pool.msgs[i] for i in sel], kinds)
        cases.append(c)
        st = c.keep + ['end']
        for i in range(k):
            trans.add((info, cont, pat is not None, st[i], kinds[i + 1], st[i + 1]))
    # the product the docstring promises: every (status, separator, next status) in every mode
    want = set()
    for info in (False, True):
        for cont in (False, True):
            for a in (True, False):
                for sep in SEPS:
                    for b in (True, False, 'end'):
                        want.add((info, cont, True, a, sep, b))
            for sep in SEPS:
                for b in (True, 'end'):
                    want.add((info, cont, False, True, sep, b))
    missing = want - trans
    ctx.count('grid:transitions-covered', len(want & trans))
    ctx.count('grid:transitions-wanted', len(want))
    if missing:
        raise core.MachineryError('the separator rotation leaves %d (status, separator, next status) combinations out, e.g. %r' % (
            len(missing), sorted(missing, key=repr)[:3]))
    run_cases(ctx, drv, treq, cases)


# ---------------------------------------------------------------------------------------------
# general filters over every metadata parameter name
def run_filters(ctx, drv, treq, rng, all_forms, ncombo):
    pool = MetaPool(drv, rng, 70)
    plans = []
    for a in pool.atoms:
        if all_forms:
            forms = list(F.SIMPLE_FORMS)
        else:
            forms = ['eq', 'ne', rng.choice(['lt', 'le', 'gt', 'ge']),
                     rng.choice(['not', 'truth', 'in', 'notin', 'isnone', 'notnone', 'contains', 'qq'])]
        plans += [(a, f) for f in forms]
    plans += [(None, None)] * ncombo
    cases = []
    n = len(pool.msgs)
    for idx, (atom, form) in enumerate(plans):
        k = rng.randint(2, 5)
        sel = [rng.randrange(n) for _ in range(k)]
        if atom is not None:
            # where the pool has them: a message in which the parameter is 0 / False / empty, and one in which it is not
            vals = [m.lookup(*atom) for m in pool.metas]
            fals = [i for i, v in enumerate(vals) if v is not None and v is not F.OUTSIDE and not v]
            tru = [i for i, v in enumerate(vals) if v is not F.OUTSIDE and v]
            if fals:
                sel[rng.randrange(k)] = rng.choice(fals)
            if tru:
                free = [i for i in range(k) if not (fals and sel[i] in fals)] or list(range(k))
                sel[rng.choice(free)] = rng.choice(tru)
        metas = [pool.metas[i] for i in sel]
        f = F.make(rng, metas, pool.atoms, atom=atom, form=form)
        c = Case()
        c.idx, c.part = idx, 'filters'
        c.info_only = rng.random() < 0.5
        c.cont = rng.random() < 0.3
        c.fexpr, c.ftree = f.expr, f.tree
        c.keep = [f.status(m) for m in metas]
        assemble(rng, c, [pool.msgs[i] for i in sel], [rng.choice(SEPS) for _ in range(k + 1)])
        cases.append(c)
        for a in f.atoms:
            ctx.count('filter-atom:' + ('bare' if a[0] is None else 'section-qualified'))
        for fm in f.forms:
            ctx.count('filter-form:' + fm)
        for q in set(F.queries_of(f.tree)):
            for m in metas:
                v = m.query(q)
                ctx.count('filter-query-value:' + ('outside' if v is F.OUTSIDE else 'none' if v is None else 'falsy' if not v else 'truthy'))
    ctx.count('filter-atoms-enumerated', len(pool.atoms))
    run_cases(ctx, drv, treq, cases)


def run_loops(ctx, drv, treq, rng):
    """documented quirk (not part of the property): declared total length 0 + info-only never terminates"""
    pool = S.gen_messages(drv, rng, 6, needle_p=0.0)
    for m in pool[:3]:
        b = m.b[:4] + b'\0\0\0' + m.b[7:]
        items, out = S.impl_scan(b + b'xx', info_only=True, limit=5)
        r = drv.batch([treq, S.scan_req(b + b'xx', info_only=True)])[1]
        ctx.case({'loops': b.hex()[:40]}, nontrivial=False)
        ctx.traces += 1
        ctx.count('quirk:declared-length-0-info-only')
        if not (out == 'limit' and all(x == b'' for x in items) and r['outcome'] == 'loops'):
            ctx.violation('correspondence: declared length 0, info-only: implementation %s %s, model %s' % (out, items[:2], r['outcome']),
                          {'stream_hex': (b + b'xx').hex(), 'info_only': True, 'loops': True}, signature={'kind': 'loops'})
        # full mode does not look at the declared total
        items, out = S.impl_scan(b + b'xx', info_only=False, limit=5)
        r = drv.batch([treq, S.scan_req(b + b'xx', info_only=False)])[1]
        if not (out == 'done' and items == [b] and r['outcome'] == 'done' and S.model_items(b + b'xx', r) == [b]):
            ctx.violation('correspondence: declared length 0, full mode: implementation %s, model %s' % (out, r['outcome']),
                          {'stream_hex': (b + b'xx').hex(), 'info_only': False, 'loops': True}, signature={'kind': 'loops-full'})


def run_corpus(ctx, drv, rng, nfiles):
    from pybufrkit.decoder import Decoder
    files = [f for f in P.corpus_files('thorough', rng) if os.path.getsize(f) <= 40000 and 'multi_invalid' not in f]
    rng.shuffle(files)
    used = 0
    for path in files:
        if used >= nfiles:
            break
        with open(path, 'rb') as f:
            raw = f.read()
        try:
            msg = Decoder().process(raw, wire_template_data=False)
        except Exception:  # noqa
            continue
        if msg.data_category.value == 11:
            continue
        b = msg.serialized_bytes
        key = msg.table_group_key
        tb, td = tables_io.read_group(key.wmo_tables_sn, key.local_tables_sn, key.tables_root_dir)
        treq = tables_io.tables_request(tb, td)
        nsub, comp, ids = P.parse_section3(b)
        m = S.Msg(b, msg.edition.value, comp, nsub, msg.data_category.value, ids, src=os.path.basename(path))
        used += 1
        for io_ in (False, True):
            c = make_case(rng, [m], 0, kmax=3)
            c.info_only = io_
            r = drv.batch([treq, S.scan_req(c.s, c.info_only, c.cont, c.fmodel)])[1]
            ctx.case({'corpus': m.src, 'n': len(c.sel), 'info_only': io_, 'filter': c.fexpr}, nontrivial=len(c.sel) >= 2)
            ctx.traces += 1
            ctx.count('corpus-streams')
            why = evaluate(c, r)
            if why:
                rep = replay_obj(c, why)
                rep['corpus_file'] = path
                ctx.violation('corpus %s: %s' % (m.src, why), rep, signature=dict(signature(c, why), corpus=True))


def split_ns(path, cont=False):
    return argparse.Namespace(definitions_directory=None, tables_root_directory=None, filenames=[path],
                              continue_on_error=cont)


def run_split(ctx, drv, treq, rng, count, cli_runs):
    from pybufrkit import commands
    pool = S.gen_messages(drv, rng, 50)
    tmp = tempfile.mkdtemp(prefix='verif_c11_', dir='/tmp')
    try:
        for i in range(count):
            s, sel, offs, kinds = build_stream(rng, pool, 6)
            path = os.path.join(tmp, 's%d.bufr' % i)
            with open(path, 'wb') as f:
                f.write(s)
            use_cli = i < cli_runs
            if use_cli:
                env = dict(os.environ, PYTHONPATH=core.REPO)
                p = subprocess.run([sys.executable, '-m', 'pybufrkit', 'split', path], stdout=subprocess.PIPE,
                                   stderr=subprocess.PIPE, env=env, cwd=tmp, timeout=120)
                listed = p.stdout.decode().split()
                err = p.stderr.decode()
                p2 = subprocess.run([sys.executable, '-m', 'pybufrkit', 'info', '-c', path], stdout=subprocess.PIPE,
                                    stderr=subprocess.PIPE, env=env, cwd=tmp, timeout=120)
                counted = p2.stdout.decode().strip()
                if not counted.endswith(': %d' % len(sel)):
                    ctx.violation('oracle: `info -c` prints %r for a stream of %d messages' % (counted, len(sel)),
                                  {'stream_hex': s.hex(), 'pieces': [[o, len(m.b)] for o, m in zip(offs, sel)], 'cli': 'info -c'},
                                  signature={'kind': 'cli-count'})
            else:
                out = io.StringIO()
                err = ''
                try:
                    with contextlib.redirect_stdout(out):
                        commands.command_split(split_ns(path))
                except Exception as e:  # noqa
                    err = 'command_split raised %s' % core.err_tag(e)
                listed = out.getvalue().split()
            written = []
            k = 0
            while os.path.exists('%s.%d' % (path, k)):
                with open('%s.%d' % (path, k), 'rb') as f:
                    written.append(f.read())
                k += 1
            exp = [m.b for m in sel]
            ctx.case({'split': s.hex()[:48], 'n': len(sel), 'cli': use_cli}, nontrivial=len(sel) >= 2)
            ctx.count('split-cli' if use_cli else 'split-command')
            if written != exp or b''.join(written) != b''.join(exp) or len(listed) != len(exp) or err:
                ctx.violation('oracle: split wrote %d files (lengths %s) for %d messages (lengths %s)%s' % (
                    len(written), [len(x) for x in written][:10], len(exp), [len(x) for x in exp][:10],
                    ' stderr: ' + err[-200:] if err else ''),
                    {'stream_hex': s.hex(), 'pieces': [[o, len(m.b)] for o, m in zip(offs, sel)], 'split': True, 'cli': use_cli},
                    signature={'kind': 'split', 'cli': use_cli})
    finally:
        shutil.rmtree(tmp, ignore_errors=True)


def run(ctx):
    drv = ctx.driver
    ctx.rule = 'stream of at least 2 messages with an inner signature in a message, a partial signature in a separator, or a filter'
    treq = tables_io.group_request()
    quick = ctx.tier == 'quick'
    run_generated(ctx, drv, treq, 800 if quick else 30000, ctx.rng('main'))
    run_grid(ctx, drv, treq, ctx.rng("grid"), 4 if quick else 13, 3 if quick else 13)
    run_filters(ctx, drv, treq, ctx.rng('filters'), not quick, 150 if quick else 3000)
    run_loops(ctx, drv, treq, ctx.rng('loops'))
    run_corpus(ctx, drv, ctx.rng('corpus'), 5 if quick else 40)
    run_split(ctx, drv, treq, ctx.rng('split'), 40 if quick else 400, 2 if quick else 8)
    # streams with table definition messages under filters (F25): implementation-only oracle
    DS.run(ctx, ctx.rng('defstreams'), 6 if quick else 80, cont_values=(False,))
    # --- w5-c09cli (begin): `decode -m -j --filter E` through pybufrkit.main() prints exactly the messages E selects (= the API scan
    # with filter_expr = the unfiltered run restricted by each message's own metadata), also on tests/data/prepbufr.bufr for filters
    # that reject / accept its table definition messages (harness/cli_io.py glue_stream)
    from harness.props import c09cli
    c09cli.run_stream_glue(ctx, ('filter', 'prepbufr'), 2 if quick else 20)
    # --- w5-c09cli (end)


def replay(ctx, path):
    with open(path) as f:
        body = json.load(f)
    rep = body['replay']
    if rep.get('defstream'):
        DS.replay(ctx, rep)
        return
    if rep.get('cli_stream'):   # w5-c09cli
        from harness.props import c09cli
        return c09cli.replay_stream_glue(ctx, rep)
    drv = ctx.driver
    if 'undischarged' in rep:
        print('replay: proof obligation; re-run ./check C11')
        return
    s = bytes.fromhex(rep['stream_hex'])
    if rep.get('corpus_file'):
        from pybufrkit.decoder import Decoder
        msg = Decoder().process(open(rep['corpus_file'], 'rb').read(), wire_template_data=False)
        key = msg.table_group_key
        treq = tables_io.tables_request(*tables_io.read_group(key.wmo_tables_sn, key.local_tables_sn, key.tables_root_dir))
    else:
        treq = tables_io.group_request()
    if rep.get('loops'):
        items, out = S.impl_scan(s, info_only=rep['info_only'], limit=5)
        r = drv.batch([treq, S.scan_req(s, info_only=rep['info_only'])])[1]
        print('replay: implementation', out, [len(x) for x in items], 'model', r)
        return
    pieces = [s[o:o + n] for o, n in rep['pieces']]
    if rep.get('split') or rep.get('cli'):
        items, out = S.impl_scan(s, info_only=True)
        print('replay (split): info-only scan yields', [len(x) for x in items], out, 'expected', [len(x) for x in pieces])
        if items != pieces:
            ctx.violation('oracle: split pieces differ', rep, signature={'kind': 'split'})
        return
    keep = rep.get('keep') or [True] * len(pieces)
    oracle = F.OUTSIDE not in keep
    exp, eout = [], 'done'
    for p_, k in zip(pieces, keep):
        if k == F.RAISES:
            eout = 'err:other'
            break
        if k is True:
            exp.append(p_)
    items, out = S.impl_scan(s, info_only=rep['info_only'], continue_on_error=rep.get('continue_on_error', False),
                             filter_expr=rep.get('filter_expr'), limit=len(pieces) + 3)
    r = drv.batch([treq, S.scan_req(s, rep['info_only'], rep.get('continue_on_error', False), rep.get('filter_model'),
                                    fexpr=rep.get('filter_tree'))])[1]
    print('replay: filter', rep.get('filter_expr'), ' separators', rep.get('separators'))
    print('        expected', eout, [len(x) for x in exp], '' if oracle else '(no oracle: the filter refers to what the metadata-only decode has not)')
    print('        implementation', out, [len(x) for x in items])
    print('        model', r['outcome'], r['items'])
    if oracle and (out != eout or items != exp):
        ctx.violation('oracle: yielded pieces differ from the messages of the stream', rep, signature={'kind': 'oracle'})
    elif r['outcome'] != out or S.model_items(s, r) != items:
        ctx.violation('correspondence: model and implementation differ', rep, signature={'kind': 'correspondence'})
