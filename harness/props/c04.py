"""
C04 — section framing and length accounting are exact in both directions.

Theorems: lean/BufrModel/Props/C04.lean (any payload bit length, any edition, any well-formed layout
family; the bundled layouts are re-checked well-formed by `decide` on every run).
Tie: pybufrkit Encoder().process / Decoder().process and the model driver (`msg-encode`,
`msg-decode` over the regenerated layouts) on the same inputs, byte for byte, section start positions,
parameter values, error family.  Oracle: every length field recomputed from the produced bytes by an
independent parser; decoder's serialized_bytes = the message regardless of what follows.
"""
import json
import multiprocessing
import os
import random

from harness import core, msgs

PROP = 'C04'

META = dict(
    text='Kernel-checked theorems over the model of Encoder/Decoder.process and process_section for EVERY payload bit length, '
         'edition value and well-formed section layout family (bundled layouts re-checked well-formed by `decide` on every run): '
         'produced message = concatenation of section frames, each a whole number of octets (even for edition <= 3 when lengths '
         'are recomputed), zero padding below 16/8 bits, declared section length = extent, declared total = bytes produced, '
         'BUFR/7777 delimiters; honour-declared mode zero-fills longer and refuses shorter declarations; the decoder consumes '
         'exactly the declared extents, its result and serialized bytes do not depend on what follows, an overrun is the library '
         'error; decode(encode(m) ++ t) SUCCEEDS for every t whenever the data reader accepts the payload, consumes and reports '
         'exactly the encoded bytes and returns the supplied parameter values up to the canonicalisation of the bit I/O '
         '(`C04_decode_encode`, for well-formed families that also meet the decidable alignment conditions `RT.LayoutsOK`, '
         're-checked on the bundled layouts on every run; counterexample families without them are part of the file). Correspondence: data sections of every bit length '
         '0..47 x editions 2,3,4 x section 2 absent/present (0..40 local bits) x trailing bytes x recompute/honour mode with '
         'declared {0, exact, +1..+3, -1} in each of sections 1-4 and the total x damaged length fields, byte for byte against '
         'pybufrkit, plus a structural oracle recomputing every length field.',
    technique='Lean 4 theorems (section-local frame lemma, prefix-determined readers, induction over the section loop) + checked '
              'model/implementation correspondence + structural oracle',
    note='Source tie: the end of Decoder.process_section (the declared-section-length block: padding skipped, overrun refused, bits returned; decoder.py:150-160, a fragment — the parameter loop is not translated) is re-translated from the repository into Lean on every check and C04_src_finish_section_eq proves it equal to the model finishSection for all corresponding bit-reader / section callbacks. The data section content is abstract in the theorems (payload bits on the encode side, any prefix-determined reader on '
         'the decode side); the correspondence instantiates it with templates of k one-bit elements. Edition 1 is outside the '
         'property (its layout has no section length and pybufrkit cannot decode it); the decoder never checks the total length '
         'field (modelled as such).')

SEC2_OPTS = [None, '', 3, 8, 13, 16, 24, 40]


def scen_rng(seed, i):
    return random.Random('C04:%s:%s' % (seed, i))


def sec2_bits(rng, opt):
    if opt is None or opt == '':
        return opt
    return msgs.rand_bits(rng, opt)


def trailing_bytes(rng, kind, other):
    if kind == 'none':
        return b''
    if kind == 'noise':
        return bytes(rng.randrange(256) for _ in range(rng.choice([1, 2, 3, 5, 9])))
    if kind == 'sig':
        return b'BUFR' + bytes(rng.randrange(256) for _ in range(3))
    return other


# ---------------------------------------------------------------------------------------------
# structural oracle on a produced message
def content_bits(spec, index):
    """bits the parameters of section `index` occupy before padding"""
    ed, k, ns = spec['ed'], spec['k'], spec.get('ns', 1)
    if index == 0:
        return 64
    if index == 1:
        return sum(p['nbits'] for p in msgs.layout_for(1, ed)['parameters'])
    if index == 2:
        return 32 + len(spec['sec2_bits'])
    if index == 3:
        return 56 + 16 * k
    if index == 4:
        return 32 + k * ns
    return 32


def minimal_len(ed, nbits):
    n = (nbits + 7) // 8
    if ed <= 3 and n % 2:
        n += 1
    return n


def bits_of(b):
    return ''.join(format(x, '08b') for x in b)


def oracle_frame(spec, b, declared=None):
    """None or a message.  declared: {index: honoured declared length} (honour mode)."""
    declared = declared or {}
    try:
        fr = msgs.parse_frame(b)
    except Exception as e:  # noqa
        return 'produced bytes do not parse: %r' % (e,)
    if b[-4:] != b'7777':
        return 'does not end with 7777'
    if fr['end'] != len(b):
        return 'sections by their own length fields end at %d, message has %d bytes' % (fr['end'], len(b))
    if fr['total'] != len(b):
        return 'section-0 length %d != %d bytes produced' % (fr['total'], len(b))
    ed = spec['ed']
    if fr['edition'] != ed:
        return 'edition byte'
    want = [0, 1] + ([2] if spec['sec2_bits'] is not None else []) + [3, 4, 5]
    if [s[0] for s in fr['sections']] != want:
        return 'sections present %r, expected %r' % ([s[0] for s in fr['sections']], want)
    for index, off, n in fr['sections']:
        cb = content_bits(spec, index)
        body = bits_of(b[off:off + n])
        if index in declared and declared[index] != 0:
            if n != declared[index]:
                return 'section %d: extent %d != honoured declared %d' % (index, n, declared[index])
        else:
            if n != minimal_len(ed, cb):
                return 'section %d: %d octets for %d content bits in edition %d' % (index, n, cb, ed)
            if ed <= 3 and n % 2:
                return 'section %d: odd number of octets in edition %d' % (index, ed)
            if n * 8 - cb >= (16 if ed <= 3 else 8):
                return 'section %d: padding of %d bits' % (index, n * 8 - cb)
        if n * 8 < cb:
            return 'section %d shorter than its content' % index
        if '1' in body[cb:]:
            return 'section %d: non-zero padding' % index
    return None


# ---------------------------------------------------------------------------------------------
def dec_obs(b, k_bits, info_only, ignore_expect=False):
    impl = msgs.impl_decode(b, info_only=info_only, ignore_expect=ignore_expect)
    impl.pop('_msg', None)
    return msgs.decode_req(b, k_bits, info_only, ignore_expect), impl


def oracle_decode(b, impl, msg_len, info_only):
    """decoder reports exactly the message's bytes regardless of what follows"""
    if 'err' in impl:
        return 'decoding a well-framed message (+ trailing bytes) failed: %s' % impl['err']
    want = b[:msg_len - (4 if info_only else 0)].hex()
    if impl['serialized'] != want:
        return 'serialized_bytes is %d bytes, the message has %d (info_only=%s)' % (len(impl['serialized']) // 2, msg_len, info_only)
    fr = msgs.parse_frame(b[:msg_len])
    offs = [off * 8 for _, off, _ in fr['sections']]
    if info_only:
        offs = offs[:-1]
    if impl['starts'] != offs:
        return 'section start positions %r differ from the declared extents %r' % (impl['starts'], offs)
    return None


def scenario(args):
    """runs the implementation side of one scenario; returns a list of observations
    {label, req (model request), impl (canonical observation), oracle (None|str)}"""
    seed, i, spec = args
    rng = scen_rng(seed, i)
    spec = dict(spec)
    spec['sec2_bits'] = sec2_bits(rng, spec['sec2'])
    ed, k, ns = spec['ed'], spec['k'], spec.get('ns', 1)
    obs = []

    def add(label, req, impl, oracle=None):
        obs.append({'label': label, 'req': req, 'impl': impl, 'oracle': oracle})

    kind = spec['kind']
    if kind == 'recompute':
        junk = {j: rng.choice([0, 0, 1, 5, 18, 22, 300]) for j in (1, 2, 3, 4)}
        junk['total'] = rng.choice([0, 0, 7, 99])
        js, payload = msgs.make_message(rng, ed, k, spec['sec2_bits'], ns, declared=junk)
        e = msgs.impl_encode(js, True)
        orc = None
        if 'err' in e:
            orc = 'encoding a valid message failed: %s' % e['err']
        else:
            orc = oracle_frame(spec, bytes.fromhex(e['hex']))
            if orc is None and e['lengths']['total'] != len(e['hex']) // 2:
                orc = 'msg.length.value %r != bytes produced' % (e['lengths'],)
        add('encode', msgs.encode_req(js, ed, payload, True), msgs.comparable(e), orc)
        if 'err' not in e:
            b = bytes.fromhex(e['hex'])
            other = b''
            if spec['trailing'] == 'message':
                js2, _ = msgs.make_message(rng, rng.choice([2, 3, 4]), rng.randrange(0, 20), None, 1)
                e2 = msgs.impl_encode(js2, True)
                other = bytes.fromhex(e2.get('hex', ''))
            t = trailing_bytes(rng, spec['trailing'], other)
            for info in (False, True):
                req, impl = dec_obs(b + t, k * ns, info)
                add('decode-info' if info else 'decode', req, impl, oracle_decode(b + t, impl, len(b), info))
                if not info and 'err' not in impl and impl['data'] != payload:
                    obs[-1]['oracle'] = obs[-1]['oracle'] or 'decoded data bits differ from the encoded ones'
    elif kind == 'honour':
        js, payload = msgs.make_message(rng, ed, k, spec['sec2_bits'], ns)
        e0 = msgs.impl_encode(js, True)
        if 'err' in e0:
            add('encode', msgs.encode_req(js, ed, payload, True), msgs.comparable(e0), 'encoding a valid message failed')
            return i, spec, obs
        exact = dict(e0['lengths'])
        target, delta = spec['target'], spec['delta']
        declared = {j: exact[j] for j in exact if j != 'total'}
        total = exact['total']
        expect_err = False
        if target == 'total':
            if delta == 'zero':
                total = 0
            elif delta != 0:
                total = exact['total'] + delta
                expect_err = True
        else:
            if delta == 'zero':
                declared[target] = 0
            else:
                declared[target] = exact[target] + delta
                if delta < 0:
                    expect_err = True
                total = rng.choice([0, exact['total'] + max(delta, 0)])
        # sections other than the target: sometimes let them be recomputed (0)
        for j in list(declared):
            if j != target and rng.random() < 0.3:
                declared[j] = 0
        dd = dict(declared)
        dd['total'] = total
        js, payload = msgs.make_message(scen_rng(seed, i), ed, k, spec['sec2_bits'], ns, declared=dd)
        e = msgs.impl_encode(js, False)
        orc = None
        if expect_err:
            if e.get('err') != 'err:lib':
                orc = 'declared %s shorter/different than needed (%r vs exact %r) not refused with the library error: %r' % (
                    target, dd, exact, e.get('err', 'accepted'))
        elif 'err' in e:
            orc = 'honouring declared lengths %r (exact %r) failed: %s' % (dd, exact, e['err'])
        else:
            orc = oracle_frame(spec, bytes.fromhex(e['hex']), declared)
            if orc is None:
                for j, v in e['lengths'].items():
                    if j != 'total' and declared.get(j) and v != declared[j]:
                        orc = 'section_length.value of section %s changed' % j
        add('encode-honour', msgs.encode_req(js, ed, payload, False), msgs.comparable(e), orc)
        if 'err' not in e:
            b = bytes.fromhex(e['hex'])
            t = trailing_bytes(rng, rng.choice(['none', 'noise']), b'')
            # surplus in section 3 that amounts to one more descriptor changes the template: metadata only
            extra_desc = (target == 3 and delta != 'zero' and
                          (declared[3] * 8 - 56) // 16 != k)
            for info in ((True,) if extra_desc else (False, True)):
                req, impl = dec_obs(b + t, k * ns, info)
                add('decode-info' if info else 'decode', req, impl, oracle_decode(b + t, impl, len(b), info))
    elif kind == 'mutate':
        js, payload = msgs.make_message(rng, ed, k, spec['sec2_bits'], ns)
        e0 = msgs.impl_encode(js, True)
        if 'err' in e0:
            add('encode', msgs.encode_req(js, ed, payload, True), msgs.comparable(e0), 'encoding a valid message failed')
            return i, spec, obs
        b = bytearray(bytes.fromhex(e0['hex']))
        fr = msgs.parse_frame(bytes(b))
        target = spec['target']
        offs = {idx: off for idx, off, _ in fr['sections']}
        lens = {idx: n for idx, _, n in fr['sections']}
        if target == 'total':
            newv = max(0, len(b) + spec['delta'])
            b[4:7] = newv.to_bytes(3, 'big')
        else:
            newv = spec['abs'] if spec.get('abs') is not None else max(0, lens[target] + spec['delta'])
            b[offs[target]:offs[target] + 3] = newv.to_bytes(3, 'big')
            if spec.get('cut') and 3 <= newv < lens[target]:
                # the section is really shortened: its last octets are removed from the stream and the shorter length is
                # declared, so whatever the decoder reads beyond the declared end belongs to the next section (the
                # content overruns the declared end by 1..7 bits when it does not end on an octet boundary)
                del b[offs[target] + newv:offs[target] + lens[target]]
                if spec['cut'] == 'total':
                    b[4:7] = len(b).to_bytes(3, 'big')
        t = trailing_bytes(rng, rng.choice(['none', 'noise', 'noise']), b'')
        data = bytes(b) + t
        full_ok = target in ('total', 4)
        for info in ((False, True) if full_ok else (True,)):
            req, impl = dec_obs(data, k * ns, info)
            orc = None
            # (a section 3 that is really cut is simply a shorter descriptor list: its content follows its declared length)
            if target != 'total' and target != 2 and newv * 8 < content_bits(spec, target) and not (info and target == 4 and newv >= 4) \
                    and not (spec.get('cut') and target == 3):
                if 'err' not in impl:
                    orc = 'section %s declared %d octets, shorter than its %d content bits, decoded without error' % (
                        target, newv, content_bits(spec, target))
            if target == 'total' and 'err' not in impl:
                orc = oracle_decode(data, impl, len(b), info)
            add('decode-mutated-info' if info else 'decode-mutated', req, impl, orc)
    return i, spec, obs


def scenarios(ctx):
    rng = ctx.rng('plan')
    out = []
    trail = ['none', 'noise', 'message', 'sig']
    n = 0
    for ed in (2, 3, 4):
        for k in range(48):
            for s2 in SEC2_OPTS:
                out.append(dict(kind='recompute', ed=ed, k=k, sec2=s2, trailing=trail[n % 4], ns=1 if n % 5 else 2))
                n += 1
    for ed in (2, 3, 4):
        for k in range(48):
            for s2 in (None, 11):
                for target in (1, 2, 3, 4, 'total'):
                    if target == 2 and s2 is None:
                        continue
                    for delta in ('zero', 0, 1, 2, 3, -1):
                        out.append(dict(kind='honour', ed=ed, k=k, sec2=s2, target=target, delta=delta))
    for ed in (2, 3, 4):
        for k in (0, 1, 3, 7, 8, 9, 12, 16, 17, 21, 33):
            for s2 in (None, 11):
                for target in (1, 2, 3, 4, 'total'):
                    if target == 2 and s2 is None:
                        continue
                    for delta in (-2, -1, 1, 2, 7):
                        out.append(dict(kind='mutate', ed=ed, k=k, sec2=s2, target=target, delta=delta))
                        if delta < 0 and target != 'total':
                            for cut in ('total', 'section'):
                                out.append(dict(kind='mutate', ed=ed, k=k, sec2=s2, target=target, delta=delta, cut=cut))
                    if target != 'total':
                        for a in (0, 1, 3, 4, 6, 7, 70000):
                            out.append(dict(kind='mutate', ed=ed, k=k, sec2=s2, target=target, delta=0, abs=a))
    if ctx.tier == 'thorough':
        for _ in range(6000):
            out.append(dict(kind=rng.choice(['recompute', 'recompute', 'mutate']), ed=rng.choice([2, 3, 4]), k=rng.randrange(0, 200),
                            sec2=rng.choice([None, '', rng.randrange(1, 90)]), trailing=rng.choice(trail),
                            ns=rng.choice([1, 1, 2, 3]), target=rng.choice([1, 3, 4, 'total']), delta=rng.choice([-3, -1, 1, 2, 5]),
                            cut=rng.choice([None, 'total', 'section'])))
    return out


def evaluate(ctx, results):
    reqs, index = [], []
    for si, (i_, spec, obs) in enumerate(results):
        for oi, o in enumerate(obs):
            reqs.append(o['req'])
            index.append((si, oi))
    model = ctx.driver.batch(reqs)
    breaks = []
    for (si, oi), m in zip(index, model):
        i_, spec, obs = results[si]
        o = obs[oi]
        if o['req']['op'] == 'msg-decode':
            m = msgs.strip_model_decode(m)
        ctx.traces += 1
        ctx.count(spec['kind'] + ':' + o['label'])
        ctx.count('ed%d' % spec['ed'])
        ctx.count('k%%16=%d' % (spec['k'] * spec.get('ns', 1) % 16))
        ctx.count('result:' + (o['impl'].get('err') or 'ok'))
        small = {kk: spec[kk] for kk in spec if kk != 'sec2_bits'}
        ctx.case({'spec': small, 'label': o['label'], 'req': o['req']},
                 nontrivial=(spec['k'] > 0 or spec['sec2'] is not None), sample=(ctx.evaluations % 1500 == 0))
        sig = {'kind': spec['kind'], 'label': o['label'], 'ed': spec['ed'], 'target': spec.get('target'), 'delta': spec.get('delta')}
        if o['oracle']:
            ctx.violation('%s (%s): %s' % (o['label'], json.dumps(small), o['oracle']),
                          {'seed': ctx.seed, 'i': i_, 'spec': spec, 'obs': o, 'model': m}, signature=sig)
        elif o['impl'] != m:
            breaks.append({'seed': ctx.seed, 'i': i_, 'spec': spec, 'obs': o, 'model': m})
    return breaks


def run(ctx):
    ctx.rule = ('data sections of k one-bit elements, k = 0..47 (every residue mod 16, three times) x editions 2,3,4 x section 2 '
                'absent / 0,3,8,13,16,24,40 local bits x trailing none/noise/another message/a bare signature (recompute mode); '
                'honour mode: target section 1-4 or total x declared {0, exact, +1, +2, +3, -1}; damaged length fields '
                '(delta -2..+7, absolute 0,1,3,4,6,7,70000) decoded full and metadata-only. Non-trivial: k > 0 or section 2 present.')
    specs = scenarios(ctx)
    args = [(ctx.seed, i, s) for i, s in enumerate(specs)]
    with multiprocessing.Pool(min(16, os.cpu_count() or 1)) as pool:
        results = pool.map(scenario, args, chunksize=64)
    breaks = evaluate(ctx, results)
    ctx.exhaustive = False
    ctx.notes.append('scenarios: %d' % len(specs))
    if breaks and ctx.violations == 0:
        b = breaks[0]
        ctx.violation('correspondence model<->pybufrkit broken on %d observations while the framing oracle holds on all of them; first: %s'
                      % (len(breaks), json.dumps({'spec': {k: v for k, v in b['spec'].items()}, 'label': b['obs']['label'],
                                                  'impl': b['obs']['impl'], 'model': b['model']})[:600]),
                      {'correspondence': 'msg', 'first': b, 'count': len(breaks)},
                      signature={'kind': 'correspondence'}, no_failing_input=True)
    ctx.assumptions = ['the data section is a template of one-bit elements (031031 repeated), uncompressed; the section coder is '
                       'independent of the data content by construction of the model (payload bits are a parameter)',
                       'section 3 surplus that amounts to a further descriptor (000000) is compared in metadata-only mode']


def replay(ctx, path):
    body = json.load(open(path))
    rp = body['replay']
    if 'first' in rp:
        rp = rp['first']
    if 'spec' not in rp:   # a proof-obligation replay: nothing to re-run on the implementation
        print(json.dumps(rp, default=repr)[:3000])
        return
    spec = {k: v for k, v in rp['spec'].items() if k != 'sec2_bits'}
    res = scenario((rp['seed'], rp['i'], spec))
    breaks = evaluate(ctx, [res])
    for o in res[2]:
        print(json.dumps({'label': o['label'], 'impl': o['impl'], 'oracle': o['oracle']})[:1500])
    for b in breaks:
        print(json.dumps({'correspondence-break': b['obs']['label'], 'impl': b['obs']['impl'], 'model': b['model']})[:3000])
    if breaks and ctx.violations == 0:
        ctx.violation('correspondence model<->pybufrkit broken on the replayed scenario', {'first': breaks[0]},
                      signature={'kind': 'correspondence'}, no_failing_input=True)
