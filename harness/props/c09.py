"""
C09 — all four output formats carry the same data and convert back to it.

Theorems: lean/BufrModel/Props/C09.lean (wiring consumes each flat index exactly once, one node per template
member / n_members nodes per repetition, nested JSON -> flat recovers the flat value list under decidable side
conditions).  The text formats are not modelled in Lean; the oracle decides them.
Oracle (the statement itself, on the implementation): for every decodable message each of
nested_json_to_flat_json(NestedJsonRenderer), flat_text_to_flat_json(FlatTextRenderer),
nested_text_to_flat_json(NestedTextRenderer) equals FlatJsonRenderer (strictly: types, floats by repr, bytes);
Encoder().process of the four inputs (as the CLI prepares them) gives the same bytes; the wired node tree holds
every flat index exactly once as member, replication factor or associated-field attribute, in flat order,
and every other attribute is one of those nodes; every bitmap-linked value (class 33 value after 222000, marker value)
hangs on the SAME owner in all four views: `-> N` column of the flat text == bitmap_links == attribute owners in the
node tree == owners (label and value) in the nested JSON == owners in the nested text, for every subset.
Tie: node tree, nested JSON (without the table-text `description`), nested JSON -> flat and the side conditions of
the conversion theorem, model (driver op `views`) against implementation.
Serialised path (harness/props/c09cli.py, harness/cli_io.py; theorems Props/C09Cli.lean): see the docstring there.
Inputs: the shared generated pipeline (levels 0-2, compressed or not, 1-4 subsets; its structural values are the
same in every subset), messages whose subsets differ in their bitmaps, attribute counts and replication counts
(harness/c09gen.py: every bitmap operator kind, equal descriptor lists with other links included), the shapes the
property names (see SHAPES), every file of tests/data and 40 / all of tests/benchmark_data.
"""
import json
import multiprocessing
import os

from harness import core, tables_io
from harness import coder_io as C
from harness import coderprops as P
from harness import views_io as V
from harness import c09gen

PROP = 'C09'
# self-test switch: skip the model / implementation comparison so that only the oracle on the implementation can report
# (notes/C09_mutations.py --oracle)
ORACLE_ONLY = bool(os.environ.get('VERIF_C09_ORACLE_ONLY'))
# self-test switch: run one part of the check only (value: cli)
ONLY = os.environ.get('VERIF_C09_ONLY')

META = dict(
    claimed=True,
    text='Kernel-checked theorems about the Lean model of TemplateData.wire, NestedJsonRenderer and '
         'nested_json_to_flat_json: for EVERY template and every flat result (labels, values, links) a successful wiring '
         'pass yields a tree whose flat indices (members, replication factors, associated-field attributes, in tree order) '
         'are exactly 0..k-1 for the k indices it consumed - each once, in flat order; one node per template member and '
         'n_repeats*n_members nodes per replication (the chunking the renderers rely on); nested JSON -> flat applied to the '
         'nested JSON of the wired tree returns exactly the flat value list under decidable side conditions (everything '
         'consumed, A labels exactly on associated-field nodes, chunk lengths, leading id digit) that the driver evaluates on '
         'every case; the link to the coder is proved for two template classes quietList (elements of every class, sequences, '
         'nested fixed / delayed replication, operators 201 202 205 207 208 221, plus either 203 or 204YYY+031021/204000 i.e. '
         'associated fields on plain elements; uncompressed): by a step-by-step simulation of the coder walk by the wiring pass, '
         'every successful decode of a subset is wired successfully, every decoded value is held exactly once (member, factor, '
         'associated-field attribute), the side conditions hold and decode -> wire -> nested JSON -> flat returns the decoded '
         'values (_partial: outside those classes - 203/206 with 204, 206, bitmap operators, compressed data - the link is not '
         'proved and is false for the open findings F11a-d/F15). Correspondence (node tree, nested JSON without table text, nested JSON -> flat, error family, '
         'side conditions) and the property oracle on the implementation (three conversions == flat JSON, four encodings '
         'equal, every flat index held once, every bitmap-linked value under the same owner in flat text, bitmap_links, node '
         'tree, nested JSON and nested text of every subset) on generated messages of every construct, messages whose subsets '
         'have different bitmaps / attribute counts / replication counts (all five bitmap operators, equal descriptor lists '
         'with different links included), the shapes the property names and the sample files. The two TEXT formats are modelled in '
         'Lean line by line (View/Text.lean: flat text columns 74/64 + value at column 81, nested text indentation / attribute '
         'and factor lines, the two converters with their fixed-column slicing and startswith tests; value tokens and table names '
         'abstract): Props/C09Text.lean proves for all flat lists and all names that the flat text converter returns the printed '
         'values and that the nested text converter applied to the rendered wired tree returns the flat values under the '
         'decidable conditions sideOK + textOK (_partial for the same reason as nested JSON), with proved counterexamples '
         'outside them; the hypotheses on Python repr / literal_eval tokens (ReprOK) are tested on every value met, the model\'s '
         'lines are compared with the implementation\'s literally (value token by value) incl. hostile names. The SERIALISED forms '
         '(what `pybufrkit decode -j [-a]` writes and `encode -j [-a]` reads back) are modelled for character data in '
         'View/JsonText.lean (bytes.decode(latin-1), json.dumps string escaping with ensure_ascii, json.loads string scanning, '
         'str.encode(latin-1) in BitWriter.write_bytes, padding to the field width): Props/C09Cli.lean proves for EVERY octet string '
         'that bytes -> JSON text -> bytes is the identity (C09_json_text_bytes_roundtrip, C09_json_string_escape_roundtrip for every '
         'string incl. quotes, backslashes, control characters and surrogate pairs, C09_json_file_bytes_roundtrip), that the text is '
         'printable ASCII whatever the octets, that the field code written from the JSON text is the C02 field code of the bytes for '
         'every width (C09_json_text_field_code, C09_json_file_encode_same for whole value lists and encodeData), that latin-1 is the '
         'ONLY serialiser the encoder inverts (C09_json_text_latin1_unique), and refutes the "UTF-8 when valid" serialiser on '
         'b"Z\\xc3\\xbcrich" (C09_utf8_when_valid_loses_roundtrip); for the TEXT formats the value token of character data is '
         'modelled too (repr of bytes, ast.literal_eval) and C09_bytes_repr_roundtrip proves literal_eval(repr(b)) == b for every '
         'octet string, and Props/C09TextBytes.lean DERIVES the token hypotheses of the text-converter theorems for character values '
         'from that model (C09_repr_bytes_tok: no " b<q>" before the closing quote whatever the bytes; C09_repr_bytes_edges; '
         'C09_repr_bytes_core), so that C09_nested_text_to_flat_bytes_partial and C09_flat_text_to_flat_bytes_values hold with '
         'nothing assumed of the tokens of character values (numbers / None / flag tuples stay tested parameters). Tie and oracle on the real command line: every message of a '
         'character-data stream (001015/001019/001026/205YYY/208YYY/section 2 bytes, plain, replicated, with associated fields, '
         'compressed or not; octets sweeping all 256 values, valid 2-/3-/4-byte UTF-8, invalid UTF-8, the missing pattern, NULs, '
         'quotes/backslashes/control characters, blanks), a sample of the other streams and sample files is run through '
         'pybufrkit.main() in-process (argparse + commands.command_decode / command_encode) for the four formats, the encoder reading '
         'a file or stdin, and a few through real processes and pipes: each output read back as command_encode reads it must carry '
         'the data of the flat JSON file and encode to the bytes of the plain re-encode; the literal the command line wrote for each '
         'character value, json.loads of it, the bits write_bytes makes of it, its repr token and literal_eval of that are compared with '
         'the model (driver op jsontext), '
         'json.dumps/json.loads of arbitrary strings and hostile literals with the model\'s escaper/scanner; the option glue '
         '(encode --preamble/--append/overwrite, split, decode -m / several files, info [-t|-c|-m], subset, query [-j [-n]], script '
         '[-f|-]) is compared with the API calls it wraps.',
    technique='Lean 4 theorems (mutual structural induction over the template and the node tree) + checked model/implementation '
              'correspondence + property oracle on the implementation',
    note='description strings (table text) are outside the model; meaning nodes surviving from an earlier subset and shared '
         'mutable nodes are modelled by value; in the text formats the value tokens (Python repr / ast.literal_eval) and the '
         'table names are parameters with stated hypotheses (tested per value), section headers and the non-template sections '
         'of the text renderings are outside the model (oracle only). Serialised path: Python\'s json module beyond string '
         'literals (document structure, number formatting), argparse, print and the stream encodings are exercised (in-process and '
         'through real pipes under the UTF-8 locale of the image), not modelled; the scanner model refuses lone surrogate escapes and '
         'the non-canonical forms of int(esc, 16) that json.loads accepts (never written by json.dumps). `decode -` (a BUFR message '
         'on stdin) raises TypeError on Python 3 (sys.stdin.read() is text) and `lookup` / `compile` are not covered.',
)

# ---------------------------------------------------------------------------------------------
# shapes named by the property (ids, forced values {id: [values...]}), beyond what the shared grammar produces
TRICKY = ["it's", 'say "hi"', 'both \' and "', " b'x", ' b"x', 'a = b', 'AB      ', 'caf\xe9 \xff\xfe', '        ', 'a\\n\\x00b',
          '-> A', '# --- 1', '<<<<<<', '######', '3', "x' ", 'x" ', "'", '"', '\x00\x01\x7f', 'None', '(1, [2])', "\\'", ' = ']


def hexpad(s, n):
    b = s.encode('latin-1')[:n]
    return {'b': (b + b' ' * (n - len(b))).hex()}


def string_shapes(rng, k):
    out = []
    for _ in range(k):
        strs = [rng.choice(TRICKY) for _ in range(6)]
        ids = [1015, 1026, 1015]
        forced = {1015: [hexpad(s, 20) for s in strs[:4]], 1026: [hexpad(s, 8) for s in strs[4:]]}
        shape = rng.choice(['plain', 'rep', 'assoc', '208', '205'])
        if shape == 'rep':
            ids = [102002, 1015, 1026]
        elif shape == 'assoc':
            ids = [204003, 31021, 1015, 1026, 204000, 1015]
        elif shape == '208':
            ids = [208005, 1015, 1026, 208000]
            forced = {1015: [hexpad(s, 5) for s in strs[:2]], 1026: [hexpad(s, 5) for s in strs[2:4]]}
        elif shape == '205':
            ids = [1015, 205006, 1026]
        out.append((ids, forced, 'strings'))
    return out


SHAPES = [
    # attributes on replication factors (bitmap over 031001 / 031002)
    ([1001, 101000, 31001, 2001, 222000, 101003, 31031, 1031, 1032, 101003, 33007], {31001: [1], 31031: [0, 0, 0]}, 'attr-on-factor'),
    ([1001, 101000, 31001, 2001, 222000, 101003, 31031, 1031, 1032, 101001, 33007], {31001: [1], 31031: [1, 0, 1]}, 'attr-on-factor'),
    ([102000, 31001, 1001, 2001, 223000, 101003, 31031, 101002, 223255], {31001: [1], 31031: [0, 1, 0]}, 'attr-on-factor'),
    ([101000, 31002, 12001, 224000, 236000, 101002, 31031, 8023, 101002, 224255], {31002: [1], 31031: [0, 0]}, 'attr-on-factor'),
    # chained attributes: associated field on an element that also has quality info / a substituted value
    ([204008, 31021, 12001, 204000, 222000, 101002, 31031, 1031, 1032, 101002, 33007], {31031: [0, 0]}, 'chained'),
    ([204004, 31021, 12001, 11001, 204000, 223000, 101003, 31031, 101001, 223255], {31031: [1, 0, 1]}, 'chained'),
    ([204002, 31021, 204003, 31021, 12001, 204000, 11001, 204000, 12001, 222000, 101003, 31031, 101003, 33007], {31031: [0, 0, 0]}, 'chained'),
    ([204001, 31021, 101002, 12001, 204000, 225000, 236000, 101002, 31031, 8024, 101002, 225255, 232000, 237000, 101002, 232255],
     {31031: [0, 0]}, 'chained'),
    # 221 data not present
    ([1001, 221002, 12001, 1002, 1002], {}, '221'),
    ([221003, 12001, 102002, 12002, 1002, 11001], {}, '221'),
    ([221004, 301011, 12001], {}, '221'),
    ([101002, 221002, 12001, 2002], {}, '221'),
    ([1001, 221002, 12001, 10004, 1002, 222000, 101002, 31031, 101001, 33007], {31031: [1, 0]}, '221'),
    # zero-count replications
    ([1001, 102000, 31001, 12001, 11001, 1002], {31001: [0]}, 'zero-count'),
    ([103000, 31001, 101000, 31001, 12001], {31001: [2, 0, 0]}, 'zero-count'),
    ([103000, 31001, 101000, 31001, 12001], {31001: [0]}, 'zero-count'),
    ([103000, 31002, 1001, 101000, 31001, 12001, 2001], {31002: [2], 31001: [0, 1]}, 'zero-count'),
    # flag tables, missing values
    ([2002, 8042, 20003, 2002], {2002: [None, 5], 8042: [0x20001]}, 'flags'),
    ([2002, 8042, 204002, 31021, 2002, 204000], {2002: [15, 8]}, 'flags'),
    ([1001, 12001, 1015, 2002], {1001: [None], 12001: [None], 1015: [None], 2002: [None]}, 'missing'),
    # quality information interrupted by another element (wire keeps waiting, coder does not)
    ([12001, 222000, 101001, 31031, 33007, 12002, 33007], {31031: [0]}, 'qa-resumed'),
    # DESIGN F11: an associated field in force over constructs the wiring pass does not know
    ([204004, 31021, 203010, 1001, 203255, 1001, 204000], {}, 'f11'),
    ([204004, 31021, 206008, 63255, 1001, 204000], {}, 'f11'),
    ([204004, 31021, 206008, 1001, 204000], {}, 'f11'),
    ([12001, 204004, 31021, 223000, 101001, 31031, 223255, 204000], {31031: [0]}, 'f11'),
    ([12001, 204004, 31021, 224000, 101001, 31031, 8023, 204000, 224255], {31031: [0]}, 'f11'),
    ([12001, 204004, 31021, 225000, 101001, 31031, 8024, 204000, 225255], {31031: [0]}, 'f11'),
    ([12001, 204004, 31021, 222000, 101001, 31031, 33007, 204000], {31031: [0]}, 'assoc-over-qa'),
    # templates that END with an operator still in force (nothing cancels it before the next subset starts): whatever the
    # wiring pass keeps for 204 / 221 / 222-225 must not survive into the next subset (seeded change C09-8); always >= 2 subsets
    ([12001, 204004, 31021, 12001], {}, 'open-end'),
    ([204002, 31021, 1001, 204003, 31021, 12001], {}, 'open-end'),
    ([1001, 221003, 12001, 1002], {}, 'open-end'),
    ([12001, 221002, 10004], {}, 'open-end'),
    ([12001, 33007, 1001, 222000, 101002, 31031], {31031: [0, 1]}, 'open-end'),
    ([33007, 12001, 222000, 236000, 101002, 31031], {31031: [1, 0]}, 'open-end'),
    ([12001, 224000, 101001, 31031, 8023], {31031: [0]}, 'open-end'),
    ([12001, 225000, 101001, 31031, 8024], {31031: [0]}, 'open-end'),
    ([12001, 201130, 12001, 202129, 11001], {}, 'open-end'),
    ([1015, 208004, 1015, 207001, 12001], {}, 'open-end'),
    ([203012, 12001, 203255, 12001], {}, 'open-end'),
    ([12001, 206008, 63255, 204004, 31021, 11001], {}, 'open-end'),
]


def assoc_loud(ids):
    """Which constructs are met while an associated field (204YYY) is in force (DESIGN F11: the complement of
    `AssocQuiet`).  A flat scan of the unexpanded ids is enough for the generated shapes (204 is opened and
    closed at one nesting level); sequences are not expanded."""
    depth = 0
    defining = False
    loud = set()
    prev = None
    for i in ids:
        f, code, y = i // 100000, i // 1000, i % 1000
        if code == 204:
            depth += 1 if y else -1
        elif code == 203:
            defining = y not in (0, 255)
            if depth > 0 and defining:
                pass
        elif depth > 0:
            if f == 0 and defining and i // 1000 != 31:
                loud.add('203')
            if prev is not None and prev // 1000 == 206 and f == 0 and i // 1000 != 31:
                loud.add('206')
            if code in (223, 224, 225, 232) and y == 255:
                loud.add('marker')
            if i in (8023, 8024):
                loud.add('stats-meaning')
        if f == 0 and defining and depth == 0:
            pass
        prev = i
    return sorted(loud)


def qa_resumed(ids):
    """a class-33 element that follows a non-33 element after a run of quality-information values, while the wiring
    pass is still waiting for quality information (no 223/224/225/232/235 in between)"""
    waiting = False
    run = False
    broken = False
    for i in ids:
        f, code = i // 100000, i // 1000
        if i == 222000:
            waiting, run, broken = True, False, False
        elif code in (223, 224, 225, 232, 235):
            waiting = False
        elif waiting and f == 0:
            if code == 33:
                if broken:
                    return True
                run = True
            elif run:
                broken = True
    return False


def features(ids):
    f = set(P.classify(ids))
    return sorted(f)


# ---------------------------------------------------------------------------------------------
def evaluate(args):
    """worker: implementation observations for one message"""
    b, encode = args
    try:
        return V.observe(b, encode=encode)
    except Exception as e:  # noqa  (a bug of the harness, reported as machinery error by the caller)
        import traceback
        return {'harness_error': traceback.format_exc()[-1500:]}


def oracle(obs):
    """-> list of (stage, description) of property violations visible on the implementation alone"""
    bad = []
    if obs.get('decode') != 'ok':
        return bad
    if obs['wire'] != 'ok':
        bad.append(('wire', 'wiring failed: %s' % obs.get('wire_exc')))
    else:
        for k, ix in enumerate(obs['indices']):
            if not ix['perm_ok']:
                bad.append(('indices', 'subset %d: the tree holds %d indices which are not a permutation of range(%d)' % (k, ix['n'], obs['lens'][k])))
            elif not ix['order_ok']:
                bad.append(('indices-order', 'subset %d: tree order of the flat indices is not the flat order' % k))
            if ix['foreign']:
                bad.append(('indices', 'subset %d: %d virtual attribute nodes are not nodes of the tree' % (k, ix['foreign'])))
        if obs.get('tree') == 'err:other':
            bad.append(('tree', 'attribute cycle in the node tree'))
    for name, st in obs['stages'].items():
        if st.get('render') != 'ok':
            if obs['wire'] == 'ok' or name == 'flat_text':
                bad.append((name, 'rendering failed: %s' % st.get('exc')))
        elif st.get('convert') != 'ok':
            bad.append((name, 'conversion to flat failed: %s' % st.get('exc')))
        elif not st['equal']:
            bad.append((name, 'converted != flat JSON at %s: %s vs %s' % tuple(st['diff'])))
        elif st.get('layout_equal') is False:
            bad.append((name + '_layout', 'nested text and nested JSON lay the nodes out differently: %s' % st.get('layout_diff')))
    for stage, why in (obs.get('owners') or {}).get('problems', []):
        bad.append((stage, why))
    if 'enc_same' in obs and not obs['enc_same'] and not bad:
        bad.append(('encode', 'encodings differ: %s' % {k: (v[:60] if isinstance(v, str) else v) for k, v in obs['enc'].items()}))
    return bad


def correspondence(obs, model):
    """-> description of a model/implementation disagreement or None"""
    if obs.get('decode') != 'ok':
        return None if 'err' in model else 'implementation does not decode (%s), model does' % obs.get('decode')
    if 'err' in model:
        return 'model does not decode (%s), implementation does' % model['err']
    why = P.compare_decode(('ok', obs['subsets'], 0), {'subsets': model['subsets']})
    if why:
        return 'flat lists: ' + why
    mw = model['wire']
    if isinstance(mw, dict):
        if obs['wire'] == 'ok':
            return 'wiring: implementation ok, model err:%s' % mw['err']
        if obs['wire'] != 'err:' + mw['err']:
            return 'wiring error family: implementation %s (%s), model err:%s' % (obs['wire'], obs.get('wire_exc'), mw['err'])
        return None
    if obs['wire'] != 'ok':
        return 'wiring: implementation %s (%s), model ok' % (obs['wire'], obs.get('wire_exc'))
    if obs['tree'] == 'err:other':
        return 'node tree: implementation has an attribute cycle, model not'
    if obs['tree'] != mw:
        for k, (a, m) in enumerate(zip(obs['tree'], mw)):
            if a != m:
                for j, (x, y) in enumerate(zip(a, m)):
                    if x != y:
                        return 'node tree differs in subset %d at top-level node %d: %s vs %s' % (k, j, json.dumps(x)[:160], json.dumps(y)[:160])
                return 'node tree differs in subset %d (length %d vs %d)' % (k, len(a), len(m))
        return 'node tree: number of subsets differs'
    if not all(x is True for x in model.get('side_ok', [])):
        return 'the side conditions of C09_nested_json_to_flat_partial do not hold on the model although the wiring pass succeeds: %s' % model.get('side_ok')
    mn = model['nested']
    st = obs['stages'].get('nested_json', {})
    if isinstance(mn, dict):
        if st.get('render') == 'ok':
            return 'nested JSON: implementation ok, model err:%s' % mn['err']
    else:
        if st.get('render') != 'ok':
            return 'nested JSON: implementation %s, model ok' % st.get('exc')
        d = V.same_nested(obs['nested'], mn)
        if d:
            return 'nested JSON differs: ' + d
        mf = model['flat']
        if isinstance(mf, dict):
            if st.get('convert') == 'ok':
                return 'nested JSON -> flat: implementation ok, model err:%s' % mf['err']
        elif st.get('convert') == 'ok':
            # the model's converter output against the implementation's flat values
            for k, (a, m) in enumerate(zip(obs['flat_values'], mf)):
                dd = C.first_diff(list(a), m)
                if dd is not None and st.get('equal'):
                    return 'nested JSON -> flat differs in subset %d at %s' % (k, dd[0])
    return None


def views_request(ids, obs, b):
    return {'op': 'views', 'ids': ids, 'compressed': obs.get('compressed', False), 'n': obs.get('n_subsets', 0), 'bits': C.data_bits(b)}


# ---------------------------------------------------------------------------------------------
def build_message(drv, treq, ids, forced, n, comp, rng, edition=4):
    """-> (bytes, values) or (None, reason)"""
    force = [[k, list(v) * (1 if comp else n)] for k, v in sorted(forced.items())]
    r = drv.batch([treq, {'op': 'gen-data', 'ids': ids, 'n': n, 'shared': comp, 'rnd': C.rnd_bits(rng, 6000), 'force': force}])[1]
    if 'err' in r:
        return None, 'gen:' + r['err']
    js = C.make_message_json(ids, P.py_inputs(r['vals']), comp, edition=edition)
    st, b, _ = C.impl_encode(js)
    if st != 'ok':
        return None, 'encode:' + st
    return b, r['vals']


def signature(kind, stage, ids):
    return {'kind': kind, 'stage': stage, 'assoc_in_force_over': assoc_loud(ids) if ids else [],
            'qa_resumed': bool(ids) and qa_resumed(ids)}


def report(ctx, kind, stage, why, ids, b, extra=None, tag=None):
    sig = signature(kind, stage, ids)
    if tag:
        sig['shape'] = tag
    rep = {'ids': ids, 'message_hex': b.hex() if b is not None else None, 'why': why}
    rep.update(extra or {})
    ctx.violation('%s %s: %s (ids %s)' % (kind, stage, why, (ids or [])[:40]), rep, signature=sig)


def check_one(ctx, ids, b, obs, model, tag=None, shrinker=None):
    """oracle + correspondence for one evaluated message; returns True when something was reported"""
    if 'harness_error' in obs:
        raise core.MachineryError('observation failed: ' + obs['harness_error'])
    reported = False
    exempt = (obs.get('owners') or {}).get('exempt')
    if exempt:
        # a class 33 value with an associated field is wired as a plain member, its link is not shown (C07 finding
        # F11-C07-wire-qa33).  Reported as soon as KNOWN_FINDINGS.json lists it for C09, counted until then.
        sig = {'kind': 'oracle', 'stage': 'owners', 'assoc_in_force_over': ['qa33'], 'qa_resumed': False}
        if any(kf.get('status') == 'open' and kf.get('property') == PROP and core.finding_matches(kf, sig) for kf in ctx.findings):
            ctx.violation('oracle owners: %d links of the flat view are not shown in the nested views (class 33 value with an associated field) (ids %s)' % (
                exempt, (ids or [])[:40]), {'ids': ids, 'message_hex': b.hex() if b is not None else None}, signature=sig)
        else:
            ctx.count('owners-exempt:assoc-over-qa33', exempt)
    bad = oracle(obs)
    for stage, why in bad[:1]:
        ids2, b2, why2 = ids, b, why
        sk = core.chash(signature('oracle', stage, ids))
        done = ctx.__dict__.setdefault('_c09_shrunk', set())
        if shrinker is not None and sk not in done:
            done.add(sk)
            small = shrinker(stage)
            if small is not None:
                ids2, b2, why2 = small
        report(ctx, 'oracle', stage, why2, ids2, b2, tag=tag)
        reported = True
    if model is not None and not ORACLE_ONLY:
        why = correspondence(obs, model)
        if why:
            report(ctx, 'correspondence', 'model', why, ids, b, tag=tag)
            reported = True
    # --- w5-c09wire: coverage of the template classes of the link theorems (begin) ---
    if model is not None and 'err' not in model and 'quiet' in model:
        link_coverage(ctx, ids, obs, model)
    # --- w5-c09wire (end) ---
    return reported


# --- w5-c09wire (begin) -----------------------------------------------------------------------
def link_coverage(ctx, ids, obs, model):
    """How many decoded messages fall inside the classes on which the link coder -> wiring pass is PROVED
    (`quietList`: Props/C09.lean uncompressed, Props/C09Wire.lean compressed; `wireLinksOK`, Props/C09Wire.lean: 206 and
    the bitmap machine without 204, compressed or not; union = `C09.viewClass`, `C09_decode_hierarchical_view`).
    Inside the classes the statement itself (pass succeeds, side conditions hold) is also evaluated on the model; a
    failure would contradict a theorem (model / proof drift, not a defect of pybufrkit) and is printed."""
    comp = bool(obs.get('compressed'))
    sfx = ':compressed' if comp else ':uncompressed'
    q, wl = model.get('quiet', 0), bool(model.get('wire_links_ok'))
    wire_ok = not isinstance(model.get('wire'), dict)
    side = model.get('side_ok') or []
    side_ok = bool(side) and ((side[0] is True) if comp else all(x is True for x in side))
    ctx.count('link:decoded' + sfx)
    if q:
        ctx.count('link:inside-quietList(proved)' + sfx)
        if not (wire_ok and side_ok):
            print('NOTE: C09 link theorem contradicted by the model on a quietList template (ids %s)' % (ids or [])[:40])
            ctx.count('link:quietList-statement-FAILS')
    if wl:
        ctx.count('link:inside-wireLinksOK(proved)' + sfx)
        if not q:
            ctx.count('link:inside-wireLinksOK-not-quietList' + sfx)
        if not (wire_ok and side_ok):
            print('NOTE: C09 link theorem contradicted by the model on a wireLinksOK template (ids %s)' % (ids or [])[:40])
            ctx.count('link:wireLinksOK-statement-FAILS')
    if q or wl:
        ctx.count('link:inside-viewClass(proved)' + sfx)
    if not q and not wl:
        ctx.count('link:outside-both' + sfx)
        if not (wire_ok and side_ok):
            ctx.count('link:outside-both-and-statement-fails' + sfx)
        # which operators the templates outside the proved class use (top-level ids; sample files: 'file')
        feats = sorted({str(i // 1000) for i in ids if 200000 <= i < 300000}) if ids else ['file']
        ctx.count('link:outside-shape:%s:%s' % ('ok' if wire_ok and side_ok else 'fails', '+'.join(feats) or 'none'))
# --- w5-c09wire (end) -------------------------------------------------------------------------


def run(ctx):
    drv = ctx.driver
    ctx.rule = ('message decodes, its template has a replication, sequence or operator and it has at least one non-missing value '
                '(corpus file: decodes)')
    treq = tables_io.group_request()
    pool = multiprocessing.Pool(min(14, os.cpu_count() or 2))
    try:
        if ONLY == 'cli':
            # self-test switch (notes/C09_mutations.py --cli): the serialised path alone
            from harness.props import c09cli
            return c09cli.run_cli(ctx, drv, pool, extra_messages=[])
        run_shapes(ctx, drv, treq)
        run_structural(ctx, drv, treq)       # w6-f24
        run_bitmaps(ctx, drv, treq, pool)
        run_generated(ctx, drv, treq, pool)
        run_corpus(ctx, drv, pool)
        # the two text formats: model (View/Text.lean) vs implementation, line by line, and the two converters
        from harness.props import c09text
        c09text.run_text(ctx, drv=drv, pool=pool)
        # the serialised path: what the command line writes and reads back (theorems Props/C09Cli.lean)
        from harness.props import c09cli
        c09cli.run_cli(ctx, drv, pool, extra_messages=cli_sample(ctx))
    finally:
        pool.terminate()


def keep_for_cli(ctx, tag, b):
    """messages of the other streams from which run_cli takes its sample"""
    ctx.__dict__.setdefault('_c09_cli_msgs', []).append((tag, b))


def cli_sample(ctx):
    msgs = ctx.__dict__.get('_c09_cli_msgs', [])
    quick = ctx.tier == 'quick'
    want = {'shapes': 60 if quick else 400, 'bitmaps': 30 if quick else 600, 'generated': 50 if quick else 1200, 'file': 25 if quick else 400}
    rng = ctx.rng('cli-sample')
    out = []
    for stream, k in sorted(want.items()):
        pool_ = [(t, b) for t, b in msgs if t.split(':')[0] == stream]
        rng.shuffle(pool_)
        out += pool_[:k]
    return out


def make_shrinker(ctx, drv, treq, parts, forced, n, comp):
    """delta-debugging over the top-level parts of the template while the same oracle stage fails"""
    def shrinker(stage):
        case = P.Case(parts, [], n, comp)

        def still(c2):
            b2, _ = build_message(drv, treq, c2.ids, forced, c2.n, c2.comp, ctx.rng('shrink'))
            if b2 is None:
                return False
            o2 = V.observe(b2, encode=(stage == 'encode'))
            return any(s == stage for s, _ in oracle(o2))
        small = P.shrink(case, still, budget=30)
        if small is case:
            return None
        b2, _ = build_message(drv, treq, small.ids, forced, small.n, small.comp, ctx.rng('shrink'))
        o2 = V.observe(b2, encode=(stage == 'encode'))
        why = [w for s, w in oracle(o2) if s == stage]
        return small.ids, b2, (why[0] if why else '?')
    return shrinker


def run_shapes(ctx, drv, treq):
    rng = ctx.rng('shapes')
    shapes = list(SHAPES) + string_shapes(rng, 24 if ctx.tier == 'quick' else 200)
    items = []
    for ids, forced, tag in shapes:
        for comp in (False, True):
            n = rng.randint(2, 4) if tag == 'open-end' else rng.randint(1, 3)
            b, vals = build_message(drv, treq, ids, forced, n, comp, rng)
            if b is None:
                ctx.count('shape-not-built:' + tag)
                continue
            items.append((ids, forced, tag, n, comp, b))
    obss = [V.observe(b) for (_, _, _, _, _, b) in items]
    models = drv.batch([treq] + [views_request(ids, o, b) for (ids, _, _, _, _, b), o in zip(items, obss)])[1:]
    for (ids, forced, tag, n, comp, b), obs, model in zip(items, obss, models):
        ctx.case({'ids': ids, 'n': n, 'compressed': comp, 'shape': tag}, nontrivial=obs.get('decode') == 'ok', sample=len(ctx.samples) < 2)
        ctx.traces += 1
        ctx.count('shape:' + tag)
        if obs.get('wire', 'ok') != 'ok':
            ctx.count('wire-fails')
        elif obs.get('decode') == 'ok':
            keep_for_cli(ctx, 'shapes:' + tag, b)
        check_one(ctx, ids, b, obs, model, tag=tag)


# --- w6-f24 (begin): finding F24 -------------------------------------------------------------------
def run_structural(ctx, drv, treq):
    """compressed messages in which a delayed replication factor / a bitmap bit is missing or different in one subset
    (harness/structcols.py, assembled bit-level): whatever decodes has to be shown by all four renderings, each
    converting back to the flat JSON"""
    from harness import structcols
    rng = ctx.rng('structural')
    cases = structcols.make_cases(rng, 120 if ctx.tier == 'quick' else 2500)
    obss = [V.observe(c['bytes']) for c in cases]
    # (not views_request: a refused message has no `compressed` / `n_subsets` in its observation)
    models = drv.batch([treq] + [{'op': 'views', 'ids': c['ids'], 'compressed': True, 'n': c['n'], 'bits': C.data_bits(c['bytes'])}
                                 for c in cases])[1:] if cases else []
    for c, obs, model in zip(cases, obss, models):
        tag = 'structural:%s:%s' % (c['column'], c['kind'])
        ctx.case({'ids': c['ids'], 'n': c['n'], 'compressed': True, 'shape': tag, 'label': c['label'], 'position': c['position']},
                 nontrivial=obs.get('decode') == 'ok', sample=False)
        ctx.traces += 1
        ctx.count('%s:%s' % (tag, 'decodes' if obs.get('decode') == 'ok' else 'refused'))
        check_one(ctx, c['ids'], c['bytes'], obs, model, tag=tag)
# --- w6-f24 (end) -----------------------------------------------------------------------------------


def run_generated(ctx, drv, treq, pool):
    rng = ctx.rng('main')
    count = 600 if ctx.tier == 'quick' else 12000
    done = 0
    while done < count:
        k = min(300, count - done)
        cases = []
        for level in (0, 1, 2):
            cases += P.gen_cases(rng, k // 3, level=level)
        for i, c in enumerate(cases):
            c.idx = done + i
        done += len(cases)
        cases = P.gen_values(drv, treq, cases, rng)
        msgs = []
        for c in cases:
            js = C.make_message_json(c.ids, P.py_inputs(c.valss), c.comp, edition=c.edition)
            st, b, _ = C.impl_encode(js)
            if st != 'ok':
                ctx.count('encoder-refused')
                continue
            msgs.append((c, b))
        obss = pool.map(evaluate, [(b, True) for _, b in msgs], chunksize=8)
        models = drv.batch([treq] + [views_request(c.ids, o, b) for (c, b), o in zip(msgs, obss)])[1:]
        for (c, b), obs, model in zip(msgs, obss, models):
            ctx.case({'ids': c.ids, 'n': c.n, 'compressed': c.comp, 'edition': c.edition},
                     nontrivial=P.nontrivial(c) and obs.get('decode') == 'ok', sample=len(ctx.samples) < 5)
            ctx.traces += 1
            ctx.count('compressed' if c.comp else 'uncompressed')
            for f in P.classify(c.ids):
                ctx.count(f)
            if obs.get('decode') != 'ok':
                ctx.count('decode-' + str(obs.get('decode')))
                continue
            if obs['wire'] != 'ok':
                ctx.count('wire-fails')
            elif obs.get('enc_ok'):
                keep_for_cli(ctx, 'generated', b)
            forced = {k: v for k, v in c.forced}
            check_one(ctx, c.ids, b, obs, model, shrinker=make_shrinker(ctx, drv, treq, c.parts, forced, c.n, c.comp))


def run_bitmaps(ctx, drv, treq, pool):
    """subsets that differ in their bitmaps / attribute counts / replication counts (harness/c09gen.py)"""
    rng = ctx.rng('bitmaps')
    count = 300 if ctx.tier == 'quick' else 6000
    done = 0
    while done < count:
        k = min(300, count - done)
        cases, refused = c09gen.bitmap_cases(drv, treq, rng, k)
        for c in cases + refused:
            c.idx += done
        done += k
        if refused:
            ctx.count('bitmap:generator-refused', len(refused))
        msgs = []
        for c in cases:
            js = C.make_message_json(c.ids, P.py_inputs(c.valss), c.comp, edition=c.edition)
            st, b, _ = C.impl_encode(js)
            if st != 'ok':
                ctx.count('bitmap:encoder-refused')
                continue
            msgs.append((c, b))
        obss = pool.map(evaluate, [(b, True) for _, b in msgs], chunksize=8)
        models = drv.batch([treq] + [views_request(c.ids, o, b) for (c, b), o in zip(msgs, obss)])[1:]
        for (c, b), obs, model in zip(msgs, obss, models):
            ctx.case({'ids': c.ids, 'n': c.n, 'compressed': c.comp, 'edition': c.edition, 'forced': c.forced},
                     nontrivial=obs.get('decode') == 'ok', sample=len(ctx.samples) < 2)
            ctx.traces += 1
            ctx.count('bitmap:compressed' if c.comp else 'bitmap:uncompressed')
            ctx.count('bitmap:tail-' + c.info['tail'])
            if c.info['counts']:
                ctx.count('bitmap:replication-counts-' + c.info['counts'])
            for d in c.info['chain']:
                ctx.count('bitmap:op%d' % d['kind'])
                ctx.count('bitmap:%s' % d['mode'])
                if d['mode'] == 'define':
                    ctx.count('bitmap:bits-' + d['bits'])
                ctx.count('bitmap:consumers-' + d['consumers'])
            if obs.get('decode') != 'ok':
                ctx.count('bitmap:decode-' + str(obs.get('decode')))
                continue
            if obs['wire'] != 'ok':
                ctx.count('wire-fails')
            elif obs.get('enc_ok'):
                keep_for_cli(ctx, 'bitmaps', b)
            ow = obs.get('owners') or {}
            ctx.count('bitmap:links', ow.get('links', 0))
            if ow.get('subsets_differing'):
                # what the wiring depends on besides the descriptors: same decoded descriptors as the subset before, other links
                ctx.count('bitmap:same-descriptors-other-links')
                ctx.count('bitmap:same-descriptors-other-links:op%d' % c.info['chain'][0]['kind'])
            check_one(ctx, c.ids, b, obs, model, tag='bitmaps')


def corpus_item(path):
    with open(path, 'rb') as f:
        raw = f.read()
    k = raw.find(b'BUFR')
    return raw[k:]


QUICK_MAX_VALUES = 30000
CLI_MAX_VALUES = 6000   # sample files taken through the command line pipeline (run_cli)


def corpus_worker(args):
    """worker: implementation observations and model response for one sample file"""
    path, quick = args
    try:
        raw = corpus_item(path)
        obs = V.observe(raw, encode=True, max_values=QUICK_MAX_VALUES if quick else None)
        if obs.get('decode') != 'ok':
            return obs, None, None
        wmo_sn, local_sn, root = obs['tables']
        tb, td = tables_io.read_group(tuple(wmo_sn), tuple(local_sn) if local_sn else None, root)
        nsub, comp, ids = P.parse_section3(raw)
        model = core.Driver().batch([tables_io.tables_request(tb, td), views_request(ids, obs, raw)])[1]
        # what the parent needs only
        obs.pop('texts', None)
        return obs, model, (nsub, comp, ids)
    except core.MachineryError as e:
        return {'harness_error': 'machinery: %s' % e}, None, None
    except Exception:  # noqa
        import traceback
        return {'harness_error': traceback.format_exc()[-1500:]}, None, None


def run_corpus(ctx, drv, pool):
    d1 = os.path.join(core.REPO, 'tests', 'data')
    d2 = os.path.join(core.REPO, 'tests', 'benchmark_data')
    files = [os.path.join(d1, f) for f in sorted(os.listdir(d1)) if f.endswith('.bufr') and 'prepbufr' not in f and 'invalid' not in f]
    bench = [os.path.join(d2, f) for f in sorted(os.listdir(d2)) if f.endswith('.bufr')]
    quick = ctx.tier == 'quick'
    if quick:
        r = ctx.rng('corpus')
        r.shuffle(bench)
        bench = sorted(bench[:40])
    files += bench
    results = pool.map(corpus_worker, [(p, quick) for p in files], chunksize=1)
    for path, (obs, model, info) in zip(files, results):
        name = os.path.basename(path)
        if 'harness_error' in obs:
            raise core.MachineryError('observation failed on %s: %s' % (name, obs['harness_error']))
        if obs.get('decode') != 'ok':
            ctx.count('corpus-skipped:' + str(obs.get('decode')))
            continue
        nsub, comp, ids = info
        ctx.case({'file': name, 'subsets': nsub, 'compressed': comp, 'values': sum(obs['lens'])}, nontrivial=True, sample=len(ctx.samples) < 6)
        ctx.traces += 1
        ctx.count('corpus-files')
        for f in P.classify(ids):
            ctx.count('corpus:' + f)
        if isinstance(obs.get('tree'), list) and any('a' in t['f'] for sub in obs['tree'] for t in walk_nodes(sub) if 'f' in t):
            ctx.count('corpus:attribute-on-factor')
        if not obs.get('enc_ok', True):
            ctx.count('corpus:encoder-refused')
        elif obs.get('wire') == 'ok' and sum(obs['lens']) <= CLI_MAX_VALUES:
            keep_for_cli(ctx, 'file:' + name, corpus_item(path))
        check_one(ctx, ids, None, obs, model, tag='file:' + name)


def walk_nodes(nodes):
    for n in nodes:
        yield n
        if 'm' in n:
            for x in walk_nodes(n['m']):
                yield x


def replay(ctx, path):
    with open(path) as f:
        body = json.load(f)
    rep = body['replay']
    drv = ctx.driver
    if 'undischarged' in rep:
        print('replay: proof obligations are re-checked by the audit above')
        return
    if 'format' in rep:
        from harness.props import c09text
        return c09text.replay_text(ctx, rep)
    if rep.get('cli'):
        from harness.props import c09cli
        return c09cli.replay_cli(ctx, rep)
    if rep.get('message_hex'):
        b = bytes.fromhex(rep['message_hex'])
        treq = tables_io.group_request()
    else:
        raise core.MachineryError('replay without message bytes: re-run the check (corpus files are read from the repo)')
    obs = V.observe(b)
    req = views_request(rep['ids'], obs, b)
    if 'n_subsets' in rep:          # w6-f24: a REFUSED message has no `compressed` / `n_subsets` in its observation
        req['compressed'], req['n'] = bool(rep.get('compressed')), rep['n_subsets']
    model = drv.batch([treq, req])[1]
    bad = oracle(obs)
    why = correspondence(obs, model)
    print('replay: oracle %s; correspondence %s' % (bad or 'holds', why or 'agrees'))
    check_one(ctx, rep['ids'], b, obs, model)
