"""
C17 — metadata queries and metadata-only decoding agree with the full decode.

Theorems: lean/BufrModel/Props/C17.lean (lookup theorems for every section list and every string;
metadata-only layouts; independence from the data coder / from what follows / from the skipped bits).
Tie: MetadataQuerent(MetadataExprParser()).query and Decoder().process(info_only=True) against the model
driver (`mdquery`, `msg-decode`).  Oracle: direct scan of msg.sections; info-only sections vs the full
decode; the same after overwriting the data section and damaging the stop signature; stream scanned
info-only returns each message by its declared total length.
harness/c17_info.py: "metadata-only ignores the data content" as a matrix - both entry points (Decoder.process and
generate_bufr_message in four modes) x every data category 0..255 x n_subsets 0/1/many x other header values x data
section intact / random / 0xFF / 0x00 / stream cut at its declared end, streams of 1..4 messages.
"""
import glob
import json
import os

from harness import c17_info, core, msgs

PROP = 'C17'

META = dict(
    text='Kernel-checked theorems over the model of mdquery.py for EVERY section list and expression string: `%name` is the first '
         'match in section order, `%k.name` the lookup restricted to section k (= the parameter of the section k when indices are '
         'distinct; none for k out of range), an expression not starting with % or with a non-integer index is the metadata-parsing '
         'error; and over the section decoder: the metadata-only layouts are the full ones cut before the template data '
         '(identical before the data section, `decide` over the regenerated layouts), the metadata-only decode is the same for '
         'every data reader (never runs it), is independent of everything after the declared extents, and the skipped extent is '
         'opaque. Correspondence: every parameter name of every bundled layout x editions 2,3,4 x section 2 absent/present x '
         '%name, %k.name for k in -1..6, non-numeric k, missing %, blanks; info-only vs full decode on generated messages and on '
         'the sample files of /repo/tests/data, also with the data section overwritten by random bytes and the stop signature '
         'damaged; info-only stream scan takes each message by its declared total length. Metadata-only decoding ignores the '
         'data content through BOTH entry points - Decoder.process(info_only=True) and generate_bufr_message(info_only=True) '
         'plain / continue_on_error / filter_expr / both - over streams of 1..4 messages with separators, for every data category '
         '0..255 (incl. 11: generated and real NCEP table definitions) x n_subsets 0 / 1 / many, editions 2-4, section 2, '
         'compressed flag, master table number, table versions / centres that do not exist on disk, n_subsets contradicting the '
         'data, unknown descriptors, declared total length != sum of the sections, with the data section intact / random / all '
         '0xFF / all 0x00 / the stream cut at its declared end: every message is delivered with the sections 0-3 of a full decode '
         'of the intact original, its bytes by declared total length, nothing raised, and the process-wide table definitions '
         'untouched; model: Msg.Stream.scan in info mode.',
    technique='Lean 4 theorems (string functions on List Char, induction over parameter lists, prefix-determined readers) + checked '
              'model/implementation correspondence + oracle on the implementation (direct scan, info-only vs full)',
    note='The message-level theorems are proved for every well-formed layout family and every prefix-determined data reader: '
         '`C17_info_eq_full_prefix` (a successful full decode implies a successful metadata-only decode whose sections are the '
         'full ones up to the data section, that section cut before the template data; no data; serialized bytes a prefix) and '
         '`C17_info_ignores_data_content` (the skipped extent of the data section is opaque; the data reader is never run). '
         'The empty expression and expressions with two dots raise '
         'non-library exceptions (IndexError / ValueError) and are outside the property; only the error family is compared there. '
         'Python int() also accepts non-ASCII digits; the model covers ASCII.')


def all_param_names():
    names = []
    for (index, ed), lay in sorted(msgs.layouts().items()):
        for p in lay['parameters']:
            if p['name'] not in names:
                names.append(p['name'])
    return names


def expressions(names, rng):
    out = []
    for n in names:
        out.append('%' + n)
        for k in range(-1, 7):
            out.append('%%%d.%s' % (k, n))
    # the rest on a sample of names
    for n in rng.sample(names, min(12, len(names))) + ['no_such_name', '']:
        # '\x1c1', '1\x1f': int() does not skip U+001C..U+001F although str.strip() does; '\xa01': it skips NBSP
        for ks in ('x', '1x', '', ' 1', '+1', '1 ', '0x1', '1_0', '-', '--1', '1.5', '\x1c1', '1\x1f', '\xa01'):
            out.append('%%%s.%s' % (ks, n))
        out += [n, '1.' + n, '.' + n, ' %' + n + ' ', '\t%' + n + '\n', '% ' + n, '%%' + n, '$' + n, n + '%']
    out += ['', '   ', '%', '%.', '%1.2.x', '%1..x', '%..', 'x', '.']
    return out


def tag_of_param(p):
    return msgs.tag_value(p.type, p.value)


def oracle_lookup(msg, expr):
    """the property, evaluated by a direct scan of msg.sections; returns ('ok', tagged|None) or None when the
    expression is outside the property's quantifier / an error is due"""
    e = expr.strip()
    if not e:
        return 'outside'
    if e[0] != '%':
        return 'err:lib:mdexpr'
    body = e[1:]
    if body.count('.') > 1:
        return 'outside'
    k = None
    name = body
    if '.' in body:
        ks, name = body.split('.')
        try:
            k = int(ks)
        except ValueError:
            return 'err:lib:mdexpr'
    for s in msg.sections:
        if k is not None and s.get_metadata('index') != k:
            continue
        for p in s:
            if p.name == name:
                return ['ok', tag_of_param(p), p.value]
    return ['ok', None, None]


def impl_query(msg, expr):
    from pybufrkit.mdquery import MetadataExprParser, MetadataQuerent
    try:
        return ['ok', MetadataQuerent(MetadataExprParser()).query(msg, expr)]
    except Exception as e:  # noqa
        return core.err_tag(e)


def check_queries(ctx, label, b, data_bits, exprs, info_only, spec):
    impl = msgs.impl_decode(b, info_only=info_only)
    if 'err' in impl:
        ctx.violation('%s: decoding a generated message failed: %s' % (label, impl['err']), {'hex': b.hex(), 'spec': spec},
                      signature={'kind': 'decode', 'label': label})
        return
    msg = impl['_msg']
    req = dict(msgs.decode_req(b, data_bits, info_only), op='mdquery', exprs=exprs)
    model = ctx.driver.batch([req])[0]
    if 'err' in model:
        ctx.violation('%s: model cannot decode a message the implementation decodes: %s' % (label, model['err']),
                      {'correspondence': 'mdquery', 'req': req}, signature={'kind': 'correspondence'}, no_failing_input=True)
        return
    breaks = []
    for expr, m in zip(exprs, model['res']):
        got = impl_query(msg, expr)
        want = oracle_lookup(msg, expr)
        ctx.traces += 1
        ctx.count('%s:%s' % (label, 'err' if isinstance(got, str) else ('none' if got[1] is None else 'value')))
        form = ('bare' if '.' not in expr else 'indexed') if expr.strip().startswith('%') else 'no-percent'
        ctx.count('form:' + form)
        ctx.case({'spec': spec, 'expr': expr, 'info': info_only}, nontrivial=(not isinstance(got, str) and got[1] is not None),
                 sample=(ctx.evaluations % 4000 == 0))
        sig = {'kind': 'query', 'form': form}
        bad = None
        if want == 'outside':
            if not isinstance(got, str):
                pass  # behaviour outside the quantifier; only the correspondence is compared
        elif isinstance(want, str):
            if got != want:
                bad = 'expected the metadata-parsing error, got %r' % (got if isinstance(got, str) else 'a value')
        else:
            if isinstance(got, str):
                bad = 'query raised %s, the direct scan gives %r' % (got, want[1])
            elif got[1] is not want[2] and got[1] != want[2]:
                bad = 'query returned %r, the direct scan of the sections gives %r' % (got[1], want[2])
        if bad:
            ctx.violation('%s expr=%r: %s' % (label, expr, bad), {'hex': b.hex(), 'expr': expr, 'info_only': info_only,
                                                                  'data_bits': data_bits, 'spec': spec}, signature=sig)
            continue
        # correspondence
        if isinstance(got, str):
            gi = got
        elif isinstance(want, list):
            gi = ['ok', want[1]]
        else:
            gi = ['ok', '?']
        if gi != m:
            breaks.append({'expr': expr, 'impl': gi, 'model': m, 'hex': b.hex(), 'info_only': info_only, 'data_bits': data_bits})
    return breaks


def sections_of(impl):
    return [(s['index'], s['params']) for s in impl['sections']]


def info_vs_full(ctx, label, b, data_bits, spec, model_full=True):
    """oracle: info-only sections = full sections 0-3 (+ the head of section 4); unaffected by damaged data / stop signature;
    correspondence: model info-only decode = implementation's"""
    full = msgs.impl_decode(b, info_only=False)
    info = msgs.impl_decode(b, info_only=True)
    full.pop('_msg', None)
    info.pop('_msg', None)
    sig = {'kind': 'info', 'label': label}
    ctx.count(label)
    ctx.case({'spec': spec, 'label': label, 'len': len(b)}, nontrivial=True)
    if 'err' in full:
        ctx.count(label + ':full-decode-fails')
        return []
    if 'err' in info:
        ctx.violation('%s: info-only decode fails (%s) on a message the full decode accepts' % (label, info['err']),
                      {'hex': b.hex()[:4000], 'spec': spec}, signature=sig)
        return []
    fs, is_ = sections_of(full), sections_of(info)
    bad = None
    if len(is_) != len(fs) - 1:
        bad = 'info-only returns %d sections, full decode %d' % (len(is_), len(fs))
    elif is_[:-1] != fs[:len(is_) - 1]:
        bad = 'sections before the data section differ between info-only and full decode'
    elif is_[-1][0] != fs[len(is_) - 1][0] or is_[-1][1] != fs[len(is_) - 1][1][:len(is_[-1][1])]:
        bad = 'the head of the data section differs between info-only and full decode'
    elif any(n == 'template_data' for n, _ in is_[-1][1]):
        bad = 'info-only decode returned the template data'
    if bad:
        ctx.violation('%s: %s' % (label, bad), {'hex': b.hex()[:4000], 'spec': spec, 'info': is_, 'full': fs}, signature=sig)
        return []
    # damaged data section + damaged stop signature: info-only must not notice
    fr = msgs.parse_frame(b)
    off4 = [off for idx, off, n in fr['sections'] if idx == 4][0]
    rng = ctx.rng('damage:%s:%d' % (label, len(b)))
    dmg = bytearray(b[:fr['end']])
    for i in range(off4 + 4, fr['end'] - 4):
        dmg[i] = rng.randrange(256)
    dmg[-4:] = bytes(rng.randrange(256) for _ in range(4))
    dmg = bytes(dmg) + bytes(rng.randrange(256) for _ in range(rng.choice([0, 3])))
    info2 = msgs.impl_decode(dmg, info_only=True)
    info2.pop('_msg', None)
    ctx.traces += 1
    if 'err' in info2 or sections_of(info2) != is_:
        ctx.violation('%s: info-only decode of the same message with the data section overwritten and the stop signature damaged '
                      'gives %s' % (label, info2.get('err', 'different sections')),
                      {'hex': dmg.hex()[:4000], 'spec': spec}, signature=dict(sig, damaged=True))
        return []
    # correspondence (model): info-only on both variants, full on generated messages
    reqs = [msgs.decode_req(b, data_bits, True), msgs.decode_req(dmg, data_bits, True)]
    impls = [info, info2]
    if model_full:
        reqs.append(msgs.decode_req(b, data_bits, False))
        impls.append(full)
    breaks = []
    for req, im, mo in zip(reqs, impls, ctx.driver.batch(reqs)):
        ctx.traces += 1
        mo = msgs.strip_model_decode(mo)
        if mo != im:
            breaks.append({'req': {k: (v if k != 'hex' else v[:4000]) for k, v in req.items()}, 'impl': im, 'model': mo})
    return breaks


def stream_scan(ctx, messages, rng, stream=None):
    """info-only scan: every message comes back with exactly its own bytes (by declared total length)"""
    from pybufrkit.decoder import Decoder, generate_bufr_message
    s = b''
    for m in messages:
        s += bytes(rng.choice(b'\x00\x01 abcxyz\xff') for _ in range(rng.choice([0, 0, 2, 5]))) + m
    s += b'tail'
    if stream is not None:
        s = stream
    try:
        got = [m.serialized_bytes for m in generate_bufr_message(Decoder(), s, info_only=True)]
    except Exception as e:  # noqa
        got = core.err_tag(e)
    ctx.count('stream-scan')
    ctx.case({'stream': len(s), 'n': len(messages)}, nontrivial=True)
    if got != list(messages):
        ctx.violation('info-only stream scan of %d messages returned %s' % (
            len(messages), got if isinstance(got, str) else 'different byte strings (%d messages)' % len(got)),
            {'stream': s.hex(), 'messages': [m.hex() for m in messages]}, signature={'kind': 'stream'})


def reused_decoder_history(ctx, generated, rng):
    from pybufrkit.decoder import Decoder, generate_bufr_message
    dec = Decoder()
    pool = rng.sample(generated, min(12, len(generated)))
    hist = []
    for step in range(60 if ctx.tier == 'quick' else 600):
        b, k, spec = rng.choice(pool)
        info = rng.random() < 0.5
        ign = rng.random() < 0.4
        damage = info and rng.random() < 0.5
        bb = b
        if damage:
            fr = msgs.parse_frame(b)
            s4 = [x for x in fr['sections'] if x[0] == 4]
            if s4 and s4[0][2] > 4:
                o = s4[0][1]
                bb = b[:o + 4] + bytes(rng.randrange(256) for _ in range(s4[0][2] - 4)) + b'XXXX'
        hist.append({'info_only': info, 'ignore_value_expectation': ign, 'damaged_data': damage, **spec})
        ctx.case({'history-step': step, **hist[-1]}, nontrivial=True)
        ctx.count('reused-decoder-step')
        try:
            m = dec.process(bb, info_only=info, ignore_value_expectation=ign, wire_template_data=False)
            got = [msgs.canon_section(x) for x in m.sections]
            err = None
        except Exception as e:  # noqa
            got, err = None, core.err_tag(e)
        fresh = msgs.impl_decode(b, info_only=False)
        want = [x['params'] for x in fresh['sections']]
        bad = err is not None
        if not bad and info:
            want03 = [x['params'] for x in fresh['sections'] if x['index'] <= 3]
            # sections 0-3 as in a full decode; at most the cut-down section 4 header after them
            bad = got[:len(want03)] != want03 or len(got) > len(want03) + 1
        elif not bad:
            bad = got != want
        if bad:
            ctx.violation('a Decoder used before for other decodes: %s decode %s (history of %d calls)'
                          % ('info-only' if info else 'full', 'failed with ' + err if err else 'returned other sections 0-3 than a fresh full decode', len(hist)),
                          {'history': hist, 'message_hex': bb.hex()}, signature={'kind': 'reused-decoder', 'info': info})
            return
    # an info-only scan with the same (used) decoder cuts at the declared lengths
    msgs_ = [g[0] for g in rng.sample(generated, 3)]
    stream = b'junk'.join(msgs_)
    try:
        got = [m.serialized_bytes for m in generate_bufr_message(dec, stream, info_only=True)]
    except Exception as e:  # noqa
        got = core.err_tag(e)
    if got != msgs_:
        ctx.violation('info-only scan with a Decoder used before: pieces differ from the declared-length cuts', {'history': hist, 'stream_hex': stream.hex()},
                      signature={'kind': 'reused-decoder-scan'})


def run(ctx):
    ctx.rule = ('every parameter name of every bundled layout x editions 2,3,4 x section 2 absent/present x (%name, %k.name k=-1..6); '
                'sampled names x non-numeric / blank-padded / signed / underscore indices, missing %, blanks, empty, two dots; '
                'queries on full and info-only decodes; info-only vs full decode on generated messages (k = 0..47 bits) and on the '
                'sample files, also with damaged data section and stop signature; info-only stream scan; info matrix: '
                'Decoder.process(info_only) and generate_bufr_message(info_only) x {plain, continue_on_error, filter, both} x data '
                'category 0..255 x n_subsets 0/1/many x header patches x data intact/random/0xFF/0x00/cut, streams of 1..4. '
                'Non-trivial: the query returns a value / the data section is not the intact one.')
    rng = ctx.rng('gen')
    names = all_param_names()
    exprs = expressions(names, rng)
    breaks = []
    generated = []
    for ed in (2, 3, 4):
        for s2 in (None, '', msgs.rand_bits(rng, 11)):
            for k in ((0, 5, 13) if ctx.tier == 'quick' else (0, 1, 5, 8, 13, 40)):
                js, payload = msgs.make_message(rng, ed, k, s2, 1)
                e = msgs.impl_encode(js, True)
                if 'err' in e:
                    ctx.violation('encoding a generated message failed: %s' % e['err'], {'json': js}, signature={'kind': 'encode'})
                    continue
                b = bytes.fromhex(e['hex'])
                spec = {'ed': ed, 'sec2': s2, 'k': k}
                generated.append((b, k, spec))
                if k != 5:
                    continue
                for info in (False, True):
                    r = check_queries(ctx, 'query-info' if info else 'query', b + b'xx', k, exprs, info, spec)
                    breaks += r or []
    # info-only vs full on generated messages of every data length
    for ed in (2, 3, 4):
        for k in range(48):
            s2 = [None, '', msgs.rand_bits(rng, 9)][k % 3]
            js, payload = msgs.make_message(rng, ed, k, s2, 1 + (k % 2))
            e = msgs.impl_encode(js, True)
            if 'err' in e:
                continue
            generated.append((bytes.fromhex(e['hex']), k * (1 + k % 2), {'ed': ed, 'sec2': s2, 'k': k}))
    for b, k, spec in generated:
        breaks += info_vs_full(ctx, 'generated', b, k, spec)
    # sample files
    files = sorted(glob.glob(os.path.join(core.REPO, 'tests', 'data', '*.bufr')))
    for f in files:
        s = open(f, 'rb').read()
        i = s.find(b'BUFR')
        if i < 0:
            continue
        try:
            fr = msgs.parse_frame(s[i:])
        except Exception:  # noqa
            continue
        b = s[i:i + fr['end']]
        spec = {'file': os.path.basename(f)}
        breaks += info_vs_full(ctx, 'file', b, 0, spec, model_full=False)
        if os.path.basename(f) in ('207003.bufr', 'contrived.bufr', 'uegabe.bufr', 'b005_89.bufr'):
            r = check_queries(ctx, 'query-file', b, 0, exprs[:len(names) * 9], True, spec)
            breaks += r or []
    # one Decoder object reused for full / info-only / expectation-free decodes in random order (as an application
    # does): every info-only decode must still return the sections 0-3 of a fresh decoder's full decode, must not
    # read the data section (it succeeds on damaged data) and an info-only scan must cut at the declared lengths
    reused_decoder_history(ctx, generated, rng)
    # stream scan
    for n in (1, 2, 5):
        stream_scan(ctx, [g[0] for g in rng.sample(generated, n)], rng)
    if files:
        stream_scan(ctx, [g[0] for g in rng.sample(generated, 3)], rng)
    # metadata-only decoding ignores the data content: both entry points x every data category x header values x
    # data section intact / random / 0xFF / 0x00 / stream cut at its declared end (harness/c17_info.py)
    breaks += c17_info.run(ctx)
    ctx.notes.append('expressions per message: %d; parameter names: %d; sample files: %d' % (len(exprs), len(names), len(files)))
    if breaks and ctx.violations == 0:
        b = breaks[0]
        ctx.violation('correspondence model<->pybufrkit broken on %d observations while the oracle holds on all of them; first: %s'
                      % (len(breaks), json.dumps(b, default=repr)[:700]),
                      {'correspondence': 'mdquery/msg-decode', 'first': b, 'count': len(breaks)},
                      signature={'kind': 'correspondence'}, no_failing_input=True)
    ctx.assumptions = ['expressions are ASCII (Python int() also accepts non-ASCII digits)',
                       'sample files: the first message of each file of /repo/tests/data']


def replay(ctx, path):
    body = json.load(open(path))
    rp = body['replay']
    if 'first' in rp:
        rp = rp['first']
    if 'info_matrix' in rp:
        c17_info.replay(ctx, rp['info_matrix'])
    elif 'expr' in rp and 'hex' in rp:
        b = bytes.fromhex(rp['hex'])
        br = check_queries(ctx, 'replay', b, rp.get('data_bits', 0), [rp['expr']], rp.get('info_only', False), rp.get('spec'))
        print(json.dumps({'breaks': br}, default=repr)[:2000])
    elif 'hex' in rp:
        b = bytes.fromhex(rp['hex'])
        br = info_vs_full(ctx, 'replay', b, (rp.get('spec') or {}).get('k', 0), rp.get('spec'), model_full=False)
        print(json.dumps({'breaks': br}, default=repr)[:2000])
    elif 'stream' in rp and 'messages' in rp:
        stream_scan(ctx, [bytes.fromhex(m) for m in rp['messages']], ctx.rng('replay'), stream=bytes.fromhex(rp['stream']))
    else:
        print(json.dumps(rp, default=repr)[:2000])
