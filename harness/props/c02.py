"""
C02 — encoding produces the canonical FM-94 bit stream for the given values.

Theorems: lean/BufrModel/Props/C02Canon.lean (C02_data_bits_canonical: encodeData = Spec.canonDataBits, the
concatenation of the declarative field / column codes along the flat FM-94 reading, both directions;
characterisations of the codes), Props/C02Message.lean (C02_message_canonical: the bytes of Encoder.process =
Spec.canonMessageBits for editions 2-4 with / without section 2; sections 3, 4, 5 spelled out),
Props/C02.lean (width rule of nbits_for_uint, the column written by the encoder satisfies the relation
Spec.ColOK, ColOK <-> some legal width, ColOK columns decode to the column), Props/C02Packing.lean (F/X/Y
packing of section 3).
Tie: `Encoder().process(json)` against the model encoder (`enc-data`) AND against the specification alone
(`canon-bits`: data bits, section 4, whole message; a quarter of the cases also with a section 2) on
  (a) templates of the shared grammar (levels 0-2: elements, sequences, nested fixed / delayed
      replication, operators 201-208 / 221, bitmap constructs) with values from the model's generate
      mode, 1-6 subsets, compressed and not, editions 2, 3, 4;
  (b) hand-built columns: all-equal, all-missing, a missing entry next to equal ones, first two subsets
      equal and a later one different, both range ends, 1-bit fields, fields widened by 201YYY up to
      64 bits, negative reference values, strings (missing / equal / different / shorter / longer
      than the field / empty, 208YYY).
  Compared: data bits incl. zero padding, labels, links, and ALL bytes of the message against a
  message assembled independently (model framing `msg-encode` over the model's data bits; and the
  implementation's own frame with the model's data bits put in).
Oracle (on the implementation's bytes only, independent of the model ENCODER): frame parses and its
lengths add up; section 3 unpacks (2/6/8 bits) to the descriptors given; the data bits decoded by the
model DECODER give back the canonical values and leave < 1 octet (< 2 for edition <= 3) of zero bits;
compressed data: raw column structure (`col-parse`: minimum, 6-bit width, increments) obeys 94.6.3:
width 0 iff the encoder saw all subsets agree, minimum = least present raw value, increments
reconstruct the raw values, all ones iff missing.
A difference from the model with a passing oracle is another LEGAL encoding: reported with
`no-failing-input-found`.
"""
import json
import multiprocessing
import random

from harness import core, tables_io
from harness import coder_io as C
from harness import coderprops as P
from harness import encprops as E

PROP = 'C02'

META = dict(
    claimed=True,
    text='Kernel-checked theorems about the Lean model of the encoder, at whole-message strength. '
         'DATA SECTION (Props/C02Canon.lean): C02_data_bits_canonical — for every table group, every descriptor list the '
         'implementation can build (WFflat), every list of value lists, any number of subsets, compressed or not, the bits of '
         'encodeData(build(ids)) EQUAL Spec.canonDataBits (Spec/CanonBits.lean) as an Option: the concatenation, along the flat '
         'FM-94 reading of the descriptor list (Spec.flatWalk: replication by counting, sequences replaced by their rows, operators '
         'on the registers), of the declarative field codes fieldCode (numeric: round_half_even(value*10^scale) - reference in '
         'binary on the width in force, missing = all ones; code/flag/associated/skipped: unsigned on their width; strings padded '
         'with blanks / truncated, missing = 0xFF octets; 203 new references sign-and-magnitude), per subset, subsets concatenated '
         '- resp. of the column codes colCode (all equal: field + zero count; else least raw value on the field width, 6-bit '
         'increment width = least width leaving all ones free above max-min+1, increments, all ones = missing; strings: NUL base, '
         'octet count, fields). Both directions: the encoder refuses exactly when the specification assigns no stream '
         '(C02_encoder_accepts_iff); fieldCode/colCode are characterised outright (C02_numeric_code_iff, C02_uint_code_iff, '
         'C02_chars_code_iff, C02_newref_code_iff, C02_int_column_code_iff, C02_scaledRound_spec, C02_incrWidth_least, '
         'C02_emit_step, C02_emit_refused_iff): a value has no code exactly when it is out of range for the width in force or of the '
         'wrong kind; the bits are explicitly the concatenation of one field code per supplied value, in order, subset by subset, resp. '
         'of one column code per flat position (Props/C02Trace.lean: C02_subset_is_concatenation, C02_data_is_concatenation, '
         'C02_compressed_is_concatenation). On the columns the property quantifies over the column code satisfies the relation ColOK '
         '(C02_column_code_colOK -> C02_column_canonical, C02_colOK_decodes). The proof: encPrimsU = canonPrimsU and '
         'encPrimsC = canonPrimsC (Lemmas/CanonBits*.lean), C01_flat_eq_tree (tree walk = flat reading for all primitives), '
         'encodeSubset_pre (subsets independent). '
         'WHOLE MESSAGE (Props/C02Message.lean): C02_message_canonical — for editions 2, 3, 4, with and without section 2, all '
         'section values and any data bits, the bytes of the model of Encoder.process (lengths recomputed) EQUAL '
         'Spec.canonMessageBits (Spec/CanonMessage.lean): sections 0-5 per the regenerated section definitions, every parameter in '
         'binary on its width, section 3 = reserved octet, subset count, flags and the 2/6/8-bit packing of the unexpanded '
         'descriptors (C02_section3_canonical, C02_descriptors_code, C02_descriptor_list_packing), section 4 = 4 octets header + '
         'data bits + zero padding (C02_section4_canonical), padding to whole octets / to an even number of octets for editions '
         '<= 3 (C02_section_padding), section lengths in the first three octets, total length in octets 5-7, the stop signature '
         'last (C02_section5_canonical); C02_message_data_canonical composes both. The closed facts about the regenerated layouts '
         '(C02_bundled_layouts_ok, C02_bundled_sections_345) are re-decided by the kernel on every run. '
         'COLUMNS / PACKING (Props/C02.lean, C02Packing.lean): width rule of nbits_for_uint, ColOK, F/X/Y packing invertible. '
         'Correspondence: Encoder().process bytes against (1) the model encoder, (2) an independently assembled whole message and '
         '(3) the bits and the whole message computed from the SPECIFICATION alone (driver op canon-bits: Spec.canonDataBits, '
         'canonSection4, canonMessageBits - no encoder code involved; a quarter of the cases also with section 2), byte for byte, on '
         'generated templates of every construct (1-6 subsets, compressed or not, editions 2-4) and on hand-built columns (missing '
         'next to equal, all equal, all missing, 1-bit, 64-bit, negative references, short/long strings); oracle evaluated on the '
         'implementation bytes alone (model decoder + raw column parser).',
    technique='Lean 4 theorems (equality of the encoder primitives with declarative code-writing primitives, flat-reading = tree-walk, '
              'symbolic evaluation of the section loop on the regenerated layouts, bit arithmetic) + checked model/implementation '
              'correspondence incl. a specification-only third stream + bytes-only oracle',
    note='The specification follows the implementation where it is laxer than FM-94 and the property does not quantify: in a compressed '
         'column whose subsets differ only the minimum has to fit the field (a larger entry is carried by the increments: '
         'C02_compressed_carries_out_of_range); a raw value equal to all ones is written as it is (reads back missing); a decimal for a '
         'scale-0 field is outside the modelled domain. A disagreement with the model / the specification whose bytes still satisfy '
         'the oracle is another legal encoding and is reported as no-failing-input-found. Strings that differ only in trailing blanks '
         'are "different" for the encoder (width != 0); the oracle follows the encoder\'s notion of equality (notes/C02.md).',
)

CHUNK = 250


# ---------------------------------------------------------------------------------------------
# hand-built cases
def column_pattern(rng, n, w, allow_missing=True):
    """raw contents of one column over n subsets (None = missing); w = width in bits"""
    top = (1 << w) - 2 if w > 1 else 1
    allow_missing = allow_missing and w > 1

    def rnd():
        return rng.randint(0, top)
    kinds = ['equal', 'ends', 'random', 'two', 'late-diff', 'span-pow2']
    if allow_missing:
        kinds += ['all-missing', 'missing+equal', 'missing+equal', 'missing+two', 'missing-first']
    k = rng.choice(kinds)
    if k == 'equal':
        v = rng.choice([0, top, rnd()])
        col = [v] * n
    elif k == 'all-missing':
        col = [None] * n
    elif k == 'ends':
        col = [rng.choice([0, top]) for _ in range(n)]
        if n > 1:
            col[0], col[-1] = 0, top
    elif k == 'random':
        col = [rnd() for _ in range(n)]
    elif k == 'two':
        a, b = rnd(), rnd()
        col = [rng.choice([a, b]) for _ in range(n)]
    elif k == 'late-diff':
        a = rnd()
        col = [a] * n
        if n > 2:
            col[rng.randint(2, n - 1)] = rnd()
    elif k == 'span-pow2':
        # max - min around a power of two: the width rule's boundary
        j = rng.randint(0, max(0, w - 1))
        a = rng.randint(0, max(0, top - (1 << j)))
        d = max(0, min(top - a, (1 << j) + rng.choice([-2, -1, 0, 1])))
        col = [a, a + d] + [a + rng.randint(0, d) for _ in range(n - 2)]
        col = col[:n]
    elif k == 'missing+equal':
        a = rng.choice([0, top, rnd()])
        col = [a] * n
        col[rng.randrange(n)] = None
    elif k == 'missing+two':
        a, b = rnd(), rnd()
        col = [rng.choice([a, b, None]) for _ in range(n)]
    else:  # missing-first
        col = [None] + [rnd() for _ in range(n - 1)]
    return k, col


def string_pattern(rng, n, nbytes):
    """user strings (hex or None) and their canonical form"""
    def s(k):
        return bytes(rng.randint(0x21, 0x7e) for _ in range(k))
    kinds = ['equal', 'different', 'all-missing', 'missing+equal', 'short', 'long', 'empty', 'trailing-blank', 'mixed']
    k = rng.choice(kinds)
    if k == 'equal':
        a = s(nbytes)
        col = [a] * n
    elif k == 'different':
        col = [s(nbytes) for _ in range(n)]
    elif k == 'all-missing':
        col = [None] * n
    elif k == 'missing+equal':
        a = s(nbytes)
        col = [a] * n
        col[rng.randrange(n)] = None
    elif k == 'short':
        col = [s(rng.randint(0, max(0, nbytes - 1))) for _ in range(n)]
    elif k == 'long':
        col = [s(nbytes + rng.randint(1, 5)) for _ in range(n)]
    elif k == 'empty':
        col = [b''] * n
    elif k == 'trailing-blank':
        a = s(max(0, nbytes - 2))
        col = [a + b' ' * rng.randint(0, 2) for _ in range(n)]
    else:
        a = s(nbytes)
        col = [rng.choice([a, a[:max(0, nbytes - 1)], a + b'X', None, s(nbytes)]) for _ in range(n)]
    user = [None if x is None else {'b': x.hex()} for x in col]
    canon = [None if x is None else {'b': E.pad(x.hex(), nbytes)} for x in col]
    return k, user, canon


class Special(object):
    def __init__(self, rng):
        self.rng = rng
        tg = C.TemplateGen(rng, level=0)
        self.b = tg.b
        self.numeric = tg.numeric
        self.codeflag = tg.codeflag
        self.string = tg.string
        self.onebit = tg.onebit
        self.scale0 = [i for i in tg.numeric if int(tg.b[i][2]) == 0]
        self.negref = [i for i in tg.numeric if int(tg.b[i][3]) < 0]

    def field(self, n):
        """one template item with one value column -> (ids, user column, canonical column, tag)"""
        rng, b = self.rng, self.b
        r = rng.random()
        if r < 0.16:       # widened up to 64 bits, scale 0 so that Python integers carry the value exactly
            e = rng.choice(self.scale0)
            nb = int(b[e][4])
            w = rng.choice([rng.randint(33, 64), 63, 64, 60, rng.randint(nb, 64)])
            y = 128 + (w - nb)
            if not (1 <= y <= 255) or w < 1:
                y, w = 0, nb
            w_, s_, r_ = E.eff_params(b, e, y201=y)
            k, col = column_pattern(rng, n, w_)
            vals = [E.grid(x, s_, r_) for x in col]
            ids = [201000 + y, e, 201000] if y else [e]
            return ids, vals, vals, 'wide-%s' % k if w > 32 else '201-%s' % k
        if r < 0.30:       # negative reference value, plain or under 207 / 202
            e = rng.choice(self.negref)
            mod = rng.choice(['none', 'none', '207', '202'])
            y207 = rng.randint(1, 2) if mod == '207' else 0
            y202 = rng.choice([129, 127]) if mod == '202' else 0
            w_, s_, r_ = E.eff_params(b, e, y202=y202, y207=y207)
            if w_ > 40 and s_ != 0:
                w_, s_, r_ = E.eff_params(b, e)
                y207 = y202 = 0
            k, col = column_pattern(rng, n, w_)
            vals = [E.grid(x, s_, r_) for x in col]
            ids = [e]
            if y207:
                ids = [207000 + y207, e, 207000]
            if y202:
                ids = [202000 + y202, e, 202000]
            return ids, vals, vals, 'negref-%s' % k
        if r < 0.50:
            e = rng.choice(self.numeric)
            w_, s_, r_ = E.eff_params(b, e)
            k, col = column_pattern(rng, n, w_)
            vals = [E.grid(x, s_, r_) for x in col]
            return [e], vals, vals, 'numeric-%s' % k
        if r < 0.62:
            e = rng.choice(self.codeflag)
            k, col = column_pattern(rng, n, int(b[e][4]))
            return [e], col, col, 'codeflag-%s' % k
        if r < 0.72 and self.onebit:
            e = rng.choice(self.onebit)
            k, col = column_pattern(rng, n, 1)
            if tables_io.unit_kind(b[e][1]) == 'n':
                w_, s_, r_ = E.eff_params(b, e)
                col = [E.grid(x, s_, r_) for x in col]
            return [e], col, col, 'onebit-%s' % k
        # strings, sometimes resized by 208YYY
        e = rng.choice(self.string)
        nbytes = int(b[e][4]) // 8
        ids = [e]
        if rng.random() < 0.3:
            nbytes = rng.randint(1, 12)
            ids = [208000 + nbytes, e, 208000]
        k, user, canon = string_pattern(rng, n, nbytes)
        return ids, user, canon, 'string-%s' % k

    def case(self, idx):
        rng = self.rng
        n = rng.choice([1, 2, 2, 3, 3, 4, 5, 6])
        comp = rng.random() < 0.7
        nf = rng.randint(1, 4)
        parts, tags = [], []
        user = [[] for _ in range(n)]
        canon = [[] for _ in range(n)]
        for _ in range(nf):
            ids, u, cn, tag = self.field(n)
            parts.append(ids)
            tags.append(tag)
            for i in range(n):
                user[i].append(u[i])
                canon[i].append(cn[i])
        c = E.XCase(parts, n, comp, rng.choice([4, 4, 3, 2]), idx, user, canon, kind='special')
        c.note = ','.join(tags)
        return c


# ---------------------------------------------------------------------------------------------
def failure_of(r):
    if r.oracle:
        return 'oracle'
    if r.why_model or r.why_spec:
        return 'model'
    return None


def run_chunk(args):
    """one chunk of cases; everything derives from (seed, chunk index).  -> summary dict"""
    seed, k, n_gen, n_special = args
    rng = core.rng_for(PROP, seed, 'chunk-%d' % k)
    drv = core.Driver()
    treq = tables_io.group_request()
    cases = []
    for level, share in ((0, 0.2), (1, 0.35), (2, 0.45)):
        cs = P.gen_cases(rng, int(round(n_gen * share)), level=level, max_subsets=6, editions=(4, 4, 3, 2))
        cases.extend(cs)
    cases = P.gen_values(drv, treq, cases, rng)
    sp = Special(rng)
    cases += [sp.case(i) for i in range(n_special)]
    for i, c in enumerate(cases):
        c.idx = k * 100000 + i
    out = {'cases': [], 'counts': {}, 'traces': 0, 'violations': []}

    def count(key, n=1):
        out['counts'][key] = out['counts'].get(key, 0) + n
    results = E.evaluate_encode(drv, treq, cases)
    seen_sig = {}
    for r in results:
        c = r.c
        kind = E.kind_of(c)
        obj = {'ids': c.ids, 'n': c.n, 'compressed': c.comp, 'edition': c.edition, 'values': c.valss}
        if r.both_refused:
            count('both-refused')
            out['cases'].append((obj, False))
            continue
        nontriv = P.nontrivial(c) if kind == 'generated' else any(v is not None for vs in c.valss for v in vs)
        out['cases'].append((obj, nontriv))
        out['traces'] += 1
        count(kind)
        if r.spec is not None and 'bits' in r.spec and not r.why_spec:
            count('spec:section4-identical')
            if r.spec.get('msg'):
                count('spec:whole-message-identical')
            if r.spec.get('with_section2'):
                count('spec:whole-message-with-section2-identical')
        count('compressed' if c.comp else 'uncompressed')
        count('edition-%d' % c.edition)
        count('subsets-%d' % c.n)
        if kind == 'generated':
            for f in P.classify(c.ids):
                count(f)
        else:
            for t in c.note.split(','):
                count('col:' + t)
        fail = failure_of(r)
        if not fail:
            continue
        sigkey = json.dumps(describe(r)[2], sort_keys=True)
        seen_sig[sigkey] = seen_sig.get(sigkey, 0) + 1
        if seen_sig[sigkey] > 1:
            # one (shrunk) representative per signature and chunk; the rest is only counted
            count('failures-not-reported')
            continue
        if kind == 'generated':
            def still(c2, fail=fail):
                cs = P.gen_values(drv, treq, [c2], core.rng_for(PROP, seed, 'shrink'))
                if not cs:
                    return False
                r2 = E.evaluate_encode(drv, treq, cs)[0]
                return failure_of(r2) == fail
            small = P.shrink(c, still, budget=16)
            if small is not c:
                cs = P.gen_values(drv, treq, [small], core.rng_for(PROP, seed, 'shrink'))
                r2 = E.evaluate_encode(drv, treq, cs)[0] if cs else None
                if r2 is not None and failure_of(r2) == fail:
                    r = r2
        out['violations'].append(describe(r))
    return out


def describe(r):
    c = r.c
    rep = c.replay()
    if r.impl[0] == 'ok':
        rep['message_hex'] = r.impl[1].hex()
    if r.oracle:
        kind, text = r.oracle
        rep['why'] = text
        sig = {'stage': 'oracle', 'kind': kind, 'compressed': bool(c.comp)}
        what = 'oracle (%s): %s; ids %s, %d subset(s), %s' % (kind, text, c.ids[:30], c.n, 'compressed' if c.comp else 'uncompressed')
        return what, rep, sig, False
    why = r.why_model or r.why_spec
    rep['why'] = why
    if r.why_spec:
        rep['why_spec'] = r.why_spec
    stage = why.split(' differ')[0].split(':')[0][:40]
    sig = {'stage': 'model' if r.why_model else 'spec', 'what': stage, 'compressed': bool(c.comp)}
    what = ('implementation and %s disagree but the bytes satisfy the oracle (another legal encoding): %s; ids %s'
            % ('model encoder' if r.why_model else 'specification bits', why, c.ids[:30]))
    return what, rep, sig, True


def run(ctx):
    ctx.rule = ('the encoder accepted the values; generated case: the template has a replication, sequence or operator and a '
                'non-missing value; hand-built column case: at least one non-missing value')
    total = 1500 if ctx.tier == 'quick' else 20000
    n_special = 90            # per chunk
    n_gen = CHUNK - n_special
    chunks = [(ctx.seed, k, n_gen, n_special) for k in range((total + CHUNK - 1) // CHUNK)]
    if len(chunks) > 1:
        with multiprocessing.Pool(min(16, len(chunks))) as pool:
            outs = pool.map(run_chunk, chunks)
    else:
        outs = [run_chunk(chunks[0])]
    for out in outs:
        for obj, nontriv in out['cases']:
            ctx.case(obj, nontrivial=nontriv, sample=nontriv and len(ctx.samples) < 6 and len(json.dumps(obj)) < 1500)
        ctx.traces += out['traces']
        for key, n in out['counts'].items():
            ctx.count(key, n)
        for what, rep, sig, nfi in out['violations']:
            ctx.violation(what, rep, signature=sig, no_failing_input=nfi)


def replay(ctx, path):
    with open(path) as f:
        body = json.load(f)
    rep = body['replay']
    if 'ids' not in rep:
        print('replay: nothing to re-run for this entry (proof obligation)')
        return
    drv = ctx.driver
    treq = tables_io.group_request()
    c = E.XCase([rep['ids']], rep['n_subsets'], rep['compressed'], rep.get('edition', 4), rep.get('case_index', 0),
                rep['values'], rep.get('expect'), kind=rep.get('kind', 'generated'))
    r = E.evaluate_encode(drv, treq, [c])[0]
    fail = failure_of(r)
    print('replay:', (r.oracle[1] if r.oracle else (r.why_model or r.why_spec)) if fail else 'implementation, model, specification and oracle agree')
    if fail:
        what, rep2, sig, nfi = describe(r)
        ctx.violation(what, rep2, signature=sig, no_failing_input=nfi)
